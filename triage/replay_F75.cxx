// F75: voxel size and first pixel offset were written with 6 significant digits: voxel positions did not come back as written
#include "stir/VoxelsOnCartesianGrid.h"
#include "stir/IndexRange3D.h"
#include "stir/IO/OutputFileFormat.h"
#include "stir/IO/read_from_file.h"
#include "stir/Succeeded.h"
#include <iostream>
#include <cmath>
using namespace stir;
int
main()
{
  typedef DiscretisedDensity<3, float> image_t;
  const CartesianCoordinate3D<float> voxel_size(2.03125F, 1.76543212F, 1.76543212F);
  const CartesianCoordinate3D<float> origin(1234.56775F, -3.14159274F, 17.7777786F);
  VoxelsOnCartesianGrid<float> image(IndexRange3D(0, 4, -3, 3, -3, 3), origin, voxel_size);
  image.fill(1.F);
  std::string filename = "/tmp/tri/replay_F75";
  OutputFileFormat<image_t>::default_sptr()->write_to_file(filename, image);
  shared_ptr<image_t> back(read_from_file<image_t>(filename));
  const auto& vb = dynamic_cast<const VoxelsOnCartesianGrid<float>&>(*back);
  int bad = 0;
  std::cout.precision(10);
  for (int d = 1; d <= 3; ++d)
    {
      std::cout << "voxel size[" << d << "] written " << voxel_size[d] << " read back " << vb.get_voxel_size()[d] << "   origin written " << origin[d]
                << " read back " << vb.get_origin()[d] << "\n";
      if (vb.get_voxel_size()[d] != voxel_size[d])
        ++bad;
    }
  // physical position of the last voxel
  const BasicCoordinate<3, int> last = make_coordinate(4, 3, 3);
  const CartesianCoordinate3D<float> p0 = image.get_physical_coordinates_for_indices(last);
  const CartesianCoordinate3D<float> p1 = vb.get_physical_coordinates_for_indices(last);
  const double dist = std::sqrt(double(square(p0.x() - p1.x()) + square(p0.y() - p1.y()) + square(p0.z() - p1.z())));
  std::cout << "physical position of voxel (4,3,3): written " << p0.z() << " " << p0.y() << " " << p0.x() << ", read back " << p1.z() << " " << p1.y() << " " << p1.x()
            << ", distance " << dist << " mm\n";
  if (dist > 1.5e-4) // rounding of sums of floats of size 1e3 is 1.2e-4
    ++bad;
  std::cout << (bad ? "DEVIATIONS " : "ok ") << bad << "\n";
  return bad;
}
