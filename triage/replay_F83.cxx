// F83: an IndexRange<N> that is default-constructed and then built with grow() and element assignment (as ML_norm.cxx does) kept
// believing that it is regular: size_all() and is_regular() were wrong, and Array(range) allocated too small a block
#include "stir/IndexRange.h"
#include "stir/Array.h"
#include <iostream>
using namespace stir;
int
main()
{
  int bad = 0;
  IndexRange<2> r;
  r.grow(0, 1);
  r[0] = IndexRange<1>(0, 0);
  r[1] = IndexRange<1>(0, 4);
  const std::size_t true_size = r[0].size_all() + r[1].size_all();
  std::cout << "rows (0..0) and (0..4): size_all() " << r.size_all() << " (sum over the rows " << true_size << "), is_regular() " << r.is_regular() << "\n";
  if (r.size_all() != true_size || r.is_regular())
    ++bad;
  {
    Array<2, float> a(r);
    const std::ptrdiff_t last_offset = (&a[1][4]) - (&a[0][0]);
    std::cout << "Array<2,float> a(r): size_all() " << a.size_all() << ", a[1][4] lies " << last_offset << " elements after a[0][0]"
              << (a.is_contiguous() ? " in one block of " : "; contiguous block: no; elements: ") << a.size_all() << "\n";
    if (a.is_contiguous() && static_cast<std::size_t>(last_offset) >= a.size_all())
      ++bad;
    if (a.size_all() != true_size)
      ++bad;
  }
  {
    // a regular range built the same way is still recognised as regular
    IndexRange<2> q;
    q.grow(0, 2);
    for (int i = 0; i <= 2; ++i)
      q[i] = IndexRange<1>(-1, 2);
    std::cout << "three rows (-1..2): size_all() " << q.size_all() << ", is_regular() " << q.is_regular() << "\n";
    if (q.size_all() != 12 || !q.is_regular())
      ++bad;
  }
  std::cout << (bad ? "DEVIATIONS " : "ok ") << bad << "\n";
  return bad;
}
