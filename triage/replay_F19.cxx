// replay of candidate finding F19 (C03): a row of the system matrix is determined by the bin, the data geometry, the image grid (and the
// matrix' settings) alone - also after setting the matrix up again for another geometry.
// ProjMatrixByBinUsingRayTracing::set_up() RESETS the user's setting use_actual_detector_boundaries to false when the data are mashed or
// axially compressed; the next set_up() for uncompressed data keeps it false, while a fresh matrix with the same setting uses the
// actual detector boundaries.
#include "stir/recon_buildblock/ProjMatrixByBinUsingRayTracing.h"
#include "stir/recon_buildblock/ProjMatrixElemsForOneBin.h"
#include "stir/ProjDataInfo.h"
#include "stir/Scanner.h"
#include "stir/VoxelsOnCartesianGrid.h"
#include "stir/ExamInfo.h"
#include <cmath>
#include <iostream>
using namespace stir;

static double
max_row_difference(ProjMatrixByBin& a, ProjMatrixByBin& b, const ProjDataInfo& pdi, int& rows_differing)
{
  double maxdiff = 0;
  rows_differing = 0;
  for (int seg = pdi.get_min_segment_num(); seg <= pdi.get_max_segment_num(); ++seg)
    for (int view = 0; view <= pdi.get_max_view_num(); view += 3)
      for (int tang = pdi.get_min_tangential_pos_num(); tang <= pdi.get_max_tangential_pos_num(); tang += 3)
        {
          const Bin bin(seg, view, pdi.get_min_axial_pos_num(seg) + 1, tang);
          ProjMatrixElemsForOneBin ra, rb;
          a.get_proj_matrix_elems_for_one_bin(ra, bin);
          b.get_proj_matrix_elems_for_one_bin(rb, bin);
          ra.sort();
          rb.sort();
          double d = ra.size() != rb.size() ? 1.e9 : 0;
          if (d == 0)
            {
              auto ib = rb.begin();
              for (auto ia = ra.begin(); ia != ra.end(); ++ia, ++ib)
                d = std::max(d, ia->get_coords() != ib->get_coords() ? 1.e9 : std::fabs(double(ia->get_value()) - ib->get_value()));
            }
          if (d > 1e-4)
            ++rows_differing;
          maxdiff = std::max(maxdiff, d);
        }
  return maxdiff;
}

int
main()
{
  shared_ptr<Scanner> scanner(new Scanner(Scanner::E953));
  scanner->set_num_rings(4);
  // uncompressed data (span 1, no mashing) and mashed data (8 views) of the same scanner
  shared_ptr<ProjDataInfo> plain(ProjDataInfo::ProjDataInfoCTI(scanner, 1, 3, scanner->get_num_detectors_per_ring() / 2, 31, false));
  shared_ptr<ProjDataInfo> mashed(ProjDataInfo::ProjDataInfoCTI(scanner, 1, 3, scanner->get_num_detectors_per_ring() / 8, 31, false));
  shared_ptr<ExamInfo> exam(new ExamInfo(ImagingModality::PT));
  shared_ptr<DiscretisedDensity<3, float>> image(new VoxelsOnCartesianGrid<float>(exam, *plain));

  ProjMatrixByBinUsingRayTracing reused;
  reused.set_use_actual_detector_boundaries(true);
  reused.set_up(mashed, image); // resets the setting (with a warning)
  reused.set_up(plain, image);

  ProjMatrixByBinUsingRayTracing fresh;
  fresh.set_use_actual_detector_boundaries(true);
  fresh.set_up(plain, image);

  int n = 0;
  const double d = max_row_difference(reused, fresh, *plain, n);
  std::cout << "use_actual_detector_boundaries as reported: re-used " << reused.get_use_actual_detector_boundaries() << ", fresh "
            << fresh.get_use_actual_detector_boundaries() << "\n";
  std::cout << "rows of the matrix set up for mashed data and then for uncompressed data vs a fresh matrix with the same settings: " << n
            << " rows differ, max difference " << d << "\n";
  return n ? 1 : 0;
}
