// replay of candidate finding F20 (C03): ProjMatrixByBinUsingInterpolation::set_up() switches the setting
// use_piecewise_linear_interpolation off for an image with a non-standard z voxel size - permanently: a later set_up() for an image where
// piecewise-linear interpolation applies keeps it off, so rows differ from those of a fresh matrix with the same settings.
#include "stir/recon_buildblock/ProjMatrixByBinUsingInterpolation.h"
#include "stir/recon_buildblock/ProjMatrixElemsForOneBin.h"
#include "stir/ProjDataInfo.h"
#include "stir/Scanner.h"
#include "stir/VoxelsOnCartesianGrid.h"
#include "stir/ExamInfo.h"
#include "stir/IndexRange3D.h"
#include <cmath>
#include <iostream>
using namespace stir;

int
main()
{
  shared_ptr<Scanner> scanner(new Scanner(Scanner::E953));
  scanner->set_num_rings(4);
  shared_ptr<ProjDataInfo> pdi(ProjDataInfo::ProjDataInfoCTI(scanner, 1, 3, 16, 31, true));
  shared_ptr<ExamInfo> exam(new ExamInfo(ImagingModality::PT));
  // standard image: z voxel size = ring spacing / 2
  shared_ptr<VoxelsOnCartesianGrid<float>> standard(new VoxelsOnCartesianGrid<float>(exam, *pdi));
  // non-standard image: z voxel size = ring spacing (every other plane)
  CartesianCoordinate3D<float> vs = standard->get_voxel_size();
  vs.z() *= 2;
  shared_ptr<VoxelsOnCartesianGrid<float>> coarse(
      new VoxelsOnCartesianGrid<float>(exam, IndexRange3D(0, 3, -15, 15, -15, 15), standard->get_origin(), vs));

  ProjMatrixByBinUsingInterpolation reused;
  reused.set_up(pdi, coarse);   // switches piecewise-linear interpolation off
  reused.set_up(pdi, standard); // ... and it stays off
  ProjMatrixByBinUsingInterpolation fresh;
  fresh.set_up(pdi, standard);

  int differing = 0, rows = 0;
  double maxdiff = 0;
  for (int seg = pdi->get_min_segment_num(); seg <= pdi->get_max_segment_num(); ++seg)
    for (int view = 0; view <= pdi->get_max_view_num(); view += 3)
      for (int tang = -9; tang <= 9; tang += 3)
        {
          const Bin bin(seg, view, pdi->get_min_axial_pos_num(seg) + 1, tang);
          ProjMatrixElemsForOneBin ra, rb;
          reused.get_proj_matrix_elems_for_one_bin(ra, bin);
          fresh.get_proj_matrix_elems_for_one_bin(rb, bin);
          ra.sort();
          rb.sort();
          double d = ra.size() != rb.size() ? 1.e9 : 0;
          if (d == 0)
            {
              auto ib = rb.begin();
              for (auto ia = ra.begin(); ia != ra.end(); ++ia, ++ib)
                d = std::max(d, ia->get_coords() != ib->get_coords() ? 1.e9 : std::fabs(double(ia->get_value()) - ib->get_value()));
            }
          ++rows;
          if (d > 1e-5)
            ++differing;
          maxdiff = std::max(maxdiff, d);
        }
  std::cout << "interpolation matrix set up for a coarse-z image and then for the standard image vs a fresh matrix: " << differing << " of "
            << rows << " rows differ, max difference " << maxdiff << "\n";
  return differing ? 1 : 0;
}
