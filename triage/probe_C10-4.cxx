/*
  Probe for things in the UNMODIFIED tree that already look wrong with respect to the
  image round-trip property (independent of the seeded change C10-4).
  Each observation is printed; exit code = number of observations that showed up.

  Build:  ../build_demo.sh extra/probe_existing.cxx extra/probe_existing   (from SEED/)
*/
#include "stir/DynamicDiscretisedDensity.h"
#include "stir/VoxelsOnCartesianGrid.h"
#include "stir/ExamInfo.h"
#include "stir/Scanner.h"
#include "stir/IO/InterfileOutputFileFormat.h"
#include "stir/IO/InterfileDynamicDiscretisedDensityOutputFileFormat.h"
#include "stir/IO/read_from_file.h"
#include "stir/Succeeded.h"
#include <iostream>
#include <string>
#include <cmath>
#include <cstdlib>
#include <algorithm>

#ifndef STIR_SRC_CONFIG_DIR
#  define STIR_SRC_CONFIG_DIR "/repo/src/config"
#endif

using namespace stir;
typedef VoxelsOnCartesianGrid<float> Image;

static int num_observations = 0;
static void
observed(const std::string& what)
{
  ++num_observations;
  std::cerr << "OBSERVED: " << what << std::endl;
}

static Image
make_image(const shared_ptr<ExamInfo>& exam_info_sptr, const float amplitude)
{
  const IndexRange<3> range(CartesianCoordinate3D<int>(0, -2, -2), CartesianCoordinate3D<int>(2, 2, 2));
  Image image(exam_info_sptr, range, CartesianCoordinate3D<float>(0, 0, 0), CartesianCoordinate3D<float>(3, 4, 4));
  for (int z = 0; z <= 2; ++z)
    for (int y = -2; y <= 2; ++y)
      for (int x = -2; x <= 2; ++x)
        image[z][y][x] = amplitude * (1.F + 0.1F * x + 0.01F * y + 0.3F * z);
  return image;
}

static shared_ptr<ExamInfo>
exam_info_with_frame(const ImagingModality::ImagingModalityValue modality, const double start, const double end)
{
  shared_ptr<ExamInfo> ei(new ExamInfo(modality));
  TimeFrameDefinitions fd;
  fd.set_num_time_frames(1);
  fd.set_time_frame(1, start, end);
  ei->set_time_frame_definitions(fd);
  return ei;
}

// 1. dynamic image with modality NM: "data offset in bytes[i]" is only a known key for type of data PET
static void
probe_spect_dynamic()
{
  shared_ptr<ExamInfo> ei(new ExamInfo(ImagingModality::NM));
  TimeFrameDefinitions fd;
  fd.set_num_time_frames(2);
  fd.set_time_frame(1, 0., 10.);
  fd.set_time_frame(2, 10., 30.);
  shared_ptr<Scanner> scanner_sptr(new Scanner(Scanner::E931));
  shared_ptr<DiscretisedDensity<3, float>> template_sptr(new Image(make_image(ei, 0.F)));
  DynamicDiscretisedDensity dyn(fd, 0., scanner_sptr, template_sptr);
  for (int f = 1; f <= 2; ++f)
    {
      ExamInfo fei(*ei);
      fei.set_time_frame_definitions(TimeFrameDefinitions(fd, f));
      Image frame = make_image(ei, f == 1 ? 1.F : 100.F);
      frame.set_exam_info(fei);
      dyn.set_density(frame, f);
    }
  InterfileDynamicDiscretisedDensityOutputFileFormat format(NumericType::FLOAT);
  std::string filename = "probe_spect_dyn";
  if (format.write_to_file(filename, dyn) != Succeeded::yes)
    return;
  unique_ptr<DynamicDiscretisedDensity> read_sptr;
  try
    {
      read_sptr = read_from_file<DynamicDiscretisedDensity>(filename);
    }
  catch (...)
    {
      observed("NM dynamic image (float, Interfile) could not be read back at all");
      return;
    }
  const float wrote = dyn.get_density(2).find_max();
  const float read = read_sptr->get_density(2).find_max();
  if (std::fabs(wrote - read) > 1.E-3F * wrote)
    {
      std::cerr << "   (frame 2 max written " << wrote << ", read back " << read << ", frame 1 max "
              << dyn.get_density(1).find_max() << ")\n";
      observed("NM (SPECT) dynamic Interfile image: frame 2 reads back with the data of frame 1 "
                 "(InterfileHeader::set_type_of_data only registers 'data offset in bytes' for type of data PET)");
    }
}

static unique_ptr<DiscretisedDensity<3, float>>
round_trip(const Image& image, const NumericType type, const std::string& name)
{
  InterfileOutputFileFormat format(type);
  std::string filename = name;
  unique_ptr<DiscretisedDensity<3, float>> res;
  if (format.write_to_file(filename, image) != Succeeded::yes)
    return res;
  try
    {
      res = read_from_file<DiscretisedDensity<3, float>>(filename);
    }
  catch (...)
    {}
  return res;
}

// 2. patient lying on the left/right side is written as "other"
static void
probe_patient_position()
{
  shared_ptr<ExamInfo> ei = exam_info_with_frame(ImagingModality::PT, 0., 10.);
  ei->patient_position = PatientPosition(PatientPosition::HFDL);
  auto read = round_trip(make_image(ei, 1.F), NumericType::FLOAT, "probe_patient_position");
  if (read && !(read->get_exam_info().patient_position == ei->patient_position))
    {
      std::cerr << "   (wrote " << ei->patient_position.get_position_as_string() << ", read "
              << read->get_exam_info().patient_position.get_position_as_string() << ")\n";
      observed("patient position HFDL (rotation 'left') does not survive: write_interfile_patient_position writes "
                 "left/right as 'other' although the reader knows 'left' and 'right'");
    }
}

// 3. energy window with lower level 0 is written but not accepted by the reader (needs > 0)
static void
probe_energy_window()
{
  shared_ptr<ExamInfo> ei = exam_info_with_frame(ImagingModality::PT, 0., 10.);
  ei->set_low_energy_thres(0.F);
  ei->set_high_energy_thres(650.F);
  auto read = round_trip(make_image(ei, 1.F), NumericType::FLOAT, "probe_energy_window");
  if (read && std::fabs(read->get_exam_info().get_high_energy_thres() - 650.F) > 1.E-3F)
    {
      std::cerr << "   (wrote [0,650], read [" << read->get_exam_info().get_low_energy_thres() << ","
              << read->get_exam_info().get_high_energy_thres() << "])\n";
      observed("energy window [0,650] keV is written (writer tests low>=0) but dropped on reading "
                 "(InterfileHeader::post_processing tests lower>0)");
    }
}

// 4. frame times are written with 6 significant digits
static void
probe_frame_time_precision()
{
  shared_ptr<ExamInfo> ei = exam_info_with_frame(ImagingModality::PT, 12345.67, 12405.92);
  auto read = round_trip(make_image(ei, 1.F), NumericType::FLOAT, "probe_frame_times");
  if (!read)
    return;
  const double s = read->get_exam_info().get_time_frame_definitions().get_start_time(1);
  const double e = read->get_exam_info().get_time_frame_definitions().get_end_time(1);
  if (std::fabs(s - 12345.67) > 1.E-3 || std::fabs(e - 12405.92) > 1.E-3)
    {
      std::cerr << "   (wrote frame (12345.67, 12405.92), read (" << s << ", " << e << "))\n";
      observed("time frame start/end lose precision: header values are written with the default 6 significant digits");
    }
}

// 5. scale factor is written with 6 significant digits: for 32-bit integers that is far more than half a step
static void
probe_scale_factor_precision()
{
  shared_ptr<ExamInfo> ei = exam_info_with_frame(ImagingModality::PT, 0., 10.);
  const Image image = make_image(ei, 1234.567F);
  auto read = round_trip(image, NumericType::INT, "probe_scale_int32");
  if (!read)
    return;
  const double step = 1.01 * image.find_max() / 2147483647.;
  double worst = 0;
  Image::const_full_iterator o = image.begin_all();
  DiscretisedDensity<3, float>::const_full_iterator r = read->begin_all();
  for (; o != image.end_all(); ++o, ++r)
    worst = std::max(worst, static_cast<double>(std::fabs(*o - *r)));
  // allow also for the float precision of the values themselves
  if (worst > 0.5 * step + 2.E-7 * image.find_max())
    {
      std::cerr << "   (max abs error " << worst << " = " << worst / step << " quantisation steps; float eps on the max value is "
              << 6.E-8 * image.find_max() << ")\n";
      observed("signed 32-bit integer output: error is many quantisation steps, because 'image scaling factor' is "
                 "written to the header with only 6 significant digits");
    }
}

// 6. an unknown radionuclide comes back as F-18 for PET
static void
probe_unknown_radionuclide()
{
  shared_ptr<ExamInfo> ei = exam_info_with_frame(ImagingModality::PT, 0., 10.);
  auto read = round_trip(make_image(ei, 1.F), NumericType::FLOAT, "probe_radionuclide");
  if (read && read->get_exam_info().get_radionuclide().get_name() != ei->get_radionuclide().get_name())
    {
      std::cerr << "   (wrote '" << ei->get_radionuclide().get_name() << "', read '"
              << read->get_exam_info().get_radionuclide().get_name() << "')\n";
      observed("an image without radionuclide information reads back as the default radionuclide of the modality");
    }
}

int
main()
{
  setenv("STIR_CONFIG_DIR", STIR_SRC_CONFIG_DIR, 0);
  probe_spect_dynamic();
  probe_patient_position();
  probe_energy_window();
  probe_frame_time_precision();
  probe_scale_factor_precision();
  probe_unknown_radionuclide();
  std::cerr << num_observations << " observation(s)\n";
  return num_observations;
}
