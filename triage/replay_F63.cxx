// F63: Metz filter (power 0 = Gaussian, and power > 0) on constant data when max_kernel_size shortens the kernel:
// the kernel was normalised in frequency space and then cut without rescaling, so the mean was not preserved
#include "stir/SeparableMetzArrayFilter.h"
#include "stir/Array.h"
#include "stir/IndexRange3D.h"
#include "stir/BasicCoordinate.h"
#include "stir/make_array.h"
#include <iostream>
#include <cmath>
#include <cstdio>
#include <unistd.h>
#include <fcntl.h>
using namespace stir;
static double
response_to_constant(const float fwhm, const float power, const float voxel_size, const int max_kernel_size)
{
  VectorWithOffset<float> fwhms(1, 3);
  fwhms.fill(0.F);
  fwhms[3] = fwhm;
  VectorWithOffset<float> powers(1, 3);
  powers.fill(0.F);
  powers[3] = power;
  VectorWithOffset<int> max_kernel_sizes(1, 3);
  max_kernel_sizes.fill(max_kernel_size);
  const BasicCoordinate<3, float> sampling = make_coordinate(voxel_size, voxel_size, voxel_size);
  Array<3, float> a(IndexRange3D(1, 1, 401));
  a.fill(1.F);
  // the constructor prints the kernel with printf
  fflush(stdout);
  const int saved = dup(1);
  const int devnull = open("/dev/null", O_WRONLY);
  dup2(devnull, 1);
  {
    SeparableMetzArrayFilter<3, float> filter(fwhms, powers, sampling, max_kernel_sizes);
    filter(a);
  }
  fflush(stdout);
  dup2(saved, 1);
  close(devnull);
  close(saved);
  return a[0][0][200];
}
int
main()
{
  int bad = 0;
  struct
  {
    float fwhm, power, voxel;
    int max_kernel;
  } cases[] = { { 6.F, 0.F, 2.F, -1 }, { 6.F, 0.F, 2.F, 9 },  { 6.F, 0.F, 2.F, 5 },  { 6.F, 0.F, 2.F, 3 },  { 12.F, 0.F, 2.F, 11 },
                { 20.F, 0.F, 2.F, 15 }, { 3.F, 0.F, 2.F, 3 }, { 6.F, 1.F, 2.F, -1 }, { 6.F, 1.F, 2.F, 7 }, { 6.F, 2.F, 2.F, 9 } };
  for (const auto& c : cases)
    {
      const double r = response_to_constant(c.fwhm, c.power, c.voxel, c.max_kernel);
      std::cout << "fwhm " << c.fwhm << " mm, power " << c.power << ", voxel " << c.voxel << " mm, max_kernel_size " << c.max_kernel
                << " : constant 1 becomes " << r << '\n';
      if (std::fabs(r - 1.) > 2.E-3)
        ++bad;
    }
  std::cout << (bad ? "DEVIATIONS " : "ok ") << bad << "\n";
  return bad;
}
