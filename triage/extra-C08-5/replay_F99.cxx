/*
  Probe of the UNMODIFIED code for seed C08-5 (prints observations, exit code = number of deviations).
  Original demo header follows.

  Property: one OSSPS sub-iteration on subset S maps lambda to
     clamp(lambda + zeta_n N grad_S Phi(lambda) / D, 0, upper_bound)
  so every iterate lies in [0, upper_bound], whatever the start image was.

  The program runs a real OSSPSReconstruction::reconstruct() on a tiny geometry, records the
  image after every sub-iteration, and replays every sub-iteration with an independent
  reference implementation of the formula above (using only the public interface of the
  objective function).

  exit code 0: property holds; non-zero: number of deviating checks.
*/
#include "stir/OSSPS/OSSPSReconstruction.h"
#include "stir/recon_buildblock/PoissonLogLikelihoodWithLinearModelForMeanAndProjData.h"
#include "stir/recon_buildblock/ProjMatrixByBinUsingRayTracing.h"
#include "stir/recon_buildblock/ProjectorByBinPairUsingProjMatrixByBin.h"
#include "stir/recon_buildblock/ForwardProjectorByBinUsingProjMatrixByBin.h"
#include "stir/ProjDataInMemory.h"
#include "stir/ProjDataInfo.h"
#include "stir/Scanner.h"
#include "stir/ExamInfo.h"
#include "stir/VoxelsOnCartesianGrid.h"
#include "stir/DiscretisedDensity.h"
#include "stir/thresholding.h"
#include "stir/SeparableConvolutionImageFilter.h"
#include "stir/DataProcessor.h"
#include "stir/VectorWithOffset.h"
#include "stir/Verbosity.h"
#include "stir/Succeeded.h"
#include "stir/NumericInfo.h"
#include <vector>
#include <iostream>
#include <cmath>
#include <algorithm>

using namespace stir;
typedef DiscretisedDensity<3, float> target_type;

// gives access to the (protected) parameters that are normally set by parsing, and records all iterates
class MyOSSPS : public OSSPSReconstruction<target_type>
{
public:
  void set_upper_bound(double u) { this->upper_bound = u; }
  void set_relaxation(float alpha, float gamma)
  {
    this->relaxation_parameter = alpha;
    this->relaxation_gamma = gamma;
  }
  std::vector<shared_ptr<target_type>> iterates;

protected:
  void end_of_iteration_processing(target_type& current_estimate) override
  {
    iterates.push_back(shared_ptr<target_type>(current_estimate.clone()));
    OSSPSReconstruction<target_type>::end_of_iteration_processing(current_estimate);
  }
};

static unsigned long rng_state = 12345;
static float
uniform01()
{
  rng_state = (rng_state * 1103515245UL + 12345UL) & 0x7fffffffUL;
  return static_cast<float>(rng_state) / static_cast<float>(0x7fffffffUL);
}

struct Setup
{
  shared_ptr<ProjDataInMemory> proj_data_sptr;
  shared_ptr<target_type> truth_sptr;
};

static Setup
make_data()
{
  Setup s;
  shared_ptr<Scanner> scanner_sptr(new Scanner(Scanner::E953));
  scanner_sptr->set_num_rings(2);
  shared_ptr<ProjDataInfo> proj_data_info_sptr(ProjDataInfo::ProjDataInfoCTI(scanner_sptr,
                                                                             /*span=*/1,
                                                                             /*max_delta=*/0,
                                                                             /*num_views=*/16,
                                                                             /*num_tang_poss=*/16));
  shared_ptr<ExamInfo> exam_info_sptr(new ExamInfo);
  exam_info_sptr->imaging_modality = ImagingModality::PT;
  s.proj_data_sptr.reset(new ProjDataInMemory(exam_info_sptr, proj_data_info_sptr));

  shared_ptr<VoxelsOnCartesianGrid<float>> vox_sptr(
      new VoxelsOnCartesianGrid<float>(exam_info_sptr, *proj_data_info_sptr, 1.F, CartesianCoordinate3D<float>(0, 0, 0)));
  for (auto iter = vox_sptr->begin_all(); iter != vox_sptr->end_all(); ++iter)
    *iter = 0.5F + uniform01();
  s.truth_sptr = vox_sptr;

  shared_ptr<ProjMatrixByBin> PM_sptr(new ProjMatrixByBinUsingRayTracing);
  shared_ptr<ForwardProjectorByBin> fwd_proj_sptr = MAKE_SHARED<ForwardProjectorByBinUsingProjMatrixByBin>(PM_sptr);
  fwd_proj_sptr->set_up(proj_data_info_sptr, s.truth_sptr);
  fwd_proj_sptr->set_input(*s.truth_sptr);
  fwd_proj_sptr->forward_project(*s.proj_data_sptr);
  return s;
}


static MyOSSPS*
make_recon(const Setup& setup,
           shared_ptr<PoissonLogLikelihoodWithLinearModelForMeanAndProjData<target_type>>& obj_sptr,
           const int num_subsets,
           const int num_subiterations,
           const double upper_bound)
{
  obj_sptr.reset(new PoissonLogLikelihoodWithLinearModelForMeanAndProjData<target_type>);
  obj_sptr->set_proj_data_sptr(setup.proj_data_sptr);
  shared_ptr<ProjMatrixByBin> PM_sptr(new ProjMatrixByBinUsingRayTracing);
  shared_ptr<ProjectorByBinPair> pp_sptr(new ProjectorByBinPairUsingProjMatrixByBin(PM_sptr));
  obj_sptr->set_projector_pair_sptr(pp_sptr);
  MyOSSPS* recon = new MyOSSPS;
  recon->set_objective_function_sptr(obj_sptr);
  recon->set_num_subsets(num_subsets);
  recon->set_num_subiterations(num_subiterations);
  recon->set_upper_bound(upper_bound);
  recon->set_relaxation(1.F, .1F);
  recon->set_input_data(setup.proj_data_sptr);
  recon->set_disable_output(true);
  recon->set_output_filename_prefix("probe_ossps");
  return recon;
}

int
main()
{
  Verbosity::set(0);
  const Setup setup = make_data();
  int deviations = 0;

  // P1: voxels that no LOR sees (zero sensitivity): gradient is 0 there, so the property predicts that the
  // sub-iteration leaves them at clamp(lambda). The first sub-iteration sets them to 0 instead.
  {
    shared_ptr<PoissonLogLikelihoodWithLinearModelForMeanAndProjData<target_type>> obj_sptr;
    unique_ptr<MyOSSPS> recon(make_recon(setup, obj_sptr, 4, 1, 10.));
    shared_ptr<target_type> start_sptr(setup.truth_sptr->get_empty_copy());
    start_sptr->fill(1.F);
    shared_ptr<target_type> image_sptr(start_sptr->clone());
    if (recon->set_up(image_sptr) == Succeeded::no || recon->reconstruct(image_sptr) == Succeeded::no)
      return 100;
    // find voxels with zero gradient and where fill_nonidentifiable would act
    shared_ptr<target_type> marker_sptr(start_sptr->clone());
    obj_sptr->fill_nonidentifiable_target_parameters(*marker_sptr, -7.F);
    shared_ptr<target_type> grad_sptr(start_sptr->get_empty_copy());
    obj_sptr->compute_sub_gradient(*grad_sptr, *start_sptr, 0);
    int num_nonident = 0, num_zeroed_with_zero_gradient = 0;
    auto m = marker_sptr->begin_all_const();
    auto g = grad_sptr->begin_all_const();
    for (auto a = image_sptr->begin_all_const(); a != image_sptr->end_all_const(); ++a, ++m, ++g)
      if (*m == -7.F)
        {
          ++num_nonident;
          if (*g == 0.F && *a != 1.F)
            ++num_zeroed_with_zero_gradient;
        }
    std::cout << "P1: " << num_nonident << " non-identifiable voxels (zero sensitivity); " << num_zeroed_with_zero_gradient
              << " of them have sub-gradient 0, start value 1 (within [0,10]) but are 0 after the first sub-iteration\n";
    if (num_zeroed_with_zero_gradient > 0)
      {
        std::cout << "    -> DEVIATION: first sub-iteration is not clamp(lambda + update) for these voxels\n";
        ++deviations;
      }
  }

  // P2: a negative upper bound is accepted by set_up() and gives negative iterates
  {
    shared_ptr<PoissonLogLikelihoodWithLinearModelForMeanAndProjData<target_type>> obj_sptr;
    unique_ptr<MyOSSPS> recon(make_recon(setup, obj_sptr, 4, 2, -1.));
    shared_ptr<target_type> image_sptr(setup.truth_sptr->get_empty_copy());
    image_sptr->fill(1.F);
    const Succeeded s = recon->set_up(image_sptr);
    std::cout << "P2: set_up with upper bound -1 returned " << (s == Succeeded::yes ? "yes" : "no") << "\n";
    if (s == Succeeded::yes && recon->reconstruct(image_sptr) == Succeeded::yes)
      {
        const float amin = *std::min_element(image_sptr->begin_all(), image_sptr->end_all());
        const float amax = *std::max_element(image_sptr->begin_all(), image_sptr->end_all());
        std::cout << "    iterate min " << amin << " max " << amax << "\n";
        if (amin < 0)
          {
            std::cout << "    -> DEVIATION: negative iterate (upper bound < 0 is not rejected)\n";
            ++deviations;
          }
      }
  }

  // P3: NaN in the start image survives the clamp (comparisons with NaN are false)
  {
    shared_ptr<PoissonLogLikelihoodWithLinearModelForMeanAndProjData<target_type>> obj_sptr;
    unique_ptr<MyOSSPS> recon(make_recon(setup, obj_sptr, 4, 4, 10.));
    shared_ptr<target_type> image_sptr(setup.truth_sptr->get_empty_copy());
    image_sptr->fill(1.F);
    auto iter = image_sptr->begin_all();
    for (std::size_t i = 0; i < image_sptr->size_all() / 2; ++i)
      ++iter;
    *iter = std::nanf("");
    if (recon->set_up(image_sptr) == Succeeded::yes && recon->reconstruct(image_sptr) == Succeeded::yes)
      {
        int num_nan = 0;
        for (auto a = image_sptr->begin_all_const(); a != image_sptr->end_all_const(); ++a)
          if (!(*a >= 0.F && *a <= 10.F))
            ++num_nan;
        std::cout << "P3: one NaN in the start image: " << num_nan << " voxels outside [0,10] (NaN) after 4 sub-iterations\n";
        if (num_nan > 0)
          {
            std::cout << "    -> DEVIATION: iterate not within [0, upper bound]\n";
            ++deviations;
          }
      }
  }

  // P4: the inter-iteration filter is applied after the clamp, so the iterate that is saved and passed to the next
  // sub-iteration can be outside [0, upper bound]
  {
    shared_ptr<PoissonLogLikelihoodWithLinearModelForMeanAndProjData<target_type>> obj_sptr;
    unique_ptr<MyOSSPS> recon(make_recon(setup, obj_sptr, 4, 3, 1.2));
    VectorWithOffset<float> identity(-1, 1), sharpen(-1, 1);
    identity[-1] = 0.F;
    identity[0] = 1.F;
    identity[1] = 0.F;
    sharpen[-1] = -.25F;
    sharpen[0] = 1.5F;
    sharpen[1] = -.25F;
    VectorWithOffset<VectorWithOffset<float>> coefficients(1, 3);
    coefficients[1] = identity;
    coefficients[2] = sharpen;
    coefficients[3] = sharpen;
    shared_ptr<DataProcessor<target_type>> filter_sptr(new SeparableConvolutionImageFilter<float>(coefficients));
    recon->set_inter_iteration_filter_ptr(filter_sptr);
    recon->set_inter_iteration_filter_interval(1);
    shared_ptr<target_type> image_sptr(setup.truth_sptr->get_empty_copy());
    image_sptr->fill(1.F);
    if (recon->set_up(image_sptr) == Succeeded::yes && recon->reconstruct(image_sptr) == Succeeded::yes)
      {
        const float amin = *std::min_element(image_sptr->begin_all(), image_sptr->end_all());
        const float amax = *std::max_element(image_sptr->begin_all(), image_sptr->end_all());
        std::cout << "P4: upper bound 1.2, sharpening inter-iteration filter at every sub-iteration: final iterate min " << amin
                  << " max " << amax << "\n";
        if (amin < 0 || amax > 1.2F)
          {
            std::cout << "    -> DEVIATION: iterate not within [0, upper bound]\n";
            ++deviations;
          }
      }
    else
      std::cout << "P4: set_up or reconstruct failed\n";
  }

  std::cout << "\nNumber of deviations observed: " << deviations << "\n";
  return deviations;
}
