// Triage aid (NOT a registered check): replay of candidate finding F4 (DESIGN.md section 1).
#include "stir/recon_buildblock/PoissonLogLikelihoodWithLinearModelForMeanAndProjData.h"
#include "stir/recon_buildblock/ProjMatrixByBinUsingRayTracing.h"
#include "stir/recon_buildblock/ProjectorByBinPairUsingProjMatrixByBin.h"
#include "stir/ProjDataInMemory.h"
#include "stir/ProjDataInfo.h"
#include "stir/VoxelsOnCartesianGrid.h"
#include "stir/Scanner.h"
#include "stir/ExamInfo.h"
#include <cstring>
#include <iostream>
#include <new>
using namespace stir;
typedef DiscretisedDensity<3, float> target_type;
typedef PoissonLogLikelihoodWithLinearModelForMeanAndProjData<target_type> obj_type;

static double run(unsigned char fill, bool gradient_first)
{
  shared_ptr<Scanner> scanner_sptr(new Scanner(Scanner::E953));
  scanner_sptr->set_num_rings(5);
  shared_ptr<ProjDataInfo> pdi(ProjDataInfo::ProjDataInfoCTI(scanner_sptr, 3, 4, 16, 16));
  shared_ptr<ExamInfo> ei(new ExamInfo(ImagingModality::PT));
  shared_ptr<ProjData> pd(new ProjDataInMemory(ei, pdi));
  pd->fill(1.F);
  shared_ptr<target_type> image(new VoxelsOnCartesianGrid<float>(ei, *pdi, 1.F, CartesianCoordinate3D<float>(0, 0, 0)));
  image->fill(1.F);

  // object constructed in storage pre-filled with `fill`, so that never-initialised members have a known byte value
  void* mem = ::operator new(sizeof(obj_type));
  std::memset(mem, fill, sizeof(obj_type));
  obj_type* obj = new (mem) obj_type;
  shared_ptr<ProjMatrixByBin> pm(new ProjMatrixByBinUsingRayTracing());
  shared_ptr<ProjectorByBinPair> pp(new ProjectorByBinPairUsingProjMatrixByBin(pm));
  obj->set_proj_data_sptr(pd);
  obj->set_projector_pair_sptr(pp);
  obj->set_num_subsets(1);
  obj->set_use_subset_sensitivities(false);
  obj->set_recompute_sensitivity(false);
  obj->set_sensitivity_filename("1"); // sensitivity forced to 1: set_up computes no sensitivity
  if (obj->set_up(image) != Succeeded::yes)
    { std::cout << "set_up failed\n"; return -1; }
  if (gradient_first)
    {
      shared_ptr<target_type> g(image->get_empty_copy());
      obj->compute_sub_gradient_without_penalty(*g, *image, 0);
    }
  return obj->compute_objective_function_without_penalty(*image);
}

int main()
{
  for (int gradient_first = 0; gradient_first <= 1; ++gradient_first)
    for (unsigned char fill : { (unsigned char)0x00, (unsigned char)0x01 })
      {
        try
          {
            const double v = run(fill, gradient_first != 0);
            std::cout << "F4: storage byte " << int(fill) << ", " << (gradient_first ? "gradient then value" : "value first")
                      << ": value = " << v << "\n";
          }
        catch (std::exception& e)
          {
            std::cout << "F4: storage byte " << int(fill) << ", " << (gradient_first ? "gradient then value" : "value first")
                      << ": EXCEPTION " << std::string(e.what()).substr(0, 120) << "\n";
          }
        catch (...)
          {
            std::cout << "F4: storage byte " << int(fill) << ", " << (gradient_first ? "gradient then value" : "value first")
                      << ": EXCEPTION (non-std)\n";
          }
      }
  return 0;
}
