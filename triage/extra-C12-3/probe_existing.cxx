/*
  Probe of the UNMODIFIED library for existing deviations from the property
  "bin coordinates agree with the line through the detectors, and are antisymmetric/monotone".

  Prints what it observes; exit code = number of kinds of deviation seen.
*/
#include "stir/ProjDataInfo.h"
#include "stir/ProjDataInfoCylindricalNoArcCorr.h"
#include "stir/ProjDataInfoBlocksOnCylindricalNoArcCorr.h"
#include "stir/Scanner.h"
#include "stir/Bin.h"
#include "stir/DetectionPositionPair.h"
#include "stir/Verbosity.h"
#include "stir/shared_ptr.h"
#include <vector>
#include <cmath>
#include <iostream>
#include <algorithm>

using namespace stir;

static double
wrap_pi(double a) // to (-pi,pi]
{
  while (a > _PI)
    a -= 2 * _PI;
  while (a <= -_PI)
    a += 2 * _PI;
  return a;
}

struct LineCoords
{
  double s, m, tantheta, phi;
};

static void
det_position(double& x, double& y, double& z, const Scanner& scanner, const int det, const int ring)
{
  const double R = scanner.get_effective_ring_radius();
  const double psi = 2 * _PI * det / scanner.get_num_detectors_per_ring() + scanner.get_intrinsic_azimuthal_tilt();
  x = R * std::sin(psi);
  y = -R * std::cos(psi);
  z = (ring - (scanner.get_num_rings() - 1) / 2.) * scanner.get_ring_spacing();
}

//  X = s cos(phi) + a sin(phi),  Y = s sin(phi) - a cos(phi),  Z = m - a tan(theta), p1 at positive a
static LineCoords
line_through(const double x1, const double y1, const double z1, const double x2, const double y2, const double z2)
{
  LineCoords l;
  const double dx = x1 - x2, dy = y1 - y2;
  const double len = std::sqrt(dx * dx + dy * dy);
  l.phi = std::atan2(dx / len, -dy / len);
  l.s = x1 * std::cos(l.phi) + y1 * std::sin(l.phi);
  l.tantheta = (z2 - z1) / len;
  // m is the axial coordinate at a=0 (the point of the line closest to the scanner axis); this is the
  // midpoint of the two detectors whenever they are at the same distance from the axis
  const double a1 = x1 * std::sin(l.phi) - y1 * std::cos(l.phi);
  l.m = z1 + a1 * l.tantheta;
  return l;
}

// average line coordinates over all detector pairs of a bin of cylindrical data
static bool
average_over_pairs(LineCoords& av, double& av_ring_diff, const ProjDataInfoCylindricalNoArcCorr& pdi, const Bin& bin)
{
  std::vector<DetectionPositionPair<>> dps;
  pdi.get_all_det_pos_pairs_for_bin(dps, bin);
  if (dps.empty())
    return false;
  const Scanner& scanner = *pdi.get_scanner_ptr();
  av.s = av.m = av.tantheta = av.phi = 0;
  av_ring_diff = 0;
  const double bin_phi = pdi.get_phi(bin);
  for (auto& dp : dps)
    {
      double x1, y1, z1, x2, y2, z2;
      det_position(x1, y1, z1, scanner, dp.pos1().tangential_coord(), dp.pos1().axial_coord());
      det_position(x2, y2, z2, scanner, dp.pos2().tangential_coord(), dp.pos2().axial_coord());
      const LineCoords l = line_through(x1, y1, z1, x2, y2, z2);
      av.phi += wrap_pi(l.phi - bin_phi); // difference with the bin's phi
      av.s += l.s;
      av.m += l.m;
      av.tantheta += l.tantheta;
      av_ring_diff += int(dp.pos2().axial_coord()) - int(dp.pos1().axial_coord());
    }
  const double n = static_cast<double>(dps.size());
  av.phi /= n;
  av.s /= n;
  av.m /= n;
  av.tantheta /= n;
  av_ring_diff /= n;
  return true;
}

/* 1. view mashing obtained with set_num_views() (as opposed to constructing with fewer views, or SSRB):
      the azimuthal angle offset is not adjusted */
static int
probe_set_num_views()
{
  shared_ptr<Scanner> scanner_sptr(new Scanner(Scanner::E953));
  const int N = scanner_sptr->get_num_detectors_per_ring();
  shared_ptr<ProjDataInfo> pdi_sptr(ProjDataInfo::construct_proj_data_info(scanner_sptr, 1, 3, N / 2, 159, false));
  shared_ptr<ProjDataInfo> mashed_sptr(pdi_sptr->clone());
  mashed_sptr->set_num_views(N / 2 / 4);
  shared_ptr<ProjDataInfo> constructed_sptr(ProjDataInfo::construct_proj_data_info(scanner_sptr, 1, 3, N / 2 / 4, 159, false));
  const auto& mashed = dynamic_cast<const ProjDataInfoCylindricalNoArcCorr&>(*mashed_sptr);
  const auto& constructed = dynamic_cast<const ProjDataInfoCylindricalNoArcCorr&>(*constructed_sptr);
  double max_dev_mashed = 0, max_dev_constructed = 0;
  for (int view = 0; view < mashed.get_num_views(); ++view)
    for (int tp = -40; tp <= 40; tp += 2)
      {
        LineCoords av;
        double rd;
        const Bin bin(0, view, 3, tp);
        average_over_pairs(av, rd, mashed, bin);
        max_dev_mashed = std::max(max_dev_mashed, std::fabs(av.phi));
        average_over_pairs(av, rd, constructed, bin);
        max_dev_constructed = std::max(max_dev_constructed, std::fabs(av.phi));
      }
  std::cout << "[1] ECAT 953, view mashing 4, even tangential positions: max |phi(bin) - mean phi(detector pairs)|\n"
            << "      constructed with num_views/4          : " << max_dev_constructed << " rad\n"
            << "      clone of unmashed + set_num_views(n/4): " << max_dev_mashed << " rad  (1.5 unmashed view steps = "
            << 1.5 * _PI / (N / 2) << ")\n"
            << "      operator== between the two says: " << (mashed == constructed ? "equal" : "different") << "\n";
  return max_dev_mashed > 1e-4 ? 1 : 0;
}

/* 2. even span: get_tantheta uses the mid-point of the segment's ring differences, but every bin
      contains ring pairs of only one parity, so no bin of segment!=0 has that obliqueness
   3. odd span, axial edge: ring pairs that fall off the scanner are dropped, obliqueness is not adjusted */
static int
probe_span(const int span, const char* const label)
{
  shared_ptr<Scanner> scanner_sptr(new Scanner(Scanner::E953));
  const int N = scanner_sptr->get_num_detectors_per_ring();
  shared_ptr<ProjDataInfo> pdi_sptr(
      ProjDataInfo::construct_proj_data_info(scanner_sptr, span, scanner_sptr->get_num_rings() - 1, N / 2, 159, false));
  const auto& pdi = dynamic_cast<const ProjDataInfoCylindricalNoArcCorr&>(*pdi_sptr);
  int num_bins = 0, num_dev = 0, num_dev_edge = 0;
  double max_dev = 0, max_dm = 0;
  Bin worst;
  for (int seg = pdi.get_min_segment_num(); seg <= pdi.get_max_segment_num(); ++seg)
    for (int ax = pdi.get_min_axial_pos_num(seg); ax <= pdi.get_max_axial_pos_num(seg); ++ax)
      {
        const Bin bin(seg, 5, ax, 10);
        LineCoords av;
        double rd;
        if (!average_over_pairs(av, rd, pdi, bin))
          continue;
        ++num_bins;
        const double dev = std::fabs(av.tantheta - pdi.get_tantheta(bin));
        max_dm = std::max(max_dm, std::fabs(av.m - pdi.get_m(bin)));
        if (dev > 1e-4)
          {
            ++num_dev;
            const unsigned full = (pdi.get_max_ring_difference(seg) - pdi.get_min_ring_difference(seg)) / 2 + 1;
            if (pdi.get_num_ring_pairs_for_segment_axial_pos_num(seg, ax) < full - 1 || ax < pdi.get_min_axial_pos_num(seg) + span
                || ax > pdi.get_max_axial_pos_num(seg) - span)
              ++num_dev_edge;
            if (dev > max_dev)
              {
                max_dev = dev;
                worst = bin;
              }
          }
      }
  std::cout << label << " ECAT 953 span " << span << ": " << num_dev << " of " << num_bins
            << " (segment,axial_pos) combinations have get_tantheta != mean obliqueness of their ring pairs (" << num_dev_edge
            << " of those within `span` positions of the axial edge); max deviation " << max_dev;
  if (num_dev)
    {
      LineCoords av;
      double rd;
      average_over_pairs(av, rd, pdi, worst);
      std::cout << " at segment " << worst.segment_num() << " axial_pos " << worst.axial_pos_num() << " (mean ring diff of pairs " << rd
                << ", get_average_ring_difference " << pdi.get_average_ring_difference(worst.segment_num()) << ")";
    }
  std::cout << "; max |m - mean m| " << max_dm << " mm\n";
  return num_dev > 0 ? 1 : 0;
}

/* 4./5. BlocksOnCylindrical: coordinates are derived from the LOR through the two crystals */
static int
probe_blocks()
{
  shared_ptr<Scanner> scanner_sptr(new Scanner(Scanner::SAFIRDualRingPrototype));
  const Scanner& scanner = *scanner_sptr;
  const int N = scanner.get_num_detectors_per_ring();
  shared_ptr<ProjDataInfo> pdi_sptr(ProjDataInfo::construct_proj_data_info(
      scanner_sptr, 1, scanner.get_num_rings() - 1, N / 2, scanner.get_max_num_non_arccorrected_bins(), false));
  const auto& pdi = dynamic_cast<const ProjDataInfoBlocksOnCylindricalNoArcCorr&>(*pdi_sptr);

  int num_bins = 0, num_flipped = 0, num_flipped_view0_odd = 0, num_flipped_view0_even = 0, num_tan_dev = 0, num_nonmonotone = 0, num_wrong_sign_tan = 0;
  double max_tan_rel_dev = 0, max_ds = 0, max_dm = 0, max_dphi = 0;
  Bin worst_tan;
  double worst_tan_expected = 0;
  for (int seg = pdi.get_min_segment_num(); seg <= pdi.get_max_segment_num(); seg += 5)
    for (int view = 0; view < pdi.get_num_views(); ++view)
      {
        const int ax = pdi.get_num_axial_poss(seg) / 2;
        double prev_s = -1e30;
        for (int tp = pdi.get_min_tangential_pos_num(); tp <= pdi.get_max_tangential_pos_num(); ++tp)
          {
            const Bin bin(seg, view, ax, tp);
            DetectionPositionPair<> dp;
            pdi.get_det_pos_pair_for_bin(dp, bin);
            const CartesianCoordinate3D<float> p1 = scanner.get_coordinate_for_det_pos(dp.pos1());
            const CartesianCoordinate3D<float> p2 = scanner.get_coordinate_for_det_pos(dp.pos2());
            LineCoords l = line_through(p1.x(), p1.y(), p1.z(), p2.x(), p2.y(), p2.z());
            ++num_bins;
            const double s = pdi.get_s(bin), phi = pdi.get_phi(bin), tantheta = pdi.get_tantheta(bin), m = pdi.get_m(bin);
            // orientation: does the bin describe the line from det1 to det2 or the reverse?
            double dphi = wrap_pi(l.phi - phi);
            if (std::fabs(dphi) > _PI / 2)
              {
                ++num_flipped;
                if (view == 0 && tp % 2 != 0)
                  ++num_flipped_view0_odd;
                if (view == 0 && tp % 2 == 0)
                  ++num_flipped_view0_even;
                l.s = -l.s;
                l.tantheta = -l.tantheta;
                dphi = wrap_pi(dphi + _PI);
              }
            max_dphi = std::max(max_dphi, std::fabs(dphi));
            max_ds = std::max(max_ds, std::fabs(l.s - s));
            max_dm = std::max(max_dm, std::fabs(l.m - m));
            if (std::fabs(l.tantheta - tantheta) > 1e-4)
              {
                ++num_tan_dev;
                const double rel = std::fabs(l.tantheta - tantheta) / std::fabs(l.tantheta);
                if (rel > max_tan_rel_dev)
                  {
                    max_tan_rel_dev = rel;
                    worst_tan = bin;
                    worst_tan_expected = l.tantheta;
                  }
              }
            if (s <= prev_s)
              ++num_nonmonotone;
            prev_s = s;
            if (seg != 0 && tantheta * seg < 0)
              ++num_wrong_sign_tan;
          }
      }
  std::cout << "[4] SAFIRDualRingPrototype (BlocksOnCylindrical), " << num_bins << " bins: s, m, phi agree with the crystal-to-crystal "
            << "line up to orientation (max ds " << max_ds << " mm, dm " << max_dm << " mm, dphi " << max_dphi << " rad), BUT\n"
            << "      " << num_flipped << " bins describe the line in the reverse orientation (phi off by pi, s and tan(theta) negated); "
            << num_flipped_view0_odd << " of them are (view 0, odd tangential_pos), " << num_flipped_view0_even
            << " are (view 0, even tangential_pos)\n"
            << "      => " << num_nonmonotone << " places where get_s does not increase with tangential_pos_num, " << num_wrong_sign_tan
            << " bins where get_tantheta has the opposite sign to the segment number\n";
  if (num_flipped)
    {
      std::cout << "      e.g. segment 5 view 0: ";
      for (int tp = -3; tp <= 3; ++tp)
        {
          const Bin bin(5, 0, 3, tp);
          std::cout << " tp " << tp << ": s=" << pdi.get_s(bin) << " phi=" << pdi.get_phi(bin) << " tantheta=" << pdi.get_tantheta(bin)
                    << ";";
        }
      std::cout << "\n";
    }
  std::cout << "[5] same data: get_tantheta differs from (z2-z1)/(transaxial distance between the crystals) in " << num_tan_dev
            << " bins, max relative deviation " << max_tan_rel_dev;
  if (num_tan_dev)
    std::cout << " at segment " << worst_tan.segment_num() << " view " << worst_tan.view_num() << " tangential_pos "
              << worst_tan.tangential_pos_num() << " (get_tantheta " << pdi.get_tantheta(worst_tan) << ", from crystals "
              << worst_tan_expected << ", get_s " << pdi.get_s(worst_tan) << " mm, effective radius "
              << scanner.get_effective_ring_radius() << ")";
  std::cout << "\n";
  return (num_flipped > 0 ? 1 : 0) + (num_tan_dev > 0 ? 1 : 0);
}

int
main()
{
  Verbosity::set(0);
  int num = 0;
  num += probe_set_num_views();
  num += probe_span(2, "[2]");
  num += probe_span(4, "[2]");
  num += probe_span(3, "[3]");
  num += probe_span(7, "[3]");
  num += probe_blocks();
  std::cout << "number of kinds of deviation seen: " << num << std::endl;
  return num;
}
