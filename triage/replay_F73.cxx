// F73: BlocksOnCylindrical: num_related_bins(b) returned an uninitialised number (z-shift symmetry off, or ring difference of the
// other sign); the list-mode balanced-subsets report adds these numbers up.
// num_related_bins(b) against the number of bins get_related_bins(b) returns, for every basic bin
#include "stir/Scanner.h"
#include "stir/ProjDataInfoBlocksOnCylindricalNoArcCorr.h"
#include "stir/VoxelsOnCartesianGrid.h"
#include "stir/recon_buildblock/DataSymmetriesForBins_PET_CartesianGrid.h"
#include "stir/Bin.h"
#include <iostream>
#include <vector>
#include <cstdlib>
using namespace stir;
int main()
{
  int bad = 0;
  for (int shift_z = 0; shift_z <= 1; ++shift_z)
  for (int max_seg = 1; max_seg <= 4; max_seg += 3)
  {
  shared_ptr<Scanner> scanner(new Scanner(Scanner::SAFIRDualRingPrototype));
  scanner->set_num_axial_crystals_per_block(2);
  scanner->set_num_axial_blocks_per_bucket(3);
  scanner->set_num_rings(6);
  scanner->set_axial_block_spacing(scanner->get_axial_crystal_spacing() * 2);
  scanner->set_scanner_geometry("BlocksOnCylindrical");
  scanner->set_up();
  VectorWithOffset<int> num_axial_pos_per_segment(-max_seg, max_seg), min_ring_diff(-max_seg, max_seg), max_ring_diff(-max_seg, max_seg);
  for (int i = -max_seg; i <= max_seg; ++i)
    {
      min_ring_diff[i] = max_ring_diff[i] = i;
      num_axial_pos_per_segment[i] = scanner->get_num_rings() - std::abs(i);
    }
  shared_ptr<const ProjDataInfo> pdi(new ProjDataInfoBlocksOnCylindricalNoArcCorr(scanner, num_axial_pos_per_segment, min_ring_diff, max_ring_diff, scanner->get_max_num_views(), 31));
  shared_ptr<const DiscretisedDensity<3, float>> image(new VoxelsOnCartesianGrid<float>(*pdi, 1.F, CartesianCoordinate3D<float>(0.F, 0.F, 0.F), CartesianCoordinate3D<int>(-1, 41, 41)));
  DataSymmetriesForBins_PET_CartesianGrid sym(pdi, image, false, false, false, false, shift_z != 0);
  int basic = 0, differ = 0; Bin first; int fn = 0, fr = 0;
  long total_related = 0, total_bins = 0;
  for (int seg = -max_seg; seg <= max_seg; ++seg)
    for (int ax = pdi->get_min_axial_pos_num(seg); ax <= pdi->get_max_axial_pos_num(seg); ++ax)
      for (int view = 0; view < pdi->get_num_views(); view += 7)
        for (int tang = pdi->get_min_tangential_pos_num(); tang <= pdi->get_max_tangential_pos_num(); tang += 5)
          {
            const Bin b(seg, view, ax, tang);
            ++total_bins;
            if (!sym.is_basic(b))
              continue;
            ++basic;
            std::vector<Bin> rel;
            sym.get_related_bins(rel, b);
            total_related += rel.size();
            const int n = sym.num_related_bins(b);
            if (n != int(rel.size()))
              {
                if (!differ) { first = b; fn = n; fr = rel.size(); }
                ++differ;
              }
          }
  std::cout << "shift_z " << shift_z << ", segments -" << max_seg << ".." << max_seg << ": " << basic << " basic bins of " << total_bins << " sampled, related bins in total " << total_related
            << "; num_related_bins differs from the size of get_related_bins for " << differ;
  if (differ) std::cout << " (first: segment " << first.segment_num() << " axial " << first.axial_pos_num() << ": " << fn << " vs " << fr << ")";
  std::cout << "\n";
  bad += differ;
  }
  return bad != 0;
}
