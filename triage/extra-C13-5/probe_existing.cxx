/*
  Probes of the UNMODIFIED library for the bin-normalisation property (seed C13-5).
  Prints what it observes; exit code = number of deviations seen.
*/
#include "stir/recon_buildblock/BinNormalisationPETFromComponents.h"
#include "stir/recon_buildblock/BinNormalisationFromProjData.h"
#include "stir/recon_buildblock/BinNormalisationFromAttenuationImage.h"
#include "stir/recon_buildblock/ChainedBinNormalisation.h"
#include "stir/recon_buildblock/TrivialBinNormalisation.h"
#include "stir/recon_buildblock/ForwardProjectorByBinUsingRayTracing.h"
#include "stir/recon_buildblock/DataSymmetriesForBins_PET_CartesianGrid.h"
#include "stir/recon_buildblock/TrivialDataSymmetriesForBins.h"
#include "stir/ProjDataInMemory.h"
#include "stir/ProjDataInfoCylindricalNoArcCorr.h"
#include "stir/VoxelsOnCartesianGrid.h"
#include "stir/RelatedViewgrams.h"
#include "stir/ExamInfo.h"
#include "stir/Scanner.h"
#include "stir/Bin.h"
#include "stir/Succeeded.h"
#include <iostream>
#include <random>
#include <cmath>
#include <algorithm>
#include <sys/wait.h>
#include <unistd.h>

using namespace stir;

static int deviations = 0;
static std::mt19937 rng(4242);

static void
deviation(const std::string& what)
{
  ++deviations;
  std::cout << "  DEVIATION: " << what << std::endl;
}

static void
fill_random(ProjDataInMemory& p, const float lo, const float hi)
{
  std::uniform_real_distribution<float> d(lo, hi);
  for (auto iter = p.begin(); iter != p.end(); ++iter)
    *iter = d(rng);
}

static double
max_rel_diff(const ProjDataInMemory& a, const ProjDataInMemory& b)
{
  double m = 0;
  auto ib = b.begin();
  for (auto ia = a.begin(); ia != a.end(); ++ia, ++ib)
    m = std::max(m, std::fabs(double(*ia) - *ib) / std::max(1.E-30, std::fabs(double(*ib))));
  return m;
}

/* run f in a child process; returns -1 if it died from a signal, otherwise its exit status */
template <class F>
static int
run_in_child(F f)
{
  std::cout.flush();
  const pid_t pid = fork();
  if (pid == 0)
    {
      int r = 0;
      try
        {
          r = f();
        }
      catch (std::exception& e)
        {
          std::cout << "  (child: exception: " << e.what() << ")" << std::endl;
          r = 50;
        }
      std::cout.flush();
      _exit(r);
    }
  int status = 0;
  waitpid(pid, &status, 0);
  if (WIFSIGNALED(status))
    {
      std::cout << "  (child died from signal " << WTERMSIG(status) << ")" << std::endl;
      return -1;
    }
  return WEXITSTATUS(status);
}

static shared_ptr<VoxelsOnCartesianGrid<float>>
make_cylinder(const shared_ptr<const ExamInfo>& exam_info_sptr, const ProjDataInfo& pdi, const float radius_mm, const float mu)
{
  shared_ptr<VoxelsOnCartesianGrid<float>> image_sptr(new VoxelsOnCartesianGrid<float>(exam_info_sptr, pdi, /*zoom=*/.9F));
  auto& image = *image_sptr;
  const auto vs = image.get_voxel_size();
  for (int z = image.get_min_index(); z <= image.get_max_index(); ++z)
    for (int y = image[z].get_min_index(); y <= image[z].get_max_index(); ++y)
      for (int x = image[z][y].get_min_index(); x <= image[z][y].get_max_index(); ++x)
        {
          const float xx = x * vs.x(), yy = y * vs.y();
          image[z][y][x] = (xx * xx + yy * yy <= radius_mm * radius_mm) ? mu : 0.F;
        }
  return image_sptr;
}

int
main()
{
  shared_ptr<Scanner> scanner_sptr(new Scanner(Scanner::E962));
  shared_ptr<ExamInfo> exam_info_sptr(new ExamInfo(ImagingModality::PT));
  shared_ptr<const ProjDataInfo> pdi_sptr(ProjDataInfo::construct_proj_data_info(
      scanner_sptr, 1, 1, scanner_sptr->get_num_detectors_per_ring() / 2, 63, /*arc_corrected=*/false));

  // ------------------------------------------------------------------------------------------
  std::cout << "A. chain of 1 member: ChainedBinNormalisation(norm, null) and (null, norm)" << std::endl;
  {
    auto f1 = [&]() {
      shared_ptr<BinNormalisation> t(new TrivialBinNormalisation);
      shared_ptr<BinNormalisation> none;
      ChainedBinNormalisation chain(t, none);
      return chain.set_up(exam_info_sptr, pdi_sptr) == Succeeded::yes ? 0 : 1;
    };
    const int r1 = run_in_child(f1);
    std::cout << "  (norm, null): child result " << r1 << std::endl;
    auto f2 = [&]() {
      shared_ptr<BinNormalisation> t(new TrivialBinNormalisation);
      shared_ptr<BinNormalisation> none;
      ChainedBinNormalisation chain(none, t);
      return chain.set_up(exam_info_sptr, pdi_sptr) == Succeeded::yes ? 0 : 1;
    };
    const int r2 = run_in_child(f2);
    std::cout << "  (null, norm): child result " << r2 << std::endl;
    if (r1 != 0 || r2 != 0)
      deviation("the rest of ChainedBinNormalisation copes with a missing member (is_null_ptr tests everywhere), but the "
                "constructor (post_processing) dereferences both members without a test; (norm, null) only survives because "
                "of the short-circuit of && when the first member has no calibration factor");
  }

  // ------------------------------------------------------------------------------------------
  std::cout << "B. attenuation correction factors of a uniform cylinder against exp(mu*chord)" << std::endl;
  const float radius = 50.F, mu = 0.096F;
  shared_ptr<DataSymmetriesForViewSegmentNumbers> proj_symmetries_sptr;
  auto cyl_sptr = make_cylinder(exam_info_sptr, *pdi_sptr, radius, mu);
  {
    shared_ptr<ForwardProjectorByBin> proj_sptr(new ForwardProjectorByBinUsingRayTracing());
    BinNormalisationFromAttenuationImage att(cyl_sptr, proj_sptr);
    att.set_up(exam_info_sptr, pdi_sptr);
    ProjDataInMemory data(exam_info_sptr, pdi_sptr);
    data.fill(1.F);
    {
      bool threw = false;
      try
        {
          att.apply(data); // whole data set, default (trivial) symmetries
        }
      catch (std::exception&)
        {
          threw = true;
        }
      std::cout << "  apply(ProjData&) with the default symmetries " << (threw ? "calls error()" : "works") << std::endl;
      if (threw)
        deviation("BinNormalisationFromAttenuationImage can only be used with related viewgrams made with the symmetries of "
                  "its forward projector; apply(proj_data) with the default argument (trivial symmetries) ends in error()");
      data.fill(1.F);
    }
    proj_symmetries_sptr.reset(proj_sptr->get_symmetries_used()->clone());
    att.apply(data, proj_symmetries_sptr); // apply multiplies with the ACF
    const auto& pdi = dynamic_cast<const ProjDataInfoCylindricalNoArcCorr&>(*pdi_sptr);
    double max_rel = 0, worst_got = 0, worst_expected = 0;
    Bin worst;
    for (int view = pdi.get_min_view_num(); view <= pdi.get_max_view_num(); ++view)
      // skip the 2 end planes: the projector averages over the axial extent of the LOR, half of which is outside the image there
      for (int ax = pdi.get_min_axial_pos_num(0) + 1; ax <= pdi.get_max_axial_pos_num(0) - 1; ++ax)
        for (int tang = pdi.get_min_tangential_pos_num(); tang <= pdi.get_max_tangential_pos_num(); ++tang)
          {
            Bin bin(0, view, ax, tang);
            const float s = pdi.get_s(bin);
            if (std::fabs(s) > .7F * radius)
              continue;
            const double expected_log = mu / 10. * 2 * std::sqrt(double(radius) * radius - double(s) * s);
            const double got_log = std::log(data.get_bin_value(bin));
            if (std::fabs(got_log - expected_log) / expected_log > max_rel)
              {
                max_rel = std::fabs(got_log - expected_log) / expected_log;
                worst = bin;
                worst_got = got_log;
                worst_expected = expected_log;
              }
          }
    std::cout << "  worst bin: view " << worst.view_num() << " axial " << worst.axial_pos_num() << " tang "
              << worst.tangential_pos_num() << ": log(ACF) " << worst_got << ", expected " << worst_expected << std::endl;
    std::cout << "  max relative difference of log(ACF) with mu*chord (segment 0 without end planes, |s|<0.7R): " << max_rel << std::endl;
    if (max_rel > .06)
      deviation("ACFs are not the exponentials of the line integrals");
    {
      // end planes, central bins: observation only (the tube of response of an end plane is half outside the image)
      Bin e(0, 0, pdi.get_min_axial_pos_num(0), 0), c(0, 0, pdi.get_min_axial_pos_num(0) + 5, 0);
      std::cout << "  observation (not counted): log(ACF) of the central bin in the first plane / in plane 5: "
                << std::log(data.get_bin_value(e)) / std::log(data.get_bin_value(c)) << std::endl;
    }
    // undo gives back 1
    att.undo(data, proj_symmetries_sptr);
    ProjDataInMemory ones(exam_info_sptr, pdi_sptr);
    ones.fill(1.F);
    const double rt = max_rel_diff(data, ones);
    std::cout << "  apply+undo round trip: max rel diff " << rt << std::endl;
    if (rt > 1.E-4)
      deviation("attenuation: apply followed by undo does not restore");
  }

  // ------------------------------------------------------------------------------------------
  std::cout << "C. chain of two attenuation-image normalisations constructed with the SAME forward projector object"
            << std::endl;
  {
    auto cyl2_sptr = make_cylinder(exam_info_sptr, *pdi_sptr, 25.F, 0.15F);
    shared_ptr<ForwardProjectorByBin> shared_proj(new ForwardProjectorByBinUsingRayTracing());
    shared_ptr<BinNormalisation> a1(new BinNormalisationFromAttenuationImage(cyl_sptr, shared_proj));
    shared_ptr<BinNormalisation> a2(new BinNormalisationFromAttenuationImage(cyl2_sptr, shared_proj));
    ChainedBinNormalisation chain(a1, a2);
    chain.set_up(exam_info_sptr, pdi_sptr);
    // reference: separate objects with their own projectors
    BinNormalisationFromAttenuationImage r1(cyl_sptr), r2(cyl2_sptr);
    r1.set_up(exam_info_sptr, pdi_sptr);
    r2.set_up(exam_info_sptr, pdi_sptr);
    ProjDataInMemory d(exam_info_sptr, pdi_sptr), ref(exam_info_sptr, pdi_sptr);
    d.fill(1.F);
    ref.fill(1.F);
    chain.apply(d, proj_symmetries_sptr);
    r1.apply(ref, proj_symmetries_sptr);
    r2.apply(ref, proj_symmetries_sptr);
    const double m = max_rel_diff(d, ref);
    std::cout << "  max rel diff between the chain and the product of two independent objects: " << m << std::endl;
    if (m > 1.E-3)
      deviation("BinNormalisationFromAttenuationImage keeps the caller's forward projector (no clone) and set_up() calls "
                "set_input() on it: two objects given the same projector both use the image of the one set up last, so "
                "the chain does not have the product of the members' factors");
  }

  // ------------------------------------------------------------------------------------------
  std::cout << "D. BinNormalisationFromProjData applied to data with fewer tangential positions than the factors" << std::endl;
  {
    shared_ptr<const ProjDataInfo> small_pdi_sptr(ProjDataInfo::construct_proj_data_info(
        scanner_sptr, 1, 1, scanner_sptr->get_num_detectors_per_ring() / 2, 31, /*arc_corrected=*/false));
    // variant 1: set_up with the small data (returns no), result ignored, then apply
    // variant 2: set_up with the geometry of the factors (returns yes), then apply to the small data:
    //            check() accepts it because it tests with >=
    for (int variant = 1; variant <= 2; ++variant)
      {
        auto f = [&]() {
          auto norm_pd = std::make_shared<ProjDataInMemory>(exam_info_sptr, pdi_sptr);
          fill_random(*norm_pd, .5F, 2.F);
          BinNormalisationFromProjData n(norm_pd);
          const bool ok = n.set_up(exam_info_sptr, variant == 1 ? small_pdi_sptr : pdi_sptr) == Succeeded::yes;
          std::cout << "  variant " << variant << ": set_up with " << (variant == 1 ? 31 : 63)
                    << " tangential positions for factors with 63: " << (ok ? "Succeeded::yes" : "Succeeded::no") << std::endl;
          ProjDataInMemory d(exam_info_sptr, small_pdi_sptr);
          d.fill(1.F);
          bool threw = false;
          try
            {
              n.apply(d);
            }
          catch (std::exception&)
            {
              threw = true;
            }
          std::cout << "  variant " << variant << ": apply() to data with 31 tangential positions "
                    << (threw ? "called error()" : "ran without complaint") << std::endl;
          if (threw)
            return 0;
          Bin b0(0, 0, 0, 0);
          std::cout << "  value at bin (0,0,0,0): " << d.get_bin_value(b0) << " norm factor there: " << norm_pd->get_bin_value(b0)
                    << std::endl;
          return 1;
        };
        const int r = run_in_child(f);
        std::cout << "  variant " << variant << ": child result " << r << " (0: refused, 1: ran, -1: died from a signal)" << std::endl;
        if (r != 0)
          deviation(variant == 1
                        ? "BinNormalisationFromProjData::set_up marks the object as set up (base_type::set_up first) before it "
                          "finds the data incompatible; apply()/undo() afterwards pass check() and run on incompatible data "
                          "(viewgram rows grow to the size of the factors and are then written into the smaller data set)"
                        : "BinNormalisation::check() accepts data that are 'smaller' (>=) than what set_up saw, including fewer "
                          "tangential positions, which BinNormalisationFromProjData::apply cannot handle (its set_up insists on "
                          "equal tangential ranges for that reason): rows grow and are written into the smaller data set");
      }
  }

  // ------------------------------------------------------------------------------------------
  std::cout << "E. BinNormalisationPETFromComponents::set_up with another geometry than allocate()" << std::endl;
  {
    auto f = [&]() {
      shared_ptr<const ProjDataInfo> full_pdi_sptr(ProjDataInfo::construct_proj_data_info(
          scanner_sptr, 1, 1, scanner_sptr->get_num_detectors_per_ring() / 2, 63, /*arc_corrected=*/false));
      shared_ptr<Scanner> other_scanner_sptr(new Scanner(Scanner::E953));
      shared_ptr<const ProjDataInfo> other_pdi_sptr(ProjDataInfo::construct_proj_data_info(
          other_scanner_sptr, 1, 1, other_scanner_sptr->get_num_detectors_per_ring() / 2, 63, /*arc_corrected=*/false));
      BinNormalisationPETFromComponents c;
      c.allocate(full_pdi_sptr, true, false);
      c.crystal_efficiencies().fill(1.F);
      const bool yes = c.set_up(exam_info_sptr, other_pdi_sptr) == Succeeded::yes;
      std::cout << "  allocate() for " << scanner_sptr->get_name() << ", set_up() for " << other_scanner_sptr->get_name()
                << " returned " << (yes ? "Succeeded::yes" : "Succeeded::no") << std::endl;
      return yes ? 1 : 0;
    };
    const int r = run_in_child(f);
    if (r != 0)
      deviation("set_up() overwrites proj_data_info_sptr (base_type::set_up) before comparing it with its argument, so the "
                "comparison with the geometry given to allocate() is always 'equal' (result " + std::to_string(r)
                + ", -1 = crashed, 50 = error())");
  }

  // ------------------------------------------------------------------------------------------
  std::cout << "F. TOF data with non-TOF factors: FromProjData and chains, whole data set and related viewgrams" << std::endl;
  {
    shared_ptr<Scanner> tof_scanner_sptr(new Scanner(Scanner::Discovery690));
    shared_ptr<const ProjDataInfo> tof_pdi_sptr(ProjDataInfo::construct_proj_data_info(
        tof_scanner_sptr, 1, 2, tof_scanner_sptr->get_num_detectors_per_ring() / 2 / 8, 31, /*arc_corrected=*/false, 11));
    shared_ptr<const ProjDataInfo> nontof_pdi_sptr(tof_pdi_sptr->create_non_tof_clone());
    std::cout << "  number of TOF bins: " << tof_pdi_sptr->get_num_tof_poss() << std::endl;
    auto n1 = std::make_shared<ProjDataInMemory>(exam_info_sptr, nontof_pdi_sptr);
    auto n2 = std::make_shared<ProjDataInMemory>(exam_info_sptr, nontof_pdi_sptr);
    auto n3 = std::make_shared<ProjDataInMemory>(exam_info_sptr, nontof_pdi_sptr);
    fill_random(*n1, .5F, 2.F);
    fill_random(*n2, .5F, 2.F);
    fill_random(*n3, .5F, 2.F);
    shared_ptr<BinNormalisation> b1(new BinNormalisationFromProjData(n1));
    shared_ptr<BinNormalisation> b2(new BinNormalisationFromProjData(n2));
    shared_ptr<BinNormalisation> b3(new BinNormalisationFromProjData(n3));
    shared_ptr<BinNormalisation> c12(new ChainedBinNormalisation(b1, b2));
    ChainedBinNormalisation c123(c12, b3);
    if (c123.set_up(exam_info_sptr, tof_pdi_sptr) != Succeeded::yes)
      deviation("chain of non-TOF FromProjData cannot be set up for TOF data");
    else
      {
        ProjDataInMemory orig(exam_info_sptr, tof_pdi_sptr);
        fill_random(orig, 1.F, 10.F);
        ProjDataInMemory d(orig);
        c123.undo(d);
        double m = 0;
        for (int k = tof_pdi_sptr->get_min_tof_pos_num(); k <= tof_pdi_sptr->get_max_tof_pos_num(); ++k)
          for (int seg = tof_pdi_sptr->get_min_segment_num(); seg <= tof_pdi_sptr->get_max_segment_num(); ++seg)
            for (int ax = tof_pdi_sptr->get_min_axial_pos_num(seg); ax <= tof_pdi_sptr->get_max_axial_pos_num(seg); ++ax)
              for (int view = tof_pdi_sptr->get_min_view_num(); view <= tof_pdi_sptr->get_max_view_num(); ++view)
                for (int tang = tof_pdi_sptr->get_min_tangential_pos_num(); tang <= tof_pdi_sptr->get_max_tangential_pos_num();
                     ++tang)
                  {
                    Bin bt(seg, view, ax, tang, k);
                    Bin b(seg, view, ax, tang);
                    const double expected
                        = 1. / (double(n1->get_bin_value(b)) * n2->get_bin_value(b) * n3->get_bin_value(b));
                    const double got = d.get_bin_value(bt) / orig.get_bin_value(bt);
                    m = std::max(m, std::fabs(got - expected) / expected);
                  }
        std::cout << "  whole data set, undo: max rel diff with product of efficiencies: " << m << std::endl;
        if (m > 1.E-4)
          deviation("TOF chain: undo factor is not the product of the members' efficiencies");
        c123.apply(d);
        const double rt = max_rel_diff(d, orig);
        std::cout << "  whole data set, undo+apply: max rel diff " << rt << std::endl;
        if (rt > 1.E-4)
          deviation("TOF chain: apply does not invert undo");

        // with PET symmetries, on related viewgrams and on the whole data set
        shared_ptr<VoxelsOnCartesianGrid<float>> image_sptr(new VoxelsOnCartesianGrid<float>(exam_info_sptr, *tof_pdi_sptr));
        shared_ptr<DataSymmetriesForViewSegmentNumbers> sym_sptr(
            new DataSymmetriesForBins_PET_CartesianGrid(tof_pdi_sptr, image_sptr));
        ProjDataInMemory d2(orig), d3(orig);
        c123.undo(d2, sym_sptr);
        c123.undo(d3);
        const double ms = max_rel_diff(d2, d3);
        std::cout << "  whole data set, undo with PET symmetries against trivial symmetries: max rel diff " << ms << std::endl;
        if (ms > 1.E-5)
          deviation("TOF chain: result depends on the symmetries used");
      }

    // TOF data with a component normalisation
    bool threw = false;
    try
      {
        shared_ptr<const ProjDataInfo> tof_full_pdi_sptr(ProjDataInfo::construct_proj_data_info(
            tof_scanner_sptr, 1, 1, tof_scanner_sptr->get_num_detectors_per_ring() / 2, 31, /*arc_corrected=*/false, 11));
        BinNormalisationPETFromComponents c;
        c.allocate(tof_full_pdi_sptr, true, false);
        c.crystal_efficiencies().fill(1.F);
        c.set_up(exam_info_sptr, tof_full_pdi_sptr);
      }
    catch (std::exception&)
      {
        threw = true;
      }
    std::cout << "  BinNormalisationPETFromComponents::set_up with TOF data " << (threw ? "calls error()" : "works") << std::endl;
    if (threw)
      deviation("BinNormalisationPETFromComponents (non-TOF factors by nature) cannot be set up for TOF data "
                "(make_fan_data refuses TOF); not mentioned in the class documentation");
  }

  // ------------------------------------------------------------------------------------------
  std::cout << "G. chain of two trivial normalisations" << std::endl;
  {
    shared_ptr<BinNormalisation> t1(new TrivialBinNormalisation), t2(new TrivialBinNormalisation);
    ChainedBinNormalisation chain(t1, t2);
    chain.set_up(exam_info_sptr, pdi_sptr);
    std::cout << "  is_trivial() of the chain: " << chain.is_trivial() << " (first: " << chain.is_first_trivial()
              << ", second: " << chain.is_second_trivial() << ")" << std::endl;
    std::cout << "  (not a deviation from the property: a chain never claims to be trivial, it just does the work)" << std::endl;
  }

  std::cout << "number of deviations: " << deviations << std::endl;
  return deviations;
}
