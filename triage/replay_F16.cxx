// replay of candidate finding F16 (C05): the sensitivity of TOF data with "use time-of-flight sensitivities", zero_seg0_end_planes and NO
// normalisation must equal the sensitivity with a normalisation whose factors are all 1 (differential oracle: 1 * x == x).
// distributable.cxx get_viewgrams(): the branch "no normalisation but zero_seg0_end_planes" requests the multiplicative viewgrams
// without the TOF index, so every TOF bin back-projects ones as TOF bin 0.
#include "stir/recon_buildblock/PoissonLogLikelihoodWithLinearModelForMeanAndProjData.h"
#include "stir/recon_buildblock/ProjMatrixByBinUsingRayTracing.h"
#include "stir/recon_buildblock/ProjectorByBinPairUsingProjMatrixByBin.h"
#include "stir/recon_buildblock/BinNormalisationFromProjData.h"
#include "stir/ProjDataInMemory.h"
#include "stir/ProjDataInfo.h"
#include "stir/Scanner.h"
#include "stir/VoxelsOnCartesianGrid.h"
#include <cmath>
#include <cstdlib>
#include <iostream>
#include <sstream>
using namespace stir;
typedef DiscretisedDensity<3, float> target_type;

static shared_ptr<target_type>
sensitivity(const shared_ptr<ProjData>& proj_data_sptr, const shared_ptr<target_type>& x, const bool with_unit_norm, const bool zero_end)
{
  PoissonLogLikelihoodWithLinearModelForMeanAndProjData<target_type> obj;
  {
    std::istringstream par("PoissonLogLikelihoodWithLinearModelForMeanAndProjData Parameters:=\n"
                           "use time-of-flight sensitivities := 1\n"
                           "End PoissonLogLikelihoodWithLinearModelForMeanAndProjData Parameters:=\n");
    obj.parse(par); // fails on the missing input file, but the switch is set
  }
  obj.set_proj_data_sptr(proj_data_sptr);
  shared_ptr<ProjMatrixByBin> pm(new ProjMatrixByBinUsingRayTracing());
  shared_ptr<ProjectorByBinPair> pp(new ProjectorByBinPairUsingProjMatrixByBin(pm));
  obj.set_projector_pair_sptr(pp);
  obj.set_zero_seg0_end_planes(zero_end);
  if (with_unit_norm)
    {
      shared_ptr<ProjData> ones(new ProjDataInMemory(proj_data_sptr->get_exam_info_sptr(), proj_data_sptr->get_proj_data_info_sptr()));
      ones->fill(1.F);
      shared_ptr<BinNormalisation> norm(new BinNormalisationFromProjData(ones));
      obj.set_normalisation_sptr(norm);
    }
  obj.set_num_subsets(1);
  obj.set_up(x);
  return shared_ptr<target_type>(obj.get_sensitivity().clone());
}

int
main()
{
  shared_ptr<Scanner> scanner_sptr(new Scanner(Scanner::Discovery690));
  scanner_sptr->set_num_rings(4);
  shared_ptr<ProjDataInfo> pdi(ProjDataInfo::construct_proj_data_info(scanner_sptr, 3, 2, 16, 16, false, 11));
  std::cout << pdi->get_num_tof_poss() << " TOF bins\n";
  shared_ptr<ExamInfo> exam_info_sptr(new ExamInfo(ImagingModality::PT));
  shared_ptr<ProjData> proj_data_sptr(new ProjDataInMemory(exam_info_sptr, pdi));
  proj_data_sptr->fill(1.F);
  shared_ptr<target_type> x(new VoxelsOnCartesianGrid<float>(exam_info_sptr, *pdi, 1.F, CartesianCoordinate3D<float>(0, 0, 0)));
  x->fill(1.F);
  int bad = 0;
  for (int zero_end = 0; zero_end <= 1; ++zero_end)
    {
      shared_ptr<target_type> a = sensitivity(proj_data_sptr, x, false, zero_end != 0);
      shared_ptr<target_type> b = sensitivity(proj_data_sptr, x, true, zero_end != 0);
      double maxdiff = 0, scale = 0;
      auto ia = a->begin_all();
      for (auto ib = b->begin_all(); ib != b->end_all(); ++ia, ++ib)
        {
          maxdiff = std::max(maxdiff, std::fabs(double(*ia) - *ib));
          scale = std::max(scale, std::fabs(double(*ib)));
        }
      std::cout << "zero_seg0_end_planes=" << zero_end << ": max |sensitivity(no norm) - sensitivity(norm == 1)| = " << maxdiff
                << " (scale " << scale << ")\n";
      if (maxdiff > 1e-3 * scale)
        ++bad;
    }
  return bad ? 1 : 0;
}
