/*
  Probe of the UNMODIFIED OSSPS code for seed C08-3: prints what it observes, exit code = number of deviations
  from the property
     lambda -> clamp(lambda + zeta_n N grad_S Phi(lambda) / D, 0, upper bound),  zeta_n = alpha/(1+gamma n),
     n the full iteration, D = -(approx Hessian . 1) + 2 (prior surrogate curvature).

  P1  relaxation: is zeta constant over the sub-iterations of one full iteration?
  P2  resuming on the same object with reconstruct(target) but without a new set_up() (quadratic prior)
  P3  Logcosh prior: is the prior part of D the surrogate curvature at the current iterate?
  P4  "disable output": is the precomputed denominator still written?
  P5  resuming (new set_up) with a quadratic prior when some voxels have zero sensitivity (default
      ray tracing matrix restricted to the cylindrical FOV, default image size)
*/
#include "stir/OSSPS/OSSPSReconstruction.h"
#include "stir/recon_buildblock/PoissonLogLikelihoodWithLinearModelForMeanAndProjData.h"
#include "stir/recon_buildblock/QuadraticPrior.h"
#include "stir/recon_buildblock/LogcoshPrior.h"
#include <vector>
#include <fstream>
#include <cstdio>
#include "stir/recon_buildblock/ProjMatrixByBinUsingRayTracing.h"
#include "stir/recon_buildblock/ProjectorByBinPairUsingProjMatrixByBin.h"
#include "stir/recon_buildblock/TrivialBinNormalisation.h"
#include "stir/VoxelsOnCartesianGrid.h"
#include "stir/ProjDataInMemory.h"
#include "stir/ProjDataInfo.h"
#include "stir/ExamInfo.h"
#include "stir/Scanner.h"
#include "stir/SegmentByView.h"
#include "stir/thresholding.h"
#include "stir/Verbosity.h"
#include "stir/Succeeded.h"
#include <boost/random/uniform_01.hpp>
#include <boost/random/mersenne_twister.hpp>
#include <iostream>
#include <cmath>
#include <algorithm>

using namespace stir;

typedef DiscretisedDensity<3, float> target_type;
typedef PoissonLogLikelihoodWithLinearModelForMeanAndProjData<target_type> objfn_type;

static boost::mt19937 generator(boost::uint32_t(1234));
static boost::uniform_01<boost::mt19937> random01(generator);

// OSSPS has no setters for these, only parsing keys; give access to the protected members
class MyOSSPS : public OSSPSReconstruction<target_type>
{
public:
  void set_relaxation(const float alpha, const float gamma)
  {
    this->relaxation_parameter = alpha;
    this->relaxation_gamma = gamma;
  }
  void set_upper_bound(const double u) { this->upper_bound = u; }
};

static shared_ptr<ProjDataInfo>
make_proj_data_info()
{
  shared_ptr<Scanner> scanner_sptr(new Scanner(Scanner::E953));
  scanner_sptr->set_num_rings(5);
  shared_ptr<ProjDataInfo> pdi(ProjDataInfo::ProjDataInfoCTI(scanner_sptr,
                                                             /*span=*/3,
                                                             /*max_delta=*/4,
                                                             /*num_views=*/16,
                                                             /*num_tang_poss=*/16));
  return pdi;
}

static shared_ptr<ProjData>
make_random_proj_data(const shared_ptr<ProjDataInfo>& pdi, const float scale)
{
  shared_ptr<ExamInfo> exam_info_sptr(new ExamInfo(ImagingModality::PT));
  shared_ptr<ProjData> pd(new ProjDataInMemory(exam_info_sptr, pdi));
  for (int seg_num = pd->get_min_segment_num(); seg_num <= pd->get_max_segment_num(); ++seg_num)
    {
      SegmentByView<float> segment = pd->get_empty_segment_by_view(seg_num);
      for (SegmentByView<float>::full_iterator iter = segment.begin_all(); iter != segment.end_all(); ++iter)
        *iter = scale * (1.F + std::floor(9.F * static_cast<float>(random01())));
      pd->set_segment(segment);
    }
  return pd;
}

static shared_ptr<ProjData>
make_const_proj_data(const shared_ptr<ProjData>& like, const float value)
{
  shared_ptr<ProjData> pd(new ProjDataInMemory(like->get_exam_info_sptr(), like->get_proj_data_info_sptr()->create_shared_clone()));
  pd->fill(value);
  return pd;
}

static shared_ptr<target_type>
make_random_image(const shared_ptr<ProjData>& pd, const float lo, const float hi, const int xy_size = -1)
{
  // xy_size==-1: default size, i.e. covering the whole FOV (corners are outside the FOV and have zero sensitivity)
  shared_ptr<VoxelsOnCartesianGrid<float>> im(new VoxelsOnCartesianGrid<float>(pd->get_exam_info_sptr(),
                                                                               *pd->get_proj_data_info_sptr(),
                                                                               1.F,
                                                                               CartesianCoordinate3D<float>(0, 0, 0),
                                                                               CartesianCoordinate3D<int>(-1, xy_size, xy_size)));
  // make odd-sized (see test_PoissonLogLikelihoodWithLinearModelForMeanAndProjData)
  BasicCoordinate<3, int> min_ind, max_ind;
  if (im->get_regular_range(min_ind, max_ind))
    {
      for (int d = 2; d <= 3; ++d)
        {
          min_ind[d] = std::min(min_ind[d], -max_ind[d]);
          max_ind[d] = std::max(-min_ind[d], max_ind[d]);
        }
      im->grow(IndexRange<3>(min_ind, max_ind));
    }
  for (target_type::full_iterator iter = im->begin_all(); iter != im->end_all(); ++iter)
    *iter = lo + (hi - lo) * static_cast<float>(random01());
  return im;
}

static shared_ptr<objfn_type>
make_objective_function(const shared_ptr<ProjData>& data,
                        const shared_ptr<ProjData>& additive,
                        const shared_ptr<GeneralisedPrior<target_type>>& prior_sptr,
                        const bool restrict_to_cylindrical_FOV = false)
{
  shared_ptr<objfn_type> obj(new objfn_type);
  obj->set_proj_data_sptr(data);
  shared_ptr<ProjMatrixByBinUsingRayTracing> proj_matrix_sptr(new ProjMatrixByBinUsingRayTracing());
  // default is true: voxels in the corners of the image then have zero sensitivity
  proj_matrix_sptr->set_restrict_to_cylindrical_FOV(restrict_to_cylindrical_FOV);
  shared_ptr<ProjectorByBinPair> proj_pair_sptr(new ProjectorByBinPairUsingProjMatrixByBin(proj_matrix_sptr));
  obj->set_projector_pair_sptr(proj_pair_sptr);
  shared_ptr<BinNormalisation> norm_sptr(new TrivialBinNormalisation());
  obj->set_normalisation_sptr(norm_sptr);
  obj->set_additive_proj_data_sptr(additive);
  obj->set_zero_seg0_end_planes(false);
  if (prior_sptr)
    obj->set_prior_sptr(prior_sptr);
  return obj;
}

static shared_ptr<MyOSSPS>
make_recon(const shared_ptr<objfn_type>& obj, const int num_subsets, const float alpha, const float gamma, const double upper_bound)
{
  shared_ptr<MyOSSPS> recon(new MyOSSPS);
  recon->set_objective_function_sptr(obj);
  recon->set_num_subsets(num_subsets);
  recon->set_relaxation(alpha, gamma);
  recon->set_upper_bound(upper_bound);
  recon->set_disable_output(true);
  recon->set_output_filename_prefix("demo_C08_3"); // the precomputed denominator is always written
  recon->set_save_interval(1);
  return recon;
}

//! D as the property defines it, computed independently of OSSPSReconstruction
static shared_ptr<target_type>
expected_D(objfn_type& obj, const target_type& lambda)
{
  shared_ptr<target_type> D(lambda.get_empty_copy());
  shared_ptr<target_type> ones(lambda.get_empty_copy());
  std::fill(ones->begin_all(), ones->end_all(), 1.F);
  obj.add_multiplication_with_approximate_Hessian_without_penalty(*D, *ones);
  for (target_type::full_iterator i = D->begin_all(); i != D->end_all(); ++i)
    *i = -*i;
  if (!obj.prior_is_zero())
    {
      shared_ptr<target_type> curv(lambda.get_empty_copy());
      dynamic_cast<PriorWithParabolicSurrogate<target_type>&>(*obj.get_prior_ptr()).parabolic_surrogate_curvature(*curv, lambda);
      target_type::full_iterator c = curv->begin_all();
      for (target_type::full_iterator i = D->begin_all(); i != D->end_all(); ++i, ++c)
        *i += 2 * *c;
    }
  threshold_min_to_small_positive_value(D->begin_all(), D->end_all(), 10.E-6F);
  return D;
}

//! one step as the property defines it
static shared_ptr<target_type>
expected_step(objfn_type& obj,
              const target_type& lambda,
              const target_type& D,
              const int subset_num,
              const int num_subsets,
              const float zeta,
              const float upper_bound)
{
  shared_ptr<target_type> result(lambda.clone());
  shared_ptr<target_type> grad(lambda.get_empty_copy());
  obj.compute_sub_gradient(*grad, lambda, subset_num);
  target_type::const_full_iterator g = grad->begin_all_const();
  target_type::const_full_iterator d = D.begin_all_const();
  for (target_type::full_iterator r = result->begin_all(); r != result->end_all(); ++r, ++g, ++d)
    {
      const float v = *r + zeta * num_subsets * (*g) / (*d);
      *r = std::min(std::max(v, 0.F), upper_bound);
    }
  return result;
}

static double
max_abs_diff(const target_type& a, const target_type& b)
{
  double m = 0;
  target_type::const_full_iterator ib = b.begin_all_const();
  for (target_type::const_full_iterator ia = a.begin_all_const(); ia != a.end_all_const(); ++ia, ++ib)
    m = std::max(m, static_cast<double>(std::fabs(*ia - *ib)));
  return m;
}

static double
max_abs(const target_type& a)
{
  double m = 0;
  for (target_type::const_full_iterator ia = a.begin_all_const(); ia != a.end_all_const(); ++ia)
    m = std::max(m, static_cast<double>(std::fabs(*ia)));
  return m;
}


int
main()
{
  Verbosity::set(0);
  int deviations = 0;

  const int num_subsets = 4;
  const float alpha = 1.F;
  const float gamma = 1.F;
  const float upper_bound = 1.E6F;

  shared_ptr<ProjDataInfo> pdi = make_proj_data_info();
  shared_ptr<ProjData> data = make_random_proj_data(pdi, 1.F);
  shared_ptr<ProjData> additive = make_const_proj_data(data, 0.5F);
  // 9x9 voxels in-plane and no restriction to a cylindrical FOV: all voxels have non-zero sensitivity (except in P5)
  shared_ptr<target_type> start_image = make_random_image(data, 0.2F, 2.F, 9);
  shared_ptr<target_type> kappa = make_random_image(data, 0.5F, 1.5F, 9);

  ////////// P1: relaxation
  {
    std::cout << "P1: relaxation per sub-iteration (alpha=1, gamma=1, " << num_subsets
              << " subsets, no prior); zeta inferred from the step on unclamped voxels\n";
    shared_ptr<objfn_type> obj = make_objective_function(data, additive, shared_ptr<GeneralisedPrior<target_type>>());
    shared_ptr<MyOSSPS> recon = make_recon(obj, num_subsets, alpha, gamma, upper_bound);
    shared_ptr<target_type> iterate(start_image->clone());
    recon->set_num_subiterations(1);
    if (recon->set_up(iterate) != Succeeded::yes)
      return 100;
    obj->fill_nonidentifiable_target_parameters(*iterate, 0);
    shared_ptr<target_type> D = expected_D(*obj, *iterate);
    for (int s = 1; s <= 2 * num_subsets; ++s)
      {
        shared_ptr<target_type> before(iterate->clone());
        shared_ptr<target_type> grad(iterate->get_empty_copy());
        obj->compute_sub_gradient(*grad, *before, (s - 1) % num_subsets);
        recon->set_start_subiteration_num(s);
        recon->set_num_subiterations(s);
        if (recon->set_up(iterate) != Succeeded::yes || recon->reconstruct(iterate) != Succeeded::yes)
          return 100;
        std::vector<double> ratios;
        target_type::const_full_iterator b = before->begin_all_const(), g = grad->begin_all_const(), d = D->begin_all_const();
        for (target_type::const_full_iterator a = iterate->begin_all_const(); a != iterate->end_all_const(); ++a, ++b, ++g, ++d)
          if (*a > 0 && *a < upper_bound && std::fabs(*g) > 1.E-3)
            ratios.push_back((*a - *b) * (*d) / (num_subsets * (*g)));
        std::sort(ratios.begin(), ratios.end());
        const double zeta_obs = ratios[ratios.size() / 2];
        const int n0 = (s - 1) / num_subsets; // full iteration, counting from 0
        const double zeta_n0 = alpha / (1 + gamma * n0);
        const double zeta_n1 = alpha / (1 + gamma * (n0 + 1));
        std::cout << "   sub-iteration " << s << " (full iteration " << n0 << " counting from 0): observed zeta " << zeta_obs
                  << "; alpha/(1+gamma n) = " << zeta_n0 << " (n from 0) or " << zeta_n1 << " (n from 1)";
        // convention-free check: same zeta as the first sub-iteration of this full iteration
        static double zeta_first = 0;
        if ((s - 1) % num_subsets == 0)
          zeta_first = zeta_obs;
        else if (std::fabs(zeta_obs - zeta_first) > 1.E-3)
          {
            std::cout << "   DEVIATION (differs from the first sub-iteration of this full iteration: " << zeta_first << ")";
            ++deviations;
          }
        std::cout << '\n';
      }
    // one subset
    {
      shared_ptr<objfn_type> obj1 = make_objective_function(data, additive, shared_ptr<GeneralisedPrior<target_type>>());
      shared_ptr<MyOSSPS> recon1 = make_recon(obj1, 1, alpha, gamma, upper_bound);
      shared_ptr<target_type> it(start_image->clone());
      recon1->set_num_subiterations(1);
      if (recon1->set_up(it) != Succeeded::yes)
        return 100;
      shared_ptr<target_type> before(it->clone());
      obj1->fill_nonidentifiable_target_parameters(*before, 0);
      shared_ptr<target_type> D1 = expected_D(*obj1, *before);
      shared_ptr<target_type> grad(it->get_empty_copy());
      obj1->compute_sub_gradient(*grad, *before, 0);
      if (recon1->reconstruct(it) != Succeeded::yes)
        return 100;
      std::vector<double> ratios;
      target_type::const_full_iterator b = before->begin_all_const(), g = grad->begin_all_const(), d = D1->begin_all_const();
      for (target_type::const_full_iterator a = it->begin_all_const(); a != it->end_all_const(); ++a, ++b, ++g, ++d)
        if (*a > 0 && *a < upper_bound && std::fabs(*g) > 1.E-3)
          ratios.push_back((*a - *b) * (*d) / (*g));
      std::sort(ratios.begin(), ratios.end());
      std::cout << "   1 subset, sub-iteration 1: observed zeta " << ratios[ratios.size() / 2]
                << " (so with 1 subset n counts from 1, with " << num_subsets << " subsets the first "
                << num_subsets - 1 << " sub-iterations use n=0)\n";
    }
  }

  ////////// P2: reconstruct(target) again on the same object without set_up
  {
    const int K = 6, k = 3;
    const float ub = 4.F;
    auto make_prior = [&]() {
      shared_ptr<QuadraticPrior<float>> q(new QuadraticPrior<float>(false, 2.F));
      q->set_kappa_sptr(kappa);
      return shared_ptr<GeneralisedPrior<target_type>>(q);
    };
    shared_ptr<target_type> uninterrupted(start_image->clone());
    {
      shared_ptr<objfn_type> obj = make_objective_function(data, additive, make_prior());
      shared_ptr<MyOSSPS> recon = make_recon(obj, num_subsets, alpha, 0.3F, ub);
      recon->set_num_subiterations(K);
      if (recon->set_up(uninterrupted) != Succeeded::yes || recon->reconstruct(uninterrupted) != Succeeded::yes)
        return 100;
    }
    shared_ptr<objfn_type> obj = make_objective_function(data, additive, make_prior());
    shared_ptr<MyOSSPS> recon = make_recon(obj, num_subsets, alpha, 0.3F, ub);
    shared_ptr<target_type> iterate(start_image->clone());
    recon->set_num_subiterations(k);
    if (recon->set_up(iterate) != Succeeded::yes || recon->reconstruct(iterate) != Succeeded::yes)
      return 100;
    shared_ptr<target_type> with_set_up(iterate->clone());
    shared_ptr<target_type> without_set_up(iterate->clone());
    recon->set_start_subiteration_num(k + 1);
    recon->set_num_subiterations(K);
    if (recon->reconstruct(without_set_up) != Succeeded::yes)
      return 100;
    if (recon->set_up(with_set_up) != Succeeded::yes || recon->reconstruct(with_set_up) != Succeeded::yes)
      return 100;
    const double d1 = max_abs_diff(*with_set_up, *uninterrupted);
    const double d2 = max_abs_diff(*without_set_up, *uninterrupted);
    std::cout << "P2: quadratic prior, resume at sub-iteration " << k + 1 << " of " << K << " on the same object:\n"
              << "   set_up(saved)+reconstruct(saved) vs uninterrupted: max |diff| = " << d1 << (d1 > 1.E-5 ? "   DEVIATION" : "")
              << "\n   reconstruct(saved) only          vs uninterrupted: max |diff| = " << d2
              << (d2 > 1.E-5 ? "   DEVIATION (penalty curvature added to D a second time)" : "") << '\n';
    deviations += (d1 > 1.E-5) + (d2 > 1.E-5);
  }

  ////////// P3: Logcosh prior
  {
    shared_ptr<LogcoshPrior<float>> lc(new LogcoshPrior<float>(false, 2.F, 5.F));
    shared_ptr<GeneralisedPrior<target_type>> prior_sptr(lc);
    shared_ptr<objfn_type> obj = make_objective_function(data, additive, prior_sptr);
    shared_ptr<MyOSSPS> recon = make_recon(obj, num_subsets, alpha, 0.3F, 4.F);
    shared_ptr<target_type> iterate(start_image->clone());
    recon->set_num_subiterations(1);
    if (recon->set_up(iterate) != Succeeded::yes || recon->reconstruct(iterate) != Succeeded::yes)
      return 100;
    // second sub-iteration in the same run
    shared_ptr<target_type> lambda1(iterate->clone());
    shared_ptr<target_type> start_filled(start_image->clone());
    obj->fill_nonidentifiable_target_parameters(*start_filled, 0);
    shared_ptr<target_type> D_at_start = expected_D(*obj, *start_filled);
    shared_ptr<target_type> D_at_current = expected_D(*obj, *lambda1);
    const float zeta = alpha / (1 + 0.3F * (2 / num_subsets));
    shared_ptr<target_type> exp_current = expected_step(*obj, *lambda1, *D_at_current, 1, num_subsets, zeta, 4.F);
    shared_ptr<target_type> exp_start = expected_step(*obj, *lambda1, *D_at_start, 1, num_subsets, zeta, 4.F);
    // uninterrupted run of 2 sub-iterations
    shared_ptr<target_type> two(start_image->clone());
    recon->set_num_subiterations(2);
    if (recon->set_up(two) != Succeeded::yes || recon->reconstruct(two) != Succeeded::yes)
      return 100;
    // resumed at sub-iteration 2
    shared_ptr<target_type> resumed(lambda1->clone());
    recon->set_start_subiteration_num(2);
    if (recon->set_up(resumed) != Succeeded::yes || recon->reconstruct(resumed) != Succeeded::yes)
      return 100;
    const double dc = max_abs_diff(*two, *exp_current);
    const double ds = max_abs_diff(*two, *exp_start);
    const double dr = max_abs_diff(*two, *resumed);
    std::cout << "P3: Logcosh prior (reports parabolic_surrogate_curvature_depends_on_argument()==false), sub-iteration 2:\n"
              << "   max |D(start image) - D(current iterate)| = " << max_abs_diff(*D_at_start, *D_at_current) << '\n'
              << "   vs formula with surrogate curvature at the current iterate: max |diff| = " << dc
              << (dc > 1.E-4 ? "   DEVIATION" : "") << '\n'
              << "   vs formula with surrogate curvature at the start image:     max |diff| = " << ds << '\n'
              << "   resumed at sub-iteration 2 vs uninterrupted:                max |diff| = " << dr
              << (dr > 1.E-5 ? "   (differs; the property only promises this for no/quadratic prior)" : "") << '\n';
    deviations += (dc > 1.E-4);
  }

  ////////// P4: disable output
  {
    std::remove("demo_C08_3_precomputed_denominator.hv");
    std::remove("demo_C08_3_precomputed_denominator.v");
    shared_ptr<objfn_type> obj = make_objective_function(data, additive, shared_ptr<GeneralisedPrior<target_type>>());
    shared_ptr<MyOSSPS> recon = make_recon(obj, num_subsets, alpha, gamma, upper_bound); // set_disable_output(true)
    shared_ptr<target_type> iterate(start_image->clone());
    if (recon->set_up(iterate) != Succeeded::yes)
      return 100;
    const bool exists = std::ifstream("demo_C08_3_precomputed_denominator.hv").good();
    std::cout << "P4: output disabled, file demo_C08_3_precomputed_denominator.hv written by set_up(): " << (exists ? "yes" : "no")
              << " (not part of the property, not counted)\n";
  }


  ////////// P5: resume with a quadratic prior and voxels with zero sensitivity
  for (int with_prior = 0; with_prior <= 1; ++with_prior)
    {
      const int K = 6;
      const float ub = 4.F;
      shared_ptr<target_type> start_full = make_random_image(data, 0.2F, 2.F); // default size, corners outside FOV
      auto make_prior = [&]() {
        shared_ptr<GeneralisedPrior<target_type>> p;
        if (with_prior)
          p.reset(new QuadraticPrior<float>(false, 2.F));
        return p;
      };
      shared_ptr<target_type> uninterrupted(start_full->clone());
      int num_zero_sens = 0;
      {
        shared_ptr<objfn_type> obj = make_objective_function(data, additive, make_prior(), /*restrict_to_cylindrical_FOV=*/true);
        shared_ptr<MyOSSPS> recon = make_recon(obj, num_subsets, alpha, 0.3F, ub);
        recon->set_num_subiterations(K);
        if (recon->set_up(uninterrupted) != Succeeded::yes || recon->reconstruct(uninterrupted) != Succeeded::yes)
          return 100;
        for (target_type::const_full_iterator i = obj->get_sensitivity().begin_all_const(); i != obj->get_sensitivity().end_all_const();
             ++i)
          if (*i <= 0)
            ++num_zero_sens;
      }
      std::cout << "P5: " << (with_prior ? "quadratic prior" : "no prior") << ", " << num_zero_sens
                << " voxels with zero sensitivity; resumed (fresh object, set_up(saved), start at k+1) vs uninterrupted run of " << K
                << " sub-iterations\n";
      for (int k = 1; k < K; ++k)
        {
          shared_ptr<target_type> iterate(start_full->clone());
          {
            shared_ptr<objfn_type> obj = make_objective_function(data, additive, make_prior(), true);
            shared_ptr<MyOSSPS> recon = make_recon(obj, num_subsets, alpha, 0.3F, ub);
            recon->set_num_subiterations(k);
            if (recon->set_up(iterate) != Succeeded::yes || recon->reconstruct(iterate) != Succeeded::yes)
              return 100;
          }
          shared_ptr<target_type> resumed(iterate->clone());
          {
            shared_ptr<objfn_type> obj = make_objective_function(data, additive, make_prior(), true);
            shared_ptr<MyOSSPS> recon = make_recon(obj, num_subsets, alpha, 0.3F, ub);
            recon->set_start_subiteration_num(k + 1);
            recon->set_num_subiterations(K);
            if (recon->set_up(resumed) != Succeeded::yes || recon->reconstruct(resumed) != Succeeded::yes)
              return 100;
          }
          const double d = max_abs_diff(*resumed, *uninterrupted);
          std::cout << "   k=" << k << ": max |diff| = " << d;
          if (d > 1.E-5)
            {
              std::cout << "   DEVIATION";
              ++deviations;
            }
          std::cout << '\n';
        }
    }

  std::cout << deviations << " deviations\n";
  return deviations;
}
