// F66: a get_* request for a segment the projection data do not have was used as an index into the per-segment tables
// before any range check (empty object returned without error, or arbitrary memory read)
#include "stir/ProjDataInMemory.h"
#include "stir/ProjDataInterfile.h"
#include "stir/ProjDataInfo.h"
#include "stir/ExamInfo.h"
#include "stir/Scanner.h"
#include "stir/SegmentByView.h"
#include "stir/SegmentBySinogram.h"
#include "stir/Succeeded.h"
#include <iostream>
#include <functional>
#include <unistd.h>
#include <sys/wait.h>
using namespace stir;

static int
expect_error(const char* what, const std::function<void()>& f)
{
  try
    {
      f();
    }
  catch (std::exception& e)
    {
      std::cout << "  " << what << ": reported (" << std::string(e.what()).substr(0, 70) << ")\n";
      return 0;
    }
  std::cout << "  " << what << ": NO ERROR\n";
  return 1;
}

// what happens for an out-of-range segment number depends on what lies next to the per-segment tables in memory:
// each request runs in a child process; "no error" and "killed by a signal" are both deviations
static int
scan(ProjData& pd, const char* name)
{
  int silent = 0, crashed = 0, reported = 0, first_silent = 0;
  for (int s = pd.get_max_segment_num() + 1; s <= pd.get_max_segment_num() + 60; ++s)
    for (int sign = -1; sign <= 1; sign += 2)
      {
        std::cout.flush();
        fflush(stdout);
        const pid_t pid = fork();
        if (pid == 0)
          {
            fclose(stderr);
            alarm(5);
            try
              {
                pd.get_viewgram(0, sign * s);
              }
            catch (...)
              {
                _exit(1);
              }
            _exit(0);
          }
        int status = 0;
        waitpid(pid, &status, 0);
        if (WIFSIGNALED(status))
          ++crashed;
        else if (WEXITSTATUS(status) == 0)
          {
            ++silent;
            if (!first_silent)
              first_silent = sign * s;
          }
        else
          ++reported;
      }
  std::cout << name << ": get_viewgram(0, s) for the 120 segment numbers up to 60 beyond the range: " << reported << " reported, " << silent
            << " returned without error";
  if (silent)
    std::cout << " (first: segment " << first_silent << ")";
  std::cout << ", " << crashed << " killed by a signal\n";
  return silent + crashed;
}

static int
probe(ProjData& pd, const char* name)
{
  std::cout << name << " (segments " << pd.get_min_segment_num() << ".." << pd.get_max_segment_num() << ")\n";
  int bad = 0;
  const int hi = pd.get_max_segment_num(), lo = pd.get_min_segment_num();
  bad += expect_error("get_viewgram(0, max_segment+1000)", [&]() { pd.get_viewgram(0, hi + 1000); });
  bad += expect_error("get_viewgram(0, min_segment-2)", [&]() { pd.get_viewgram(0, lo - 2); });
  bad += expect_error("get_sinogram(0, max_segment+3)", [&]() { pd.get_sinogram(0, hi + 3); });
  bad += expect_error("get_segment_by_sinogram(max_segment+5)", [&]() { pd.get_segment_by_sinogram(hi + 5); });
  bad += expect_error("get_segment_by_view(min_segment-7)", [&]() { pd.get_segment_by_view(lo - 7); });
  return bad;
}

int
main()
{
  shared_ptr<Scanner> scanner(new Scanner(Scanner::E953));
  shared_ptr<ProjDataInfo> pdi(ProjDataInfo::construct_proj_data_info(scanner, 1, 2, 8, 16, false));
  shared_ptr<ExamInfo> exam(new ExamInfo);
  exam->imaging_modality = ImagingModality::PT;
  int bad = 0;
  {
    ProjDataInMemory pd(exam, pdi);
    bad += probe(pd, "ProjDataInMemory");
    bad += scan(pd, "ProjDataInMemory");
  }
  {
    ProjDataInterfile pd(exam, pdi, "/tmp/tri/replay_F66.hs", std::ios::in | std::ios::out | std::ios::trunc);
    pd.fill(1.F);
    bad += probe(pd, "ProjDataInterfile (ProjDataFromStream), view-major");
  }
  {
    ProjDataInterfile pd(exam, pdi, "/tmp/tri/replay_F66b.hs", std::ios::in | std::ios::out | std::ios::trunc, ProjDataFromStream::Segment_AxialPos_View_TangPos);
    pd.fill(1.F);
    bad += probe(pd, "ProjDataInterfile (ProjDataFromStream), sinogram-major");
  }
  std::cout << (bad ? "DEVIATIONS " : "ok ") << bad << "\n";
  return bad;
}
