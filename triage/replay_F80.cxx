// F80 (regression of the F43 repair): a comment or a key that is not in the keymap may contain anything between brackets;
// since F43 (`a vectorised key whose index is not an integer is rejected`) such a line aborted the whole parse
#include "stir/KeyParser.h"
#include <iostream>
#include <sstream>
#include <vector>
using namespace stir;
int
main()
{
  int bad = 0;
  auto run = [&](const char* what, const std::string& text, const bool expect_ok, const int expect_value) {
    KeyParser parser;
    int value = -7;
    std::vector<double> vec;
    parser.add_start_key("Test");
    parser.add_key("number", &value);
    parser.add_key("list", &vec);
    parser.add_stop_key("END");
    std::istringstream in(text);
    bool ok = false, threw = false;
    try
      {
        ok = parser.parse(in);
      }
    catch (...)
      {
        threw = true;
      }
    std::cout << what << ": " << (threw ? "aborted by error()" : (ok ? "parsed" : "parse returned false")) << ", number = " << value << "\n";
    if (expect_ok != (ok && !threw) || (expect_ok && value != expect_value))
      ++bad;
  };
  run("comment with [text]", "Test :=\n; this comment mentions [Smith et al] := x\nnumber := 3\nEND :=\n", true, 3);
  run("unknown key with [mm]", "Test :=\nsome unknown key [mm] := 3\nnumber := 4\nEND :=\n", true, 4);
  run("known key with [abc]", "Test :=\nnumber[abc] := 5\nEND :=\n", false, 0);
  std::cout << (bad ? "DEVIATIONS " : "ok ") << bad << "\n";
  return bad;
}
