// triage replay (not a check): ProjMatrixByBinUsingRayTracing::set_up called again for an image with the same voxel size
// and origin but a different index range
#include "stir/recon_buildblock/ProjMatrixByBinUsingRayTracing.h"
#include "stir/recon_buildblock/ProjMatrixElemsForOneBin.h"
#include "stir/ProjDataInfo.h"
#include "stir/Scanner.h"
#include "stir/VoxelsOnCartesianGrid.h"
#include "stir/IndexRange3D.h"
#include "stir/Bin.h"
#include <iostream>
using namespace stir;
static shared_ptr<VoxelsOnCartesianGrid<float>> make_image(const ProjDataInfo& pdi, int half_xy)
{
  const float vs = 2.F;
  const int nz = 2 * pdi.get_scanner_ptr()->get_num_rings() - 1;
  return shared_ptr<VoxelsOnCartesianGrid<float>>(new VoxelsOnCartesianGrid<float>(
      IndexRange3D(0, nz - 1, -half_xy, half_xy, -half_xy, half_xy), CartesianCoordinate3D<float>(0, 0, 0),
      CartesianCoordinate3D<float>(pdi.get_scanner_ptr()->get_ring_spacing() / 2, vs, vs)));
}
static std::size_t row_size(ProjMatrixByBin& m, const Bin& b)
{
  ProjMatrixElemsForOneBin row;
  m.get_proj_matrix_elems_for_one_bin(row, b);
  return row.size();
}
int main()
{
  shared_ptr<Scanner> scanner(new Scanner(Scanner::E953));
  shared_ptr<ProjDataInfo> pdi(ProjDataInfo::ProjDataInfoCTI(scanner, 1, 0, 16, 32, false));
  auto small = make_image(*pdi, 5);
  auto large = make_image(*pdi, 40);
  const Bin bin(0, 0, 3, 0);
  ProjMatrixByBinUsingRayTracing reused;
  reused.set_up(pdi, small);
  const std::size_t n_small = row_size(reused, bin);
  reused.set_up(pdi, large); // set up again for another image grid
  const std::size_t n_reused = row_size(reused, bin);
  ProjMatrixByBinUsingRayTracing fresh;
  fresh.set_up(pdi, large);
  const std::size_t n_fresh = row_size(fresh, bin);
  std::cout << "row size: small image " << n_small << ", re-set-up for large image " << n_reused << ", fresh matrix for large image " << n_fresh << "\n";
  return n_reused == n_fresh ? 0 : 1;
}
