// F62: real-data DFT of (real) length 2 - forward works, inverse refused the length ("can only handle arrays of even length")
#include "stir/Array.h"
#include "stir/numerics/fourier.h"
#include "stir/IndexRange2D.h"
#include <iostream>
#include <cmath>
using namespace stir;
int main()
{
  int bad = 0;
  {
    Array<1, float> v(2);
    v[0] = 1.5F; v[1] = -0.25F;
    Array<1, std::complex<float>> c = fourier_for_real_data(v);
    std::cout << "forward: " << c[0] << " " << c[1] << "\n";
    try
      {
        Array<1, float> back = inverse_fourier_for_real_data(c);
        std::cout << "inverse: " << back[0] << " " << back[1] << "\n";
        if (std::fabs(back[0] - v[0]) > 1e-6 || std::fabs(back[1] - v[1]) > 1e-6)
          ++bad;
      }
    catch (std::exception& e)
      {
        std::cout << "inverse of length 2 threw: " << e.what() << "\n";
        ++bad;
      }
  }
  {
    Array<2, float> v(IndexRange2D(4, 2));
    for (int i = 0; i < 4; ++i)
      for (int j = 0; j < 2; ++j)
        v[i][j] = 0.3F * i - 1.1F * j + i * j;
    Array<2, std::complex<float>> c = fourier_for_real_data(v);
    try
      {
        Array<2, float> back = inverse_fourier_for_real_data(c);
        double d = 0;
        for (int i = 0; i < 4; ++i)
          for (int j = 0; j < 2; ++j)
            d = std::max(d, (double)std::fabs(back[i][j] - v[i][j]));
        std::cout << "4x2 round trip max difference " << d << "\n";
        if (d > 1e-5)
          ++bad;
      }
    catch (std::exception& e)
      {
        std::cout << "inverse of 4x2 threw: " << e.what() << "\n";
        ++bad;
      }
  }
  std::cout << (bad ? "DEVIATIONS " : "ok ") << bad << "\n";
  return bad;
}
