/*
  Probe for things that already look wrong in the UNMODIFIED tree w.r.t. the property
  "Matched projector pairs are linear, adjoint and additive over pieces".
  (Not part of the seed; informational only. It prints OBSERVED/not observed lines, exit code
  is the number of observations.)

  1. PresmoothingForwardProjectorByBin does not override set_input(): the image never reaches the
     wrapped projector, which keeps projecting the image it was given at set_up() (and the filter is
     never applied to what is projected). So the output does not depend on the input image.
  2. PostsmoothingBackProjectorByBin: back_project() accumulates in the wrapped projector's target, but
     start_accumulating_in_new_target()/get_output() act on the wrapper's own (always zero) target.
     The output is always zero, and the wrapped projector's target is never reset.
  3. ForwardProjectorByBinUsingRayTracing adds to (+=) the viewgrams it is given, whereas the documentation
     says "it overwrites the data already present" and ForwardProjectorByBinUsingProjMatrixByBin overwrites.
  4. (checked, NOT observed) ForwardProjectorByBinUsingRayTracing has no TOF code at all; the probe checks if it
     silently ignores TOF. It does not: for TOF data it stops with the (misleading) message
     "error in symmetries. Check 3D case", so TOF is refused rather than projected wrongly.
*/
#include "stir/Scanner.h"
#include "stir/ExamInfo.h"
#include "stir/ImagingModality.h"
#include "stir/ProjDataInfo.h"
#include "stir/ProjDataInMemory.h"
#include "stir/RelatedViewgrams.h"
#include "stir/VoxelsOnCartesianGrid.h"
#include "stir/Verbosity.h"
#include "stir/SeparableCartesianMetzImageFilter.h"
#include "stir/recon_buildblock/ForwardProjectorByBinUsingRayTracing.h"
#include "stir/recon_buildblock/ForwardProjectorByBinUsingProjMatrixByBin.h"
#include "stir/recon_buildblock/BackProjectorByBinUsingProjMatrixByBin.h"
#include "stir/recon_buildblock/PresmoothingForwardProjectorByBin.h"
#include "stir/recon_buildblock/PostsmoothingBackProjectorByBin.h"
#include "stir/recon_buildblock/ProjMatrixByBinUsingRayTracing.h"
#include "stir/DataSymmetriesForViewSegmentNumbers.h"

#include <random>
#include <iostream>
#include <sstream>
#include <cmath>
#include <algorithm>

using namespace stir;

static int num_observed = 0;

static void
observe(const bool observed, const std::string& what)
{
  std::cout << (observed ? "OBSERVED      " : "not observed  ") << what << "\n";
  if (observed)
    ++num_observed;
}

static double
max_abs(const ProjData& a)
{
  double m = 0;
  for (int seg = a.get_min_segment_num(); seg <= a.get_max_segment_num(); ++seg)
    for (int k = a.get_min_tof_pos_num(); k <= a.get_max_tof_pos_num(); ++k)
      {
        const SegmentByView<float> s = a.get_segment_by_view(seg, k);
        for (auto i = s.begin_all(); i != s.end_all(); ++i)
          m = std::max(m, static_cast<double>(std::fabs(*i)));
      }
  return m;
}

static double
max_abs_diff(const ProjData& a, const ProjData& b)
{
  double m = 0;
  for (int seg = a.get_min_segment_num(); seg <= a.get_max_segment_num(); ++seg)
    for (int k = a.get_min_tof_pos_num(); k <= a.get_max_tof_pos_num(); ++k)
      {
        const SegmentByView<float> sa = a.get_segment_by_view(seg, k);
        const SegmentByView<float> sb = b.get_segment_by_view(seg, k);
        auto ib = sb.begin_all();
        for (auto ia = sa.begin_all(); ia != sa.end_all(); ++ia, ++ib)
          m = std::max(m, static_cast<double>(std::fabs(*ia - *ib)));
      }
  return m;
}

static shared_ptr<DataProcessor<DiscretisedDensity<3, float>>>
make_filter(const float fwhm)
{
  shared_ptr<DataProcessor<DiscretisedDensity<3, float>>> filter_sptr(new SeparableCartesianMetzImageFilter<float>);
  std::stringstream s;
  s << "Separable Cartesian Metz Filter Parameters :=\n"
    << "x-dir filter FWHM (in mm):= " << fwhm << "\n"
    << "y-dir filter FWHM (in mm):= " << fwhm << "\n"
    << "z-dir filter FWHM (in mm):= " << fwhm << "\n"
    << "x-dir filter Metz power:= .0\n"
    << "y-dir filter Metz power:= .0\n"
    << "z-dir filter Metz power:=.0\n"
    << "END Separable Cartesian Metz Filter Parameters :=\n";
  filter_sptr->parse(s);
  return filter_sptr;
}

static shared_ptr<Scanner>
make_scanner(const bool tof)
{
  const int num_rings = 4, num_detectors_per_ring = 32;
  return shared_ptr<Scanner>(new Scanner(Scanner::User_defined_scanner,
                                         std::string("probe_scanner"),
                                         num_detectors_per_ring,
                                         num_rings,
                                         15,
                                         15,
                                         150.F,
                                         0.F,
                                         6.F,
                                         3.F,
                                         0.F,
                                         1,
                                         1,
                                         num_rings,
                                         num_detectors_per_ring,
                                         num_rings,
                                         num_detectors_per_ring,
                                         1,
                                         -1.F,
                                         -1.F,
                                         static_cast<short int>(tof ? 5 : -1),
                                         tof ? 400.F : -1.F,
                                         tof ? 600.F : -1.F));
}

int
main()
{
  Verbosity::set(0);
  std::mt19937 gen(42);
  std::uniform_real_distribution<float> dist(-1.F, 2.F);

  shared_ptr<ExamInfo> exam_info_sptr(new ExamInfo);
  exam_info_sptr->imaging_modality = ImagingModality::PT;

  {
    shared_ptr<Scanner> scanner_sptr = make_scanner(false);
    shared_ptr<ProjDataInfo> pdi_sptr(ProjDataInfo::construct_proj_data_info(scanner_sptr, 1, 1, 16, 15, false));
    shared_ptr<VoxelsOnCartesianGrid<float>> zero_image_sptr(new VoxelsOnCartesianGrid<float>(exam_info_sptr, *pdi_sptr));
    zero_image_sptr->fill(0.F);
    shared_ptr<VoxelsOnCartesianGrid<float>> x_sptr(zero_image_sptr->clone());
    for (auto i = x_sptr->begin_all(); i != x_sptr->end_all(); ++i)
      *i = dist(gen);

    // 1. Presmoothing wrapper
    try
      {
        shared_ptr<ProjMatrixByBin> pm_sptr(new ProjMatrixByBinUsingRayTracing);
        shared_ptr<ForwardProjectorByBin> orig_sptr(new ForwardProjectorByBinUsingProjMatrixByBin(pm_sptr));
        PresmoothingForwardProjectorByBin wrapper(orig_sptr, make_filter(8.F));
        wrapper.set_up(pdi_sptr, zero_image_sptr); // set_up with an (empty) template image
        ProjDataInMemory y(exam_info_sptr, pdi_sptr);
        y.fill(0.F);
        wrapper.forward_project(y, *x_sptr);
        observe(max_abs(y) == 0.,
                "PresmoothingForwardProjectorByBin: forward projection of a non-zero image is all zero "
                "(the wrapped projector still projects the set_up() image; set_input() is not passed on)");
      }
    catch (...)
      {
        observe(true, "PresmoothingForwardProjectorByBin: forward projection threw an exception");
      }

    // 2. Postsmoothing wrapper
    try
      {
        shared_ptr<ProjMatrixByBin> pm_sptr(new ProjMatrixByBinUsingRayTracing);
        shared_ptr<BackProjectorByBin> orig_sptr(new BackProjectorByBinUsingProjMatrixByBin(pm_sptr));
        PostsmoothingBackProjectorByBin wrapper(orig_sptr, make_filter(8.F));
        wrapper.set_up(pdi_sptr, zero_image_sptr);
        ProjDataInMemory y(exam_info_sptr, pdi_sptr);
        y.fill(1.F);
        shared_ptr<VoxelsOnCartesianGrid<float>> out_sptr(zero_image_sptr->clone());
        wrapper.back_project(*out_sptr, y);
        observe(out_sptr->find_max() == 0.F && out_sptr->find_min() == 0.F,
                "PostsmoothingBackProjectorByBin: back projection of all-ones data is an all-zero image "
                "(accumulated in the wrapped projector, but get_output() reads the wrapper's own target)");
      }
    catch (...)
      {
        observe(true, "PostsmoothingBackProjectorByBin: back projection threw an exception");
      }

    // 3. += versus overwrite
    {
      ForwardProjectorByBinUsingRayTracing on_the_fly;
      on_the_fly.set_up(pdi_sptr, zero_image_sptr);
      on_the_fly.set_input(*x_sptr);
      ProjDataInMemory templ(exam_info_sptr, pdi_sptr);
      shared_ptr<DataSymmetriesForViewSegmentNumbers> symm_sptr(on_the_fly.get_symmetries_used()->clone());
      stir::RelatedViewgrams<float> once = templ.get_empty_related_viewgrams(ViewSegmentNumbers(1, 0), symm_sptr);
      stir::RelatedViewgrams<float> twice = once;
      on_the_fly.forward_project(once);
      on_the_fly.forward_project(twice);
      on_the_fly.forward_project(twice);
      double d = 0;
      auto v2 = twice.begin();
      for (auto v1 = once.begin(); v1 != once.end(); ++v1, ++v2)
        {
          auto i2 = v2->begin_all();
          for (auto i1 = v1->begin_all(); i1 != v1->end_all(); ++i1, ++i2)
            d = std::max(d, static_cast<double>(std::fabs(*i1 - *i2)));
        }
      observe(d > 1.E-3,
              "ForwardProjectorByBinUsingRayTracing::forward_project(viewgrams) called twice on the same viewgrams doubles "
              "them (it adds instead of 'overwrites the data already present')");
    }
  }

  // 4. TOF ignored by the on-the-fly projector
  try
    {
      shared_ptr<Scanner> scanner_sptr = make_scanner(true);
      shared_ptr<ProjDataInfo> pdi_sptr(ProjDataInfo::construct_proj_data_info(scanner_sptr, 1, 1, 16, 15, false, 1));
      std::cout << "TOF data: " << pdi_sptr->get_num_tof_poss() << " TOF bins\n";
      if (pdi_sptr->get_num_tof_poss() > 1)
        {
          shared_ptr<VoxelsOnCartesianGrid<float>> x_sptr(new VoxelsOnCartesianGrid<float>(exam_info_sptr, *pdi_sptr));
          for (auto i = x_sptr->begin_all(); i != x_sptr->end_all(); ++i)
            *i = dist(gen);
          ForwardProjectorByBinUsingRayTracing on_the_fly;
          shared_ptr<ProjMatrixByBin> pm_sptr(new ProjMatrixByBinUsingRayTracing);
          ForwardProjectorByBinUsingProjMatrixByBin via_matrix(pm_sptr);
          on_the_fly.set_up(pdi_sptr, x_sptr);
          via_matrix.set_up(pdi_sptr, x_sptr);
          ProjDataInMemory y1(exam_info_sptr, pdi_sptr), y2(exam_info_sptr, pdi_sptr);
          y1.fill(0.F);
          y2.fill(0.F);
          on_the_fly.forward_project(y1, *x_sptr);
          via_matrix.forward_project(y2, *x_sptr);
          const double d = max_abs_diff(y1, y2);
          std::cout << "   max abs diff on-the-fly vs matrix for TOF data: " << d << " (max abs value " << max_abs(y2) << ")\n";
          observe(d > 1.E-3 * max_abs(y2),
                  "ForwardProjectorByBinUsingRayTracing on TOF data differs from the ray-tracing matrix "
                  "(TOF is silently ignored, no error)");
        }
    }
  catch (...)
    {
      std::cout << "TOF probe threw an exception (so TOF is refused rather than silently ignored)\n";
    }

  return num_observed;
}
