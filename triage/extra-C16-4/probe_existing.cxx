// Probes of the UNMODIFIED library for seed C16-4: behaviour that already deviates from
// "after any sequence of changes ... followed by set_up() the result equals a freshly configured simulation".
// Prints what it sees, exit code = number of deviations.
#include "sim_helpers.h"
#include <cstdio>
#include <unistd.h>
#include <sys/wait.h>

using namespace seed;

// gives access to the protected per-detector-pair interface
class Exposed : public SingleScatterSimulation
{
public:
  double pair(unsigned a, unsigned b)
  {
    double r = 0;
    this->actual_scatter_estimate(r, a, b);
    return r;
  }
  unsigned num_dets_seen() const { return static_cast<unsigned>(this->detection_points_vector.size()); }
};

static Config
base_config()
{
  Config c;
  c.full_template = make_full_template();
  c.exam = make_exam();
  shared_ptr<Image> activity = make_fine_image();
  fill_random_activity(*activity, 1);
  shared_ptr<Image> attenuation = make_fine_image();
  fill_cylinder(*attenuation, 125.F, 0.096F);
  // scatter-point image with two different mu values, such that a threshold can select
  shared_ptr<Image> scatter_points = make_coarse_image();
  fill_cylinder(*scatter_points, 125.F, 0.096F);
  (*scatter_points)[1][0][0] = 0.03F;
  (*scatter_points)[1][1][0] = 0.03F;
  (*scatter_points)[0][0][1] = 0.03F;
  c.activity = activity;
  c.attenuation = attenuation;
  c.scatter_points = scatter_points;
  return c;
}

static int
report(const char* what, double d, double tol = 1.E-4)
{
  std::printf("   %s: rel. diff. %g -> %s\n", what, d, d > tol ? "DEVIATION" : "ok");
  return d > tol ? 1 : 0;
}

int
main()
{
  Verbosity::set(0);
  int deviations = 0;

  // ---------------------------------------------------------------------------------------
  std::printf("Probe 0: exchange symmetry / non-negativity / cache on-off on the unmodified code (sanity)\n");
  try
    {
      Config c = base_config();
      Exposed sim;
      configure(sim, c);
      const std::vector<float> with_cache = compute(sim);
      double worst = 0, most_negative = 0, largest = 0;
      for (unsigned a = 0; a < sim.num_dets_seen(); ++a)
        for (unsigned b = 0; b < sim.num_dets_seen(); ++b)
          {
            if (a == b)
              continue;
            const double ab = sim.pair(a, b), ba = sim.pair(b, a);
            if (!(ab == ab) || !(ba == ba))
              continue; // nan for degenerate pairs
            largest = std::max(largest, std::fabs(ab));
            worst = std::max(worst, std::fabs(ab - ba));
            most_negative = std::min(most_negative, std::min(ab, ba));
          }
      std::printf("   %u detectors, largest pair value %g, most negative %g\n", sim.num_dets_seen(), largest, most_negative);
      deviations += report("exchange of detectors", largest > 0 ? worst / largest : worst, 1.E-5);
      if (most_negative < 0)
        {
          std::printf("   negative estimate -> DEVIATION\n");
          ++deviations;
        }
      c.use_cache = false;
      deviations += report("cache off versus on", rel_diff(compute_fresh(c), with_cache), 1.E-6);
    }
  catch (...)
    {
      std::printf("   exception -> DEVIATION\n");
      ++deviations;
    }

  // ---------------------------------------------------------------------------------------
  std::printf("Probe 1: set_attenuation_threshold() after the scatter-point image was set, then set_up()\n");
  try
    {
      Config c = base_config();
      SingleScatterSimulation sim;
      configure(sim, c); // default threshold 0.01: all voxels in the cylinder are scatter points
      const int n_before = sim.get_num_scatter_points();
      sim.set_attenuation_threshold(0.05F);
      const std::vector<float> hist = compute(sim);
      const int n_hist = sim.get_num_scatter_points();

      SingleScatterSimulation fresh;
      fresh.set_attenuation_threshold(0.05F);
      configure(fresh, c);
      const std::vector<float> ref = compute(fresh);
      std::printf("   scatter points: before %d, after changing threshold + set_up %d, fresh object with that threshold %d\n",
                  n_before,
                  n_hist,
                  fresh.get_num_scatter_points());
      deviations += report("threshold changed after scatter-point image versus fresh", rel_diff(hist, ref));
    }
  catch (...)
    {
      std::printf("   exception -> DEVIATION\n");
      ++deviations;
    }

  // ---------------------------------------------------------------------------------------
  std::printf("Probe 1b: set_randomly_place_scatter_points(false) after the scatter-point image was set, then set_up()\n");
  try
    {
      Config c = base_config();
      SingleScatterSimulation sim; // default: random placement on
      sim.set_use_cache(true);
      apply_template(sim, c);
      sim.set_activity_image_sptr(c.activity);
      sim.set_density_image_sptr(c.attenuation);
      sim.set_density_image_for_scatter_points_sptr(c.scatter_points); // samples (randomly displaced) points now
      sim.set_randomly_place_scatter_points(false);
      const std::vector<float> hist = compute(sim);
      const std::vector<float> ref = compute_fresh(c); // switches random placement off first
      deviations += report("random placement switched off after scatter-point image versus fresh", rel_diff(hist, ref));
    }
  catch (...)
    {
      std::printf("   exception -> DEVIATION\n");
      ++deviations;
    }

  // ---------------------------------------------------------------------------------------
  std::printf("Probe 2: change of template after set_up() made the scatter-point image itself (zooms chosen from the template)\n");
  try
    {
      Config c = base_config();
      c.scatter_points.reset(); // let set_up() construct it
      SingleScatterSimulation sim;
      configure(sim, c);
      compute(sim);
      const int n_first = sim.get_num_scatter_points();
      c.down_rings = 6;
      c.down_dets = 32;
      apply_template(sim, c);
      const std::vector<float> hist = compute(sim);
      const int n_hist = sim.get_num_scatter_points();
      SingleScatterSimulation fresh;
      configure(fresh, c);
      const std::vector<float> ref = compute(fresh);
      std::printf("   scatter points: first template %d, after new template + set_up %d, fresh object with new template %d\n",
                  n_first,
                  n_hist,
                  fresh.get_num_scatter_points());
      deviations += report("template changed versus fresh", rel_diff(hist, ref));
    }
  catch (...)
    {
      std::printf("   exception -> DEVIATION\n");
      ++deviations;
    }

  // ---------------------------------------------------------------------------------------
  std::printf("Probe 3: set_image_downsample_factors() after set_up() made the scatter-point image, then set_up()\n");
  try
    {
      Config c = base_config();
      c.scatter_points.reset();
      SingleScatterSimulation sim;
      configure(sim, c);
      compute(sim);
      const int n_first = sim.get_num_scatter_points();
      sim.set_image_downsample_factors(0.3F, 0.5F, -1, -1);
      const std::vector<float> hist = compute(sim);
      const int n_hist = sim.get_num_scatter_points();
      SingleScatterSimulation fresh;
      fresh.set_image_downsample_factors(0.3F, 0.5F, -1, -1);
      configure(fresh, c);
      const std::vector<float> ref = compute(fresh);
      std::printf("   scatter points: default zooms %d, after new zooms + set_up %d, fresh object with new zooms %d\n",
                  n_first,
                  n_hist,
                  fresh.get_num_scatter_points());
      deviations += report("zoom factors changed versus fresh", rel_diff(hist, ref));
    }
  catch (...)
    {
      std::printf("   exception -> DEVIATION\n");
      ++deviations;
    }

  // ---------------------------------------------------------------------------------------
  std::printf("Probe 4: set_cache_enabled(true) on an object that was set up with the cache disabled (run in a child process)\n");
  {
    std::fflush(stdout);
    const pid_t pid = fork();
    if (pid == 0)
      {
        int child_dev = 0;
        try
          {
            Config c = base_config();
            c.use_cache = false;
            SingleScatterSimulation sim;
            configure(sim, c);
            const std::vector<float> ref = compute(sim);
            sim.set_cache_enabled(true); // does not reset _already_set_up, caches have never been allocated
            shared_ptr<ProjDataInMemory> out(
                new ProjDataInMemory(sim.get_exam_info_sptr(), sim.get_template_proj_data_info_sptr()->create_shared_clone()));
            sim.set_output_proj_data_sptr(out);
            sim.process_data(); // accepted without a new set_up()
            std::vector<float> v;
            for (int seg = out->get_min_segment_num(); seg <= out->get_max_segment_num(); ++seg)
              {
                const SegmentByView<float> s = out->get_segment_by_view(seg);
                for (auto iter = s.begin_all(); iter != s.end_all(); ++iter)
                  v.push_back(*iter);
              }
            child_dev = report("process_data() after set_cache_enabled(true) without set_up", rel_diff(v, ref));
          }
        catch (...)
          {
            std::printf("   exception\n");
            child_dev = 1;
          }
        std::fflush(stdout);
        _exit(child_dev ? 1 : 0);
      }
    int status = 0;
    waitpid(pid, &status, 0);
    if (WIFSIGNALED(status))
      {
        std::printf("   child killed by signal %d (out-of-range access in the never-allocated cache) -> DEVIATION\n", WTERMSIG(status));
        ++deviations;
      }
    else if (WEXITSTATUS(status) != 0)
      ++deviations;
  }

  // ---------------------------------------------------------------------------------------
  std::printf("Probe 5: scatter-point image given before the attenuation image is silently discarded\n");
  try
    {
      Config c = base_config();
      SingleScatterSimulation sim;
      sim.set_randomly_place_scatter_points(false);
      apply_template(sim, c);
      sim.set_activity_image_sptr(c.activity);
      sim.set_density_image_for_scatter_points_sptr(c.scatter_points);
      const int n_given = sim.get_num_scatter_points();
      sim.set_density_image_sptr(c.attenuation);
      const std::vector<float> hist = compute(sim);
      const int n_hist = sim.get_num_scatter_points();
      const std::vector<float> ref = compute_fresh(c);
      std::printf("   scatter points of the given image %d, used after set_up %d\n", n_given, n_hist);
      deviations += report("same four inputs, scatter-point image set before attenuation image, versus after", rel_diff(hist, ref));
    }
  catch (...)
    {
      std::printf("   exception -> DEVIATION\n");
      ++deviations;
    }

  std::printf("%d deviations\n", deviations);
  return deviations;
}
