// Small helpers shared by demo.cxx and extra/probe_existing.cxx:
// a tiny down-sampled scanner, small images and a "configure + compute" routine.
#ifndef SEED_SIM_HELPERS_H
#define SEED_SIM_HELPERS_H

#include "stir/scatter/SingleScatterSimulation.h"
#include "stir/ProjDataInMemory.h"
#include "stir/ProjDataInfo.h"
#include "stir/ProjDataInfoCylindricalNoArcCorr.h"
#include "stir/Scanner.h"
#include "stir/ExamInfo.h"
#include "stir/VoxelsOnCartesianGrid.h"
#include "stir/IndexRange3D.h"
#include "stir/SegmentByView.h"
#include "stir/Succeeded.h"
#include "stir/Verbosity.h"
#include <vector>
#include <cmath>
#include <iostream>
#include <algorithm>

namespace seed
{
using namespace stir;
typedef VoxelsOnCartesianGrid<float> Image;

// full-size template: ECAT 931 (8 rings, 512 detectors), energy information added
inline shared_ptr<ProjDataInfo>
make_full_template(float energy_resolution = 0.34F, int max_ring_diff = 7)
{
  shared_ptr<Scanner> scanner(new Scanner(Scanner::E931));
  scanner->set_reference_energy(511.F);
  scanner->set_energy_resolution(energy_resolution);
  return shared_ptr<ProjDataInfo>(ProjDataInfo::ProjDataInfoCTI(scanner,
                                                                 1,
                                                                 max_ring_diff,
                                                                 scanner->get_num_detectors_per_ring() / 2,
                                                                 scanner->get_max_num_non_arccorrected_bins(),
                                                                 false));
}

inline shared_ptr<ExamInfo>
make_exam(float low = 450.F, float high = 650.F)
{
  shared_ptr<ExamInfo> exam(new ExamInfo);
  exam->set_low_energy_thres(low);
  exam->set_high_energy_thres(high);
  exam->imaging_modality = ImagingModality::PT;
  return exam;
}

// 7 planes of 13.5mm, 21x21 voxels of 15mm. (z-middle at 40.5mm)
inline shared_ptr<Image>
make_fine_image()
{
  return shared_ptr<Image>(new Image(IndexRange3D(0, 6, -10, 10, -10, 10),
                                     CartesianCoordinate3D<float>(0.F, 0.F, 0.F),
                                     CartesianCoordinate3D<float>(13.5F, 15.F, 15.F)));
}

// 3 planes of 40.5mm, 5x5 voxels of 60mm. (z-middle at 40.5mm, consistent with the above)
inline shared_ptr<Image>
make_coarse_image()
{
  return shared_ptr<Image>(new Image(IndexRange3D(0, 2, -2, 2, -2, 2),
                                     CartesianCoordinate3D<float>(0.F, 0.F, 0.F),
                                     CartesianCoordinate3D<float>(40.5F, 60.F, 60.F)));
}

// fills a cylinder (radius in mm) with value
inline void
fill_cylinder(Image& image, float radius, float value)
{
  const CartesianCoordinate3D<float> vs = image.get_voxel_size();
  for (int z = image.get_min_index(); z <= image.get_max_index(); ++z)
    for (int y = image[z].get_min_index(); y <= image[z].get_max_index(); ++y)
      for (int x = image[z][y].get_min_index(); x <= image[z][y].get_max_index(); ++x)
        image[z][y][x] = (std::sqrt((y * vs.y()) * (y * vs.y()) + (x * vs.x()) * (x * vs.x())) <= radius) ? value : 0.F;
}

// deterministic pseudo-random non-negative activity inside a cylinder
inline void
fill_random_activity(Image& image, unsigned seed, float radius = 130.F)
{
  const CartesianCoordinate3D<float> vs = image.get_voxel_size();
  unsigned state = seed * 2654435761u + 12345u;
  for (int z = image.get_min_index(); z <= image.get_max_index(); ++z)
    for (int y = image[z].get_min_index(); y <= image[z].get_max_index(); ++y)
      for (int x = image[z][y].get_min_index(); x <= image[z][y].get_max_index(); ++x)
        {
          state = state * 1664525u + 1013904223u;
          const float r = ((state >> 8) & 0xFFFF) / 65535.F;
          const bool inside = std::sqrt((y * vs.y()) * (y * vs.y()) + (x * vs.x()) * (x * vs.x())) <= radius;
          image[z][y][x] = inside ? (r < 0.5F ? 0.F : 10.F * r) : 0.F;
        }
}

struct Config
{
  shared_ptr<const ProjDataInfo> full_template;
  int down_rings = 4;
  int down_dets = 16;
  shared_ptr<const ExamInfo> exam;
  shared_ptr<const Image> activity;
  shared_ptr<const Image> attenuation;
  shared_ptr<const Image> scatter_points; // can be null: then set_up() will make one
  bool use_cache = true;
};

//! sets template (down-sampled explicitly, such that set_up() can be called repeatedly) and exam info
inline void
apply_template(SingleScatterSimulation& sim, const Config& c)
{
  sim.set_exam_info(*c.exam);
  sim.set_template_proj_data_info(*c.full_template);
  if (sim.downsample_scanner(c.down_rings, c.down_dets) != Succeeded::yes)
    error("downsample_scanner failed");
}

//! configures a simulation object from scratch
inline void
configure(SingleScatterSimulation& sim, const Config& c)
{
  sim.set_randomly_place_scatter_points(false);
  sim.set_use_cache(c.use_cache);
  apply_template(sim, c);
  sim.set_activity_image_sptr(c.activity);
  sim.set_density_image_sptr(c.attenuation);
  if (c.scatter_points)
    sim.set_density_image_for_scatter_points_sptr(c.scatter_points);
}

//! set_up + process_data, returns all output values
inline std::vector<float>
compute(SingleScatterSimulation& sim)
{
  shared_ptr<ProjDataInMemory> out(
      new ProjDataInMemory(sim.get_exam_info_sptr(), sim.get_template_proj_data_info_sptr()->create_shared_clone()));
  sim.set_output_proj_data_sptr(out);
  if (sim.set_up() != Succeeded::yes)
    error("set_up failed");
  sim.process_data(); // (return value only says if all detectors were visited)
  std::vector<float> v;
  for (int seg = out->get_min_segment_num(); seg <= out->get_max_segment_num(); ++seg)
    {
      const SegmentByView<float> s = out->get_segment_by_view(seg);
      for (auto iter = s.begin_all(); iter != s.end_all(); ++iter)
        v.push_back(*iter);
    }
  return v;
}

inline std::vector<float>
compute_fresh(const Config& c)
{
  SingleScatterSimulation sim;
  configure(sim, c);
  return compute(sim);
}

inline double
max_abs(const std::vector<float>& a)
{
  double m = 0;
  for (float x : a)
    m = std::max(m, std::fabs(static_cast<double>(x)));
  return m;
}

//! max |a-b| / max|b|  (or a large number if sizes differ)
inline double
rel_diff(const std::vector<float>& a, const std::vector<float>& b)
{
  if (a.size() != b.size())
    return 1.E30;
  double d = 0;
  for (std::size_t i = 0; i < a.size(); ++i)
    d = std::max(d, std::fabs(static_cast<double>(a[i]) - b[i]));
  const double m = max_abs(b);
  return m > 0 ? d / m : d;
}

} // namespace seed
#endif
