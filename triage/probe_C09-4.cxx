/*
  Probe for things that already look wrong in the UNMODIFIED tree (independent of the seed).

  P1: the explicit constructors RelativeDifferencePrior(only_2D, ...) and LogcoshPrior(only_2D, ...)
      initialise only_2D in the member-initialiser list and then call set_defaults(), which resets
      only_2D to false. A prior constructed with only_2D=true therefore still couples neighbouring planes.

  P2: with user weights whose centre element is non-zero, compute_Hessian / accumulate_Hessian_times_input
      add  w[0][0][0] * derivative_20(x_j, x_j)  to the diagonal, although the (j,j) "pair" contributes
      nothing to the value (value(x,x)==0) nor to the gradient (derivative_10(x,x)==0).
      Hence H.v is no longer the directional derivative of the gradient.

  exit code 0: nothing found, 1: at least one of the above observed.
*/
#include "stir/recon_buildblock/RelativeDifferencePrior.h"
#include "stir/recon_buildblock/LogcoshPrior.h"
#include "stir/VoxelsOnCartesianGrid.h"
#include "stir/IndexRange3D.h"
#include "stir/Succeeded.h"
#include "stir/Verbosity.h"
#include <iostream>
#include <random>
#include <cmath>

using namespace stir;
typedef DiscretisedDensity<3, float> target_type;
static std::mt19937 rng(7);

static shared_ptr<VoxelsOnCartesianGrid<float>>
make_image(float lo, float hi)
{
  shared_ptr<VoxelsOnCartesianGrid<float>> im(new VoxelsOnCartesianGrid<float>(
      IndexRange3D(0, 2, -2, 1, -2, 2), CartesianCoordinate3D<float>(0, 0, 0), CartesianCoordinate3D<float>(2.5F, 3.F, 1.5F)));
  std::uniform_real_distribution<float> u(lo, hi);
  for (auto it = im->begin_all(); it != im->end_all(); ++it)
    *it = u(rng);
  return im;
}

template <class PriorT>
static bool
probe_constructor(PriorT& prior, const char* name)
{
  auto image = make_image(0.5F, 2.F);
  prior.set_up(image);
  shared_ptr<target_type> row(image->get_empty_copy());
  prior.compute_Hessian(*row, make_coordinate(1, 0, 0), *image);
  const float across_planes = (*row)[make_coordinate(0, 0, 0)];
  std::cout << "P1 " << name << " constructed with only_2D=true: weights have " << prior.get_weights().get_length()
            << " plane(s), Hessian entry coupling voxel (1,0,0) with (0,0,0) = " << across_planes << "\n";
  return across_planes != 0.F;
}

template <class PriorT>
static bool
probe_centre_weight(PriorT& prior, const char* name)
{
  auto image = make_image(0.5F, 2.F);
  Array<3, float> w(IndexRange3D(-1, 1, -1, 1, -1, 1));
  w.fill(1.F); // symmetric, but centre weight non-zero
  prior.set_weights(w);
  prior.set_up(image);
  auto dir = make_image(-1.F, 1.F);
  const float h = 2e-3F;
  shared_ptr<target_type> plus(image->clone()), minus(image->clone());
  {
    auto ip = plus->begin_all();
    auto im = minus->begin_all();
    for (auto id = dir->begin_all_const(); id != dir->end_all_const(); ++id, ++ip, ++im)
      {
        *ip += h * *id;
        *im -= h * *id;
      }
  }
  shared_ptr<target_type> gp(image->get_empty_copy()), gm(image->get_empty_copy()), Hd(image->get_empty_copy());
  prior.compute_gradient(*gp, *plus);
  prior.compute_gradient(*gm, *minus);
  *gp -= *gm;
  *gp /= 2.F * h;
  prior.accumulate_Hessian_times_input(*Hd, *image, *dir);
  double worst = 0, scale = 0;
  auto a = gp->begin_all_const();
  for (auto b = Hd->begin_all_const(); b != Hd->end_all_const(); ++a, ++b)
    {
      worst = std::max(worst, std::fabs(double(*a) - double(*b)));
      scale = std::max(scale, std::fabs(double(*b)));
    }
  std::cout << "P2 " << name << " with all-ones 3x3x3 weights (centre weight 1): max |H.dir - d gradient/dt| = " << worst
            << " (scale " << scale << ")\n";
  return worst > 5e-3 * scale;
}

int
main()
{
  Verbosity::set(0);
  bool found = false;
  {
    RelativeDifferencePrior<float> rdp(true, 1.F, 2.F, 0.1F);
    found = probe_constructor(rdp, "RelativeDifferencePrior") || found;
    LogcoshPrior<float> lc(true, 1.F, 1.5F);
    found = probe_constructor(lc, "LogcoshPrior") || found;
  }
  {
    RelativeDifferencePrior<float> rdp(false, 1.F, 2.F, 0.1F);
    found = probe_centre_weight(rdp, "RelativeDifferencePrior") || found;
    LogcoshPrior<float> lc(false, 1.F, 1.5F);
    found = probe_centre_weight(lc, "LogcoshPrior") || found;
  }
  std::cout << (found ? "existing issue(s) observed\n" : "nothing observed\n");
  return found ? 1 : 0;
}
