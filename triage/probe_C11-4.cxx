/*
  Probe for things in the UNMODIFIED tree that look wrong w.r.t. the array property.
  (independent of the seeded change). Each probe prints what it sees; exit code = number of deviations.

  P1: full iteration over an irregular 2D array that has an EMPTY row in the middle
      (FullArrayIterator::operator++ does not skip empty sub-arrays)
  P2: Array<2> += with an operand with a larger outer range after the target was shrunk:
      NumericVectorWithOffset::operator+= calls VectorWithOffset::grow(int,int), which
      re-exposes the rows dropped by the earlier resize with their old contents instead of zeros
  P3: NumericVectorWithOffset += with an EMPTY operand changes the index range of the target
      (empty operand reports min=0,max=-1, which is fed into grow())
*/
#include "stir/Array.h"
#include "stir/IndexRange.h"
#include "stir/Coordinate2D.h"
#include "stir/VectorWithOffset.h"
#include <iostream>

using namespace stir;

int
main()
{
  int deviations = 0;

  // ---------- P1
  {
    VectorWithOffset<IndexRange<1>> rows(0, 2);
    rows[0] = IndexRange<1>(0, 1);
    rows[1] = IndexRange<1>(0, -1); // empty
    rows[2] = IndexRange<1>(0, 1);
    Array<2, float> a{ IndexRange<2>(rows) };
    a[0][0] = 1;
    a[0][1] = 2;
    a[2][0] = 3;
    a[2][1] = 4;
    std::cout << "P1: size_all()=" << a.size_all() << ", full iteration visits:";
    unsigned count = 0;
    float sum = 0;
    for (auto iter = a.begin_all(); iter != a.end_all() && count < 20; ++iter, ++count)
      {
        if (count < 4)
          sum += *iter; // do not dereference more than could be valid
      }
    std::cout << " " << count << " elements (stopped at 20), sum of first 4 = " << sum << " (expected 4 elements, sum 10)\n";
    if (count != 4 || sum != 10)
      {
        ++deviations;
        std::cout << "P1: DEVIATION\n";
      }
  }
  // ---------- P2
  {
    const IndexRange<2> big(Coordinate2D<int>(0, 0), Coordinate2D<int>(3, 1));
    const IndexRange<2> small(Coordinate2D<int>(0, 0), Coordinate2D<int>(1, 1));
    Array<2, float> a(big), b(big);
    a.fill(7.F);
    b.fill(1.F);
    a.resize(small); // rows 2,3 dropped
    a += b;          // grows a again to rows 0..3; new rows should be 0 + 1
    std::cout << "P2: after shrink and += : a[3][0]=" << a[3][0] << " (expected 1), a[0][0]=" << a[0][0] << " (expected 8)\n";
    if (a[3][0] != 1.F || a[0][0] != 8.F)
      {
        ++deviations;
        std::cout << "P2: DEVIATION\n";
      }
  }
  // ---------- P3
  {
    Array<1, float> a(3, 5), e;
    a.fill(2.F);
    a += e;
    std::cout << "P3: [3,5] += empty gives range [" << a.get_min_index() << "," << a.get_max_index() << "] (expected [3,5])\n";
    if (a.get_min_index() != 3 || a.get_max_index() != 5)
      {
        ++deviations;
        std::cout << "P3: DEVIATION\n";
      }
  }
  return deviations;
}
