/*
  Probe of the UNMODIFIED library for cases that the property
  "Text and header input is parsed faithfully or rejected, never mis-handled"
  covers but that the current code gets wrong.

  Every case runs in a forked child. The child returns
     0  : behaviour as the property demands (parsed consistently, or rejected via error()/warning)
     1  : deviation observed by the probe itself (silently wrong value / inconsistent object)
     77 : AddressSanitizer report (the parser sources are compiled into this program with
          -fsanitize=address, see build_probe.sh)
  or is killed by a signal. The parent prints what happened and exits with the number of
  deviations.
*/
#include "stir/KeyParser.h"
#include "stir/IO/InterfileHeader.h"
#include "stir/IO/InterfilePDFSHeaderSPECT.h"
#include "stir/IO/interfile.h"
#include "stir/ProjDataFromStream.h"
#include "stir/ProjDataInfo.h"
#include "stir/Scanner.h"
#include "stir/ExamInfo.h"
#include "stir/Succeeded.h"
#include "stir/Verbosity.h"
#include <iostream>
#include <fstream>
#include <sstream>
#include <string>
#include <vector>
#include <cstdio>
#include <cstdlib>
#include <cstring>
#include <unistd.h>
#include <fcntl.h>
#include <sys/wait.h>

using namespace stir;

extern "C" const char*
__asan_default_options()
{
  return "exitcode=77:detect_leaks=0:abort_on_error=0:allocator_may_return_null=1";
}

//////////////////////////////////////////////////////////////// helpers

class ProbeKP : public KeyParser
{
public:
  ProbeKP()
      : scalar_v(-1),
        vector_v(3, -1),
        colon_v(3, -1)
  {
    add_start_key("start");
    add_stop_key("stop");
    add_key("scalar value", &scalar_v);
    add_vectorised_key("vector value", &vector_v);
    add_vectorised_key("time: frame value", &colon_v);
    add_key("names", &names);
  }
  int scalar_v;
  std::vector<int> vector_v;
  std::vector<int> colon_v;
  std::vector<std::string> names;
};

static std::string
vec2str(const std::vector<int>& v)
{
  std::ostringstream s;
  s << '{';
  for (std::size_t i = 0; i < v.size(); ++i)
    s << (i ? "," : "") << v[i];
  s << '}';
  return s.str();
}

// returns 0 if rejected (exception) or nothing stored, 1 if something was stored silently
static int
kp_index_case(const std::string& line)
{
  ProbeKP kp;
  std::stringstream s;
  s << "start :=\n" << line << "\nstop :=\n";
  try
    {
      const bool ok = kp.parse(s);
      std::cout << "   '" << line << "' -> parse returned " << ok << ", scalar=" << kp.scalar_v << " vector=" << vec2str(kp.vector_v)
                << " colon-vector=" << vec2str(kp.colon_v) << std::endl;
      if (kp.scalar_v != -1 || kp.vector_v != std::vector<int>(3, -1))
        return 1;
      return 0;
    }
  catch (std::exception& e)
    {
      std::cout << "   '" << line << "' -> rejected (" << std::string(e.what()).substr(0, 60) << "...)" << std::endl;
      return 0;
    }
}

static const char* const pet_image_header = "!INTERFILE :=\n"
                                            "name of data file := probe.v\n"
                                            "!GENERAL DATA :=\n"
                                            "!GENERAL IMAGE DATA :=\n"
                                            "!type of data := PET\n"
                                            "imagedata byte order := LITTLEENDIAN\n"
                                            "!PET STUDY (General) :=\n"
                                            "!PET data type := Image\n"
                                            "process status := Reconstructed\n"
                                            "!number format := float\n"
                                            "!number of bytes per pixel := 4\n"
                                            "number of dimensions := 3\n"
                                            "matrix axis label [1] := x\n"
                                            "!matrix size [1] := 4\n"
                                            "scaling factor (mm/pixel) [1] := 1\n"
                                            "matrix axis label [2] := y\n"
                                            "!matrix size [2] := 4\n"
                                            "scaling factor (mm/pixel) [2] := 1\n"
                                            "matrix axis label [3] := z\n"
                                            "!matrix size [3] := 2\n"
                                            "scaling factor (mm/pixel) [3] := 1\n"
                                            "number of time frames := 1\n"
                                            "!END OF INTERFILE :=\n";

static const char* const spect_header = "!INTERFILE  :=\n"
                                        "!imaging modality := nucmed\n"
                                        "!version of keys := 3.3\n"
                                        "name of data file := input.s\n"
                                        "!GENERAL IMAGE DATA :=\n"
                                        "!type of data := Tomographic\n"
                                        "imagedata byte order := LITTLEENDIAN\n"
                                        "!number format := float\n"
                                        "!number of bytes per pixel := 4\n"
                                        "!SPECT STUDY (General) := \n"
                                        "!matrix size [2] := 6\n"
                                        "!scaling factor (mm/pixel) [2] := 3.32\n"
                                        "!matrix size [1] := 12\n"
                                        "!scaling factor (mm/pixel) [1] := 3.32\n"
                                        "!number of projections := 12\n"
                                        "!extent of rotation := 360\n"
                                        "!process status := acquired\n"
                                        "!SPECT STUDY (acquired data) :=\n"
                                        "!direction of rotation := CW\n"
                                        "start angle := 180\n"
                                        "orbit := circular\n"
                                        "radius := 150\n"
                                        "!END OF INTERFILE :=\n";

static bool
replace_first(std::string& s, const std::string& from, const std::string& to)
{
  const std::string::size_type pos = s.find(from);
  if (pos == std::string::npos)
    {
      std::cout << "   probe internal problem: '" << from << "' not found\n";
      return false;
    }
  s.replace(pos, from.size(), to);
  return true;
}

// delete the whole line that contains \a what
static bool
delete_line(std::string& s, const std::string& what)
{
  const std::string::size_type pos = s.find(what);
  if (pos == std::string::npos)
    {
      std::cout << "   probe internal problem: '" << what << "' not found\n";
      return false;
    }
  std::string::size_type b = s.rfind('\n', pos);
  b = (b == std::string::npos) ? 0 : b + 1;
  std::string::size_type e = s.find('\n', pos);
  e = (e == std::string::npos) ? s.size() : e + 1;
  s.erase(b, e - b);
  return true;
}

// non-TOF projection data header as written by the library
static std::string
written_pdfs_header(const std::string& dir)
{
  shared_ptr<Scanner> scanner_sptr(new Scanner(Scanner::E953));
  shared_ptr<ProjDataInfo> pdi_sptr(ProjDataInfo::construct_proj_data_info(scanner_sptr,
                                                                           /*span*/ 1,
                                                                           /*max_delta*/ 1,
                                                                           /*views*/ 8,
                                                                           /*tang*/ 9,
                                                                           /*arc corrected*/ false));
  shared_ptr<ExamInfo> exam_info_sptr(new ExamInfo(ImagingModality::PT));
  shared_ptr<std::iostream> data_sptr(new std::stringstream);
  ProjDataFromStream pdfs(exam_info_sptr, pdi_sptr, data_sptr);
  const std::string hname = dir + "/probe.hs";
  if (write_basic_interfile_PDFS_header(hname, dir + "/probe.s", pdfs) != Succeeded::yes)
    {
      std::cout << "cannot write header\n";
      std::exit(99);
    }
  std::ifstream in(hname.c_str());
  std::stringstream all;
  all << in.rdbuf();
  return all.str();
}

static std::string tmpdir;

//////////////////////////////////////////////////////////////// the cases

// 1. malformed indices of vectorised keys are accepted and stored "somewhere"
static int
case_index_trailing_garbage()
{
  return kp_index_case("vector value[2abc] := 7");
}
static int
case_index_overflow()
{
  return kp_index_case("vector value[4294967298] := 7");
}
static int
case_index_fraction()
{
  return kp_index_case("vector value[1.9] := 7");
}
static int
case_index_zero_on_scalar()
{
  return kp_index_case("scalar value[0] := 7");
}
static int
case_index_non_numeric_on_scalar()
{
  return kp_index_case("scalar value[x] := 7");
}

// 2. get_keyword() allows ':' inside a keyword, get_index() does not
static int
case_colon_in_vectorised_keyword()
{
  ProbeKP kp;
  std::stringstream s;
  s << "start :=\ntime: frame value[2] := 5\nstop :=\n";
  try
    {
      const bool ok = kp.parse(s);
      std::cout << "   parse returned " << ok << ", colon-vector=" << vec2str(kp.colon_v) << std::endl;
      return (ok && kp.colon_v[1] == 5) ? 0 : 1;
    }
  catch (std::exception& e)
    {
      std::cout << "   valid line 'time: frame value[2] := 5' rejected: " << std::string(e.what()).substr(0, 90) << std::endl;
      return 1;
    }
}

// 3. list of strings: a truncated list silently loses the last character; white space is not trimmed
static int
case_string_list_truncated()
{
  ProbeKP kp;
  std::stringstream s;
  s << "start :=\nnames := {alpha, beta\nstop :=\n";
  kp.parse(s);
  std::cout << "   'names := {alpha, beta' gives " << kp.names.size() << " names:";
  for (auto& n : kp.names)
    std::cout << " '" << n << "'";
  std::cout << std::endl;
  return (kp.names.size() == 2 && kp.names[1] == "beta") || kp.names.empty() ? 0 : 1;
}
static int
case_string_list_whitespace()
{
  ProbeKP kp;
  std::stringstream s;
  s << "start :=\nnames := {alpha , beta }\nstop :=\n";
  kp.parse(s);
  std::cout << "   'names := {alpha , beta }' gives:";
  for (auto& n : kp.names)
    std::cout << " '" << n << "'";
  std::cout << std::endl;
  return (kp.names.size() == 2 && kp.names[0] == "alpha" && kp.names[1] == "beta") ? 0 : 1;
}

// 4. unknown value for 'PET data type' gives index -1 that is used to index a vector
static int
case_pet_data_type_unknown()
{
  std::string h = pet_image_header;
  replace_first(h, "!PET data type := Image", "!PET data type := Imagee");
  InterfileImageHeader hdr;
  std::stringstream s(h);
  try
    {
      const bool ok = hdr.parse(s);
      std::cout << "   parse returned " << ok << ", PET_data_type_index=" << hdr.PET_data_type_index << std::endl;
      return hdr.PET_data_type_index < 0 ? 1 : 0; // it got used as index in post_processing
    }
  catch (std::exception& e)
    {
      std::cout << "   rejected: " << e.what() << std::endl;
      return 0;
    }
}

// 5. 'version of keys := STIR3.0' registers a pointer to element 0 of a vector that
//    'number of energy windows' resizes afterwards
static int
case_stir3_keys_then_resize()
{
  std::string h = pet_image_header;
  replace_first(h,
                "number of time frames := 1\n",
                "number of time frames := 1\n!version of keys := STIR3.0\nnumber of energy windows := 40\n"
                "energy window lower level := 350\nenergy window upper level := 650\n");
  InterfileImageHeader hdr;
  std::stringstream s(h);
  try
    {
      const bool ok = hdr.parse(s);
      std::cout << "   parse returned " << ok << ", lower threshold[0]=" << hdr.lower_en_window_thresholds[0]
                << " (350 was given), exam_info low thres=" << hdr.get_exam_info().get_low_energy_thres() << std::endl;
      return hdr.lower_en_window_thresholds[0] == 350.F ? 0 : 1;
    }
  catch (std::exception& e)
    {
      std::cout << "   rejected: " << e.what() << std::endl;
      return 0;
    }
}

// 6. allocation proportional to a number in the header
static int
case_huge_number_of_dimensions()
{
  std::string h = pet_image_header;
  replace_first(h, "number of dimensions := 3", "number of dimensions := 3000000");
  InterfileImageHeader hdr;
  std::stringstream s(h);
  try
    {
      const bool ok = hdr.parse(s);
      std::cout << "   parse returned " << ok << ", matrix_labels.size()=" << hdr.matrix_labels.size()
                << " matrix_size.size()=" << hdr.matrix_size.size() << " first_pixel_offsets.size()=" << hdr.first_pixel_offsets.size()
                << " (allocated from a " << h.size() << " byte header)" << std::endl;
      return hdr.matrix_size.size() > 100000 ? 1 : 0;
    }
  catch (std::exception& e)
    {
      std::cout << "   rejected: " << e.what() << std::endl;
      return 0;
    }
}
static int
case_negative_number_of_dimensions()
{
  std::string h = pet_image_header;
  replace_first(h, "number of dimensions := 3", "number of dimensions := -3");
  InterfileImageHeader hdr;
  std::stringstream s(h);
  try
    {
      const bool ok = hdr.parse(s);
      std::cout << "   parse returned " << ok << std::endl;
      return 0;
    }
  catch (std::length_error& e)
    {
      std::cout << "   std::length_error escapes (not the library's error reporting): " << e.what() << std::endl;
      return 1;
    }
  catch (std::bad_alloc& e)
    {
      std::cout << "   std::bad_alloc escapes (not the library's error reporting): " << e.what() << std::endl;
      return 1;
    }
  catch (std::exception& e)
    {
      std::cout << "   rejected: " << e.what() << std::endl;
      return 0;
    }
}

// 7. sizes are latched when the first ring-difference key is seen; later matrix size lines are ignored
static int
case_pdfs_matrix_size_after_ring_differences()
{
  std::string h = written_pdfs_header(tmpdir);
  // duplicate the 'views' line with another value, at the end of the header
  replace_first(h, "!END OF INTERFILE", "!matrix size [3] := 16\n!END OF INTERFILE");
  InterfilePDFSHeader hdr;
  std::stringstream s(h);
  try
    {
      const bool ok = hdr.parse(s);
      std::cout << "   parse returned " << ok << ", header says matrix size[3]=" << hdr.matrix_size[2][0]
                << ", num_views used=" << hdr.num_views;
      if (ok)
        std::cout << ", ProjDataInfo views=" << hdr.data_info_sptr->get_num_views();
      std::cout << std::endl;
      return (ok && hdr.matrix_size[2][0] != hdr.num_views) ? 1 : 0;
    }
  catch (std::exception& e)
    {
      std::cout << "   rejected: " << e.what() << std::endl;
      return 0;
    }
}

// 8. a deleted 'matrix size [1]' line: find_storage_order() indexes an empty vector while parsing
static int
case_pdfs_matrix_size_line_deleted()
{
  std::string h = written_pdfs_header(tmpdir);
  delete_line(h, "!matrix size [1]");
  InterfilePDFSHeader hdr;
  std::stringstream s(h);
  try
    {
      const bool ok = hdr.parse(s);
      std::cout << "   parse returned " << ok << ", num_bins=" << hdr.num_bins << std::endl;
      return ok ? 1 : 0;
    }
  catch (std::exception& e)
    {
      std::cout << "   rejected: " << e.what() << std::endl;
      return 0;
    }
}

// 9. SPECT: 'number of time frames := 0' empties data_offset_each_dataset, which is then written at [0]
static int
case_spect_zero_time_frames()
{
  std::string h = spect_header;
  replace_first(h, "!END OF INTERFILE", "number of time frames := 0\n!END OF INTERFILE");
  InterfilePDFSHeaderSPECT hdr;
  std::stringstream s(h);
  try
    {
      const bool ok = hdr.parse(s);
      std::cout << "   parse returned " << ok << ", data_offset_each_dataset.size()=" << hdr.data_offset_each_dataset.size()
                << std::endl;
      return (ok && hdr.data_offset_each_dataset.empty()) ? 1 : 0;
    }
  catch (std::exception& e)
    {
      std::cout << "   rejected: " << e.what() << std::endl;
      return 0;
    }
}
// 9b. SPECT: 'number of dimensions := 1' and post_processing uses matrix_labels[1], matrix_size[1], pixel_sizes[1]
static int
case_spect_one_dimension()
{
  std::string h = spect_header;
  replace_first(h, "!matrix size [2] := 6\n!scaling factor (mm/pixel) [2] := 3.32\n", "number of dimensions := 1\n");
  InterfilePDFSHeaderSPECT hdr;
  std::stringstream s(h);
  try
    {
      const bool ok = hdr.parse(s);
      std::cout << "   parse returned " << ok << ", matrix_size.size()=" << hdr.matrix_size.size() << std::endl;
      return ok ? 1 : 0;
    }
  catch (std::exception& e)
    {
      std::cout << "   rejected: " << e.what() << std::endl;
      return 0;
    }
}
// 9c. SPECT: 'number of projections' line deleted: num_views stays -1
static int
case_spect_no_projections()
{
  std::string h = spect_header;
  delete_line(h, "!number of projections");
  InterfilePDFSHeaderSPECT hdr;
  std::stringstream s(h);
  try
    {
      const bool ok = hdr.parse(s);
      std::cout << "   parse returned " << ok << std::endl;
      return ok ? 1 : 0;
    }
  catch (std::exception& e)
    {
      std::cout << "   rejected: " << e.what() << std::endl;
      return 0;
    }
}

// 10. long 'name of data file' is strcpy'd into a char[max_filename_length] on the stack
static int
case_long_data_file_name()
{
  std::string h = written_pdfs_header(tmpdir);
  replace_first(h, "name of data file := probe.s", "name of data file := " + std::string(3000, 'A') + ".s");
  std::stringstream s(h);
  try
    {
      ProjDataFromStream* p = read_interfile_PDFS(s, tmpdir, std::ios::in);
      std::cout << "   read_interfile_PDFS returned " << (p ? "an object" : "0") << std::endl;
      return 0;
    }
  catch (std::exception& e)
    {
      std::cout << "   rejected: " << e.what() << std::endl;
      return 0;
    }
}

// 11. read_interfile_image() carries on after a failed parse
static int
case_image_parse_failure_not_checked()
{
  std::string h = pet_image_header;
  replace_first(h, "!PET data type := Image", "!PET data type := Emission");
  std::stringstream s(h);
  try
    {
      VoxelsOnCartesianGrid<float>* p = read_interfile_image(s, tmpdir);
      std::cout << "   read_interfile_image returned " << (p ? "an object" : "0") << std::endl;
      return 0;
    }
  catch (std::exception& e)
    {
      std::cout << "   rejected with: " << std::string(e.what()).substr(0, 200) << std::endl;
      return 0;
    }
}

//////////////////////////////////////////////////////////////// driver

struct Case
{
  const char* name;
  int (*f)();
};

static int
run_case(const Case& c)
{
  std::cout << "\n== " << c.name << std::endl;
  const std::string errfile = tmpdir + "/stderr.txt";
  const pid_t pid = fork();
  if (pid == 0)
    {
      const int fd = open(errfile.c_str(), O_WRONLY | O_CREAT | O_TRUNC, 0600);
      dup2(fd, 2);
      int r = 0;
      try
        {
          r = c.f();
        }
      catch (...)
        {
          std::cout << "   unexpected exception type" << std::endl;
          r = 1;
        }
      std::cout.flush();
      _exit(r);
    }
  int status = 0;
  waitpid(pid, &status, 0);
  // show ASAN summary if any
  {
    std::ifstream e(errfile.c_str());
    std::string line;
    while (std::getline(e, line))
      if (line.find("ERROR: AddressSanitizer") != std::string::npos || line.find("SUMMARY: AddressSanitizer") != std::string::npos)
        std::cout << "   " << line.substr(0, 230) << std::endl;
  }
  if (WIFSIGNALED(status))
    {
      std::cout << "   => DEVIATION: killed by signal " << WTERMSIG(status) << " (" << strsignal(WTERMSIG(status)) << ")" << std::endl;
      return 1;
    }
  const int code = WEXITSTATUS(status);
  if (code == 0)
    {
      std::cout << "   => ok" << std::endl;
      return 0;
    }
  if (code == 77)
    std::cout << "   => DEVIATION: invalid memory access reported by AddressSanitizer" << std::endl;
  else
    std::cout << "   => DEVIATION (exit code " << code << ")" << std::endl;
  return 1;
}

int
main()
{
  // the Interfile header post-processing needs the radionuclide data base (as in ctest)
  setenv("STIR_CONFIG_DIR", "/tmp/wt/C17-4/src/config", /*overwrite*/ 0);
  Verbosity::set(0); // no info() messages
  char dirname[] = "/tmp/C17-4-probe-XXXXXX";
  if (mkdtemp(dirname) == 0)
    return 99;
  tmpdir = dirname;

  const Case cases[] = {
    { "1a vectorised index with trailing garbage '[2abc]'", case_index_trailing_garbage },
    { "1b vectorised index that overflows int '[4294967298]'", case_index_overflow },
    { "1c vectorised index '[1.9]'", case_index_fraction },
    { "1d index [0] on a non-vectorised key", case_index_zero_on_scalar },
    { "1e index [x] on a non-vectorised key", case_index_non_numeric_on_scalar },
    { "2  vectorised keyword containing a colon", case_colon_in_vectorised_keyword },
    { "3a truncated list of strings", case_string_list_truncated },
    { "3b white space inside list of strings", case_string_list_whitespace },
    { "4  unknown 'PET data type' value (index -1 used)", case_pet_data_type_unknown },
    { "5  'version of keys := STIR3.0' followed by 'number of energy windows'", case_stir3_keys_then_resize },
    { "6a 'number of dimensions := 3000000'", case_huge_number_of_dimensions },
    { "6b 'number of dimensions := -3'", case_negative_number_of_dimensions },
    { "7  PDFS: 'matrix size' line after the ring-difference keys", case_pdfs_matrix_size_after_ring_differences },
    { "8  PDFS: 'matrix size [1]' line deleted", case_pdfs_matrix_size_line_deleted },
    { "9a SPECT: 'number of time frames := 0'", case_spect_zero_time_frames },
    { "9b SPECT: 'number of dimensions := 1'", case_spect_one_dimension },
    { "9c SPECT: 'number of projections' line deleted", case_spect_no_projections },
    { "10 PDFS: 3000-character 'name of data file'", case_long_data_file_name },
    { "11 image: read_interfile_image after parse failure", case_image_parse_failure_not_checked },
  };
  int deviations = 0;
  for (const Case& c : cases)
    deviations += run_case(c);

  std::cout << "\nnumber of deviations seen: " << deviations << std::endl;
  std::string cmd = "rm -rf " + tmpdir;
  if (system(cmd.c_str()) != 0)
    {}
  return deviations;
}
