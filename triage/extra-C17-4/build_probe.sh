#!/bin/sh
# Builds SEED/extra/probe_existing against the static libraries in _build.
# The parser sources themselves (KeyParser.cxx, InterfileHeader.cxx, InterfilePDFSHeaderSPECT.cxx,
# interfile.cxx) are compiled into the program with AddressSanitizer, so that invalid memory
# accesses made by these files are reported; their objects then take precedence over the
# (identical, but uninstrumented) members of libbuildblock.a / libIO.a.
# By default the four files are taken from the UNMODIFIED commit (git archive HEAD into
# SEED/extra/orig_src), so the probe shows the behaviour of the unmodified code even while
# SEED/patch.diff is applied to the worktree (the seeded change only touches KeyParser.cxx, whose
# object in libbuildblock.a is not used by this program). Pass another "src" directory as $1 to override.
set -e
W=/tmp/wt/C17-4
B=$W/_build
if [ -n "$1" ]; then
  S=$1
else
  rm -rf $W/SEED/extra/orig_src && mkdir -p $W/SEED/extra/orig_src
  git -C $W archive HEAD src/buildblock/KeyParser.cxx src/IO/InterfileHeader.cxx src/IO/InterfilePDFSHeaderSPECT.cxx src/IO/interfile.cxx | tar -x -C $W/SEED/extra/orig_src
  S=$W/SEED/extra/orig_src/src
fi
L="$B/src/buildblock/libbuildblock.a $B/src/IO/libIO.a $B/src/buildblock/libbuildblock.a $B/src/numerics_buildblock/libnumerics_buildblock.a $B/src/display/libdisplay.a $B/src/IO/libIO.a $B/src/recon_buildblock/librecon_buildblock.a $B/src/Shape_buildblock/libShape_buildblock.a $B/src/scatter_buildblock/libscatter_buildblock.a $B/src/recon_buildblock/librecon_buildblock.a $B/src/display/libdisplay.a /usr/lib/x86_64-linux-gnu/libSM.so /usr/lib/x86_64-linux-gnu/libICE.so /usr/lib/x86_64-linux-gnu/libX11.so /usr/lib/x86_64-linux-gnu/libXext.so -lcurses $B/src/IO/libIO.a $B/src/modelling_buildblock/libmodelling_buildblock.a $B/src/IO/libIO.a $B/src/modelling_buildblock/libmodelling_buildblock.a /usr/lib/x86_64-linux-gnu/hdf5/serial/libhdf5_cpp.so /usr/lib/x86_64-linux-gnu/hdf5/serial/libhdf5.so /usr/lib/x86_64-linux-gnu/libcrypto.so /usr/lib/x86_64-linux-gnu/libcurl.so -lpthread /usr/lib/x86_64-linux-gnu/libsz.so /usr/lib/x86_64-linux-gnu/libz.so -ldl -lm $B/src/listmode_buildblock/liblistmode_buildblock.a $B/src/data_buildblock/libdata_buildblock.a $B/src/spatial_transformation_buildblock/libspatial_transformation_buildblock.a $B/src/numerics_buildblock/libnumerics_buildblock.a $B/src/buildblock/libbuildblock.a"
/usr/bin/c++ -Wno-error -O1 -g -fno-omit-frame-pointer -fsanitize=address -DNDEBUG -std=gnu++17 -Wno-deprecated \
  -I$W/src/include -I$B/src/include -I/usr/include/hdf5/serial \
  $W/SEED/extra/probe_existing.cxx \
  $S/buildblock/KeyParser.cxx $S/IO/InterfileHeader.cxx $S/IO/InterfilePDFSHeaderSPECT.cxx $S/IO/interfile.cxx \
  -o $W/SEED/extra/probe_existing \
  -Wl,-rpath,/usr/lib/x86_64-linux-gnu/hdf5/serial $L
echo built $W/SEED/extra/probe_existing
