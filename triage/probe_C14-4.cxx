/*
  Probe for two things that already look wrong in the UNMODIFIED tree (not part of the seed).

  (E1) non-OpenMP build: LM_distributable_computation (include/stir/recon_buildblock/distributable.txx)
       lets the call-back accumulate into local_output_image_sptrs[thread_num] (an empty copy of the
       output image), but the code that adds these local images to *output_image_ptr is inside
       "#ifdef STIR_OPENMP". Without OpenMP the list-mode gradient (and Hessian-times-input) is
       therefore identically zero.

  (E2) TOF + additive term:
       PoissonLogLikelihoodWithLinearModelForMeanAndListModeDataWithProjMatrixByBin::read_listmode_batch
       looks up the additive term of every cached event in a double loop over (segment, TOF bin) of the
       additive projection data, but only tests "cur_bin.my_bin.segment_num() == seg".
       The TOF bin of the event is not compared with timing_pos_num, so every event ends up with the
       additive value of the LAST TOF bin (max_tof_pos_num) at its (segment, view, axial, tangential) position.
       Consequence: for TOF list-mode data with an additive term that differs between TOF bins, the
       cached additive terms are wrong and the list-mode gradient differs from the projection-data
       gradient of the histogrammed data.

  Case A: additive term identical in all TOF bins   -> cached additive terms correct
  Case B: additive term depends on the TOF bin       -> cached additive terms wrong (E2)

  exit code 0: nothing wrong seen; 1: E1 and/or E2 shown.
*/
#define main demo_main_not_used
#include "../seeded/C14-4/demo.cxx"
#undef main

static double
sum_of_all_tof(const ProjData& pd)
{
  double s = 0;
  for (int tof = pd.get_min_tof_pos_num(); tof <= pd.get_max_tof_pos_num(); ++tof)
    for (int seg = pd.get_min_segment_num(); seg <= pd.get_max_segment_num(); ++seg)
      {
        const SegmentByView<float> segment = pd.get_segment_by_view(seg, tof);
        for (auto iter = segment.begin_all(); iter != segment.end_all(); ++iter)
          s += *iter;
      }
  return s;
}

struct CaseResult
{
  double max_pd, max_lm, max_diff, max_additive_error;
  long num_cached;
};

static CaseResult
run_case(const bool tof_dependent_additive)
{
  const int num_tof = 5;
  shared_ptr<Scanner> scanner_sptr(new Scanner(Scanner::User_defined_scanner,
                                               "SynthTOFScanner",
                                               num_dets,
                                               num_rings,
                                               15,
                                               15,
                                               100.F,
                                               5.F,
                                               6.F,
                                               10.F,
                                               0.F,
                                               1,
                                               1,
                                               num_rings,
                                               4,
                                               1,
                                               1,
                                               1,
                                               /* energy resolution */ -1.F,
                                               /* reference energy */ -1.F,
                                               /* max_num_of_timing_poss */ num_tof,
                                               /* size_timing_pos (ps) */ 300.F,
                                               /* timing_resolution (ps) */ 400.F));
  shared_ptr<ProjDataInfo> pdi_sptr(ProjDataInfo::construct_proj_data_info(
      scanner_sptr, 1, num_rings - 1, num_dets / 2, 15, /* arc_corrected */ false, /* tof_mash_factor */ 1));
  std::cout << "TOF bins in data: " << pdi_sptr->get_min_tof_pos_num() << " ... " << pdi_sptr->get_max_tof_pos_num() << '\n';
  shared_ptr<ExamInfo> exam_info_sptr(new ExamInfo(ImagingModality::PT));

  std::vector<RawRecord> records = make_stream(4711U);
  {
    std::mt19937 gen(5U);
    std::uniform_int_distribution<int> tof_dist(-(num_tof / 2), num_tof / 2);
    for (RawRecord& r : records)
      if (!r.is_time)
        r.timing_pos = tof_dist(gen);
  }

  shared_ptr<target_type> image_sptr(
      new VoxelsOnCartesianGrid<float>(exam_info_sptr, *pdi_sptr, 1.F, CartesianCoordinate3D<float>(0, 0, 0)));
  {
    std::mt19937 gen(7U);
    std::uniform_real_distribution<float> dist(0.5F, 1.5F);
    for (auto iter = image_sptr->begin_all(); iter != image_sptr->end_all(); ++iter)
      *iter = dist(gen);
  }

  shared_ptr<ProjDataInMemory> additive_sptr(new ProjDataInMemory(exam_info_sptr, pdi_sptr));
  for (int tof = pdi_sptr->get_min_tof_pos_num(); tof <= pdi_sptr->get_max_tof_pos_num(); ++tof)
    for (int seg = pdi_sptr->get_min_segment_num(); seg <= pdi_sptr->get_max_segment_num(); ++seg)
      {
        SegmentByView<float> segment = pdi_sptr->get_empty_segment_by_view(seg, false, tof);
        segment.fill(tof_dependent_additive ? 0.2F + 0.4F * (tof - pdi_sptr->get_min_tof_pos_num()) : 0.5F);
        additive_sptr->set_segment(segment);
      }

  // histogram (no time frames: everything)
  shared_ptr<ProjData> histogram_sptr(new ProjDataInMemory(exam_info_sptr, pdi_sptr));
  {
    shared_ptr<ListModeData> lm_sptr(new SynthListModeData(exam_info_sptr, pdi_sptr, records));
    LmToProjData lm_to_projdata;
    lm_to_projdata.set_template_proj_data_info_sptr(pdi_sptr);
    lm_to_projdata.set_input_data(lm_sptr);
    lm_to_projdata.set_output_filename_prefix("unused");
    lm_to_projdata.set_output_projdata_sptr(histogram_sptr);
    lm_to_projdata.set_store_prompts(true);
    lm_to_projdata.set_store_delayeds(false);
    if (lm_to_projdata.set_up() != Succeeded::yes)
      error("LmToProjData set_up failed");
    std::streambuf* const old_cerr = std::cerr.rdbuf(nullptr);
    lm_to_projdata.process_data();
    std::cerr.rdbuf(old_cerr);
  }

  shared_ptr<target_type> grad_pd_sptr(image_sptr->get_empty_copy());
  {
    PoissonLogLikelihoodWithLinearModelForMeanAndProjData<target_type> obj;
    obj.set_proj_data_sptr(histogram_sptr);
    shared_ptr<ProjMatrixByBin> pm_sptr(new ProjMatrixByBinUsingRayTracing());
    shared_ptr<ProjectorByBinPair> pair_sptr(new ProjectorByBinPairUsingProjMatrixByBin(pm_sptr));
    obj.set_projector_pair_sptr(pair_sptr);
    obj.set_additive_proj_data_sptr(additive_sptr);
    obj.set_normalisation_sptr(shared_ptr<BinNormalisation>(new TrivialBinNormalisation));
    obj.set_num_subsets(1);
    if (obj.set_up(image_sptr) != Succeeded::yes)
      error("projection-data objective function set_up failed");
    obj.compute_sub_gradient_without_penalty_plus_sensitivity(*grad_pd_sptr, *image_sptr, 0);
  }
  CaseResult result;
  shared_ptr<target_type> grad_lm_sptr(image_sptr->get_empty_copy());
  {
    shared_ptr<ListModeData> lm_sptr(new SynthListModeData(exam_info_sptr, pdi_sptr, records));
    LMObjective obj;
    obj.set_input_data(lm_sptr);
    shared_ptr<ProjMatrixByBin> pm_sptr(new ProjMatrixByBinUsingRayTracing());
    obj.set_proj_matrix(pm_sptr);
    obj.set_additive_proj_data_sptr(additive_sptr);
    obj.set_normalisation_sptr(shared_ptr<BinNormalisation>(new TrivialBinNormalisation));
    obj.set_num_subsets(1);
    char dir_template[] = "/tmp/seedC14_4_probeXXXXXX";
    const char* const cache_dir = mkdtemp(dir_template);
    if (!cache_dir)
      error("cannot create temporary directory");
    obj.set_cache_path(cache_dir);
    obj.set_cache_max_size(100000);
    if (obj.set_up(image_sptr) != Succeeded::yes)
      error("list-mode objective function set_up failed");
    ProjDataInMemory cached_histogram(exam_info_sptr, pdi_sptr);
    result.num_cached = read_cache(cached_histogram, result.max_additive_error, obj, *additive_sptr);
    obj.compute_sub_gradient_without_penalty_plus_sensitivity(*grad_lm_sptr, *image_sptr, 0);
    const std::string cmd = std::string("rm -rf ") + cache_dir;
    if (std::system(cmd.c_str()) != 0)
      std::cerr << "could not remove " << cache_dir << '\n';
  }
  double max_pd = 0, max_lm = 0, max_diff = 0;
  auto ilm = grad_lm_sptr->begin_all_const();
  for (auto ipd = grad_pd_sptr->begin_all_const(); ipd != grad_pd_sptr->end_all_const(); ++ipd, ++ilm)
    {
      max_pd = std::max(max_pd, static_cast<double>(std::fabs(*ipd)));
      max_lm = std::max(max_lm, static_cast<double>(std::fabs(*ilm)));
      max_diff = std::max(max_diff, static_cast<double>(std::fabs(*ipd - *ilm)));
    }
  result.max_pd = max_pd;
  result.max_lm = max_lm;
  result.max_diff = max_diff;
  std::cout << (tof_dependent_additive ? "additive term depends on TOF bin:   " : "additive term same in all TOF bins: ")
            << "counts " << sum_of_all_tof(*histogram_sptr) << ", cached events " << result.num_cached
            << ", max error of cached additive term " << result.max_additive_error << ", max|grad projdata| " << max_pd
            << ", max|grad listmode| " << max_lm << ", max|difference| " << max_diff << std::endl;
  return result;
}

int
main()
{
  Verbosity::set(0);
  const CaseResult a = run_case(false);
  const CaseResult b = run_case(true);
  bool defect = false;
  if (a.max_pd > 0 && a.max_lm == 0)
    {
      std::cout << "E1 shown: list-mode gradient is identically zero"
#ifndef STIR_OPENMP
                   " (build without OpenMP)"
#endif
                   "\n";
      defect = true;
    }
  else if (a.max_diff > 1.E-4 * a.max_pd)
    {
      std::cout << "unexpected: gradients differ even with a TOF-independent additive term\n";
      defect = true;
    }
  if (a.max_additive_error == 0 && b.max_additive_error > 0)
    {
      std::cout << "E2 shown: cached additive term ignores the TOF bin of the event\n";
      defect = true;
    }
  if (a.max_lm > 0 && b.max_diff > 1.E-4 * b.max_pd)
    {
      std::cout << "E2 shown in the gradient as well: list-mode and projection-data gradients differ\n";
      defect = true;
    }
  if (!defect)
    std::cout << "probe: nothing wrong seen\n";
  return defect ? 1 : 0;
}
