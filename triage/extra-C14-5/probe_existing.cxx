/*
  Probes of the UNMODIFIED library for behaviour that already deviates from the property
  "List-mode histogramming and list-mode likelihood agree with the event list".

  Prints what it sees; exit code = number of deviations observed.
*/
#include "synth_lm.h"
#include "stir/Verbosity.h"
#include "stir/TimeFrameDefinitions.h"
#include <sys/stat.h>
#include <sys/wait.h>
#include <unistd.h>
#include <cstdio>
#include <sstream>

using namespace stir;
using namespace synth;

static int num_deviations = 0;

static void
report(bool deviates, const std::string& id, const std::string& text)
{
  std::cout << (deviates ? "DEVIATION " : "as expected ") << "[" << id << "] " << text << std::endl;
  if (deviates)
    ++num_deviations;
}

//--------------------------------------------------------------------------------------------------
// brute-force reference histogram straight from the record list
struct RefOpts
{
  double start = 0, end = 0; // end<=start: no end
  bool store_prompts = true, store_delayeds = true;
  long num_events = 0; // >0: stop when the net number of stored counts reaches this
};

static shared_ptr<ProjDataInMemory>
reference_histogram(const SynthLM& lm, const shared_ptr<const ProjDataInfo>& pdi_sptr, const RefOpts& o)
{
  auto& pdi = dynamic_cast<const ProjDataInfoCylindricalNoArcCorr&>(*pdi_sptr);
  shared_ptr<ProjDataInMemory> out(new ProjDataInMemory(lm.get_exam_info_sptr(), pdi_sptr));
  out->fill(0.F);
  double current_time = 0;
  long net = 0;
  const bool use_end = o.end > o.start && o.num_events == 0;
  for (const Rec& r : lm.recs)
    {
      if (r.is_time)
        {
          current_time = r.ms / 1000.;
          if (use_end && current_time >= o.end)
            break;
          continue;
        }
      if (current_time < o.start)
        continue;
      DetectionPositionPair<> dp(DetectionPosition<>(r.d1, r.r1, 0), DetectionPosition<>(r.d2, r.r2, 0), r.tof);
      Bin bin;
      if (pdi.get_bin_for_det_pos_pair(bin, dp) == Succeeded::no)
        continue;
      if (bin.tangential_pos_num() < pdi.get_min_tangential_pos_num() || bin.tangential_pos_num() > pdi.get_max_tangential_pos_num()
          || bin.axial_pos_num() < pdi.get_min_axial_pos_num(bin.segment_num())
          || bin.axial_pos_num() > pdi.get_max_axial_pos_num(bin.segment_num()) || bin.timing_pos_num() < pdi.get_min_tof_pos_num()
          || bin.timing_pos_num() > pdi.get_max_tof_pos_num())
        continue;
      const int inc = r.prompt ? (o.store_prompts ? 1 : 0) : (o.store_prompts ? (o.store_delayeds ? -1 : 0) : (o.store_delayeds ? 1 : 0));
      if (inc == 0)
        continue;
      bin.set_bin_value(out->get_bin_value(bin) + inc);
      out->set_bin_value(bin);
      if (o.num_events > 0)
        {
          net += inc;
          if (net == o.num_events)
            break;
        }
    }
  return out;
}

static double
diff_norm(const ProjDataInMemory& a, const ProjDataInMemory& b)
{
  return (a - b).norm();
}

//--------------------------------------------------------------------------------------------------
// A. histogramming against the brute-force reference over a range of configurations
static void
probe_histogramming()
{
  int num_checked = 0, num_bad = 0;
  std::ostringstream first_bad;
  for (int tof = 0; tof <= 1; ++tof)
    {
      shared_ptr<Scanner> scanner = make_scanner(4, 32, 15, tof != 0, 9);
      shared_ptr<ExamInfo> exam_info = make_exam_info();
      shared_ptr<ProjDataInfo> lm_pdi(ProjDataInfo::construct_proj_data_info(scanner, 1, 3, 16, 15, false, tof ? 1 : 0).release());
      shared_ptr<SynthLM> lm(new SynthLM(exam_info, lm_pdi, make_stream(*scanner, 5 + tof, 30, 25, 0.3, tof != 0), true));

      struct Tmpl
      {
        int span, max_delta, views, tangs, tofmash;
      };
      std::vector<Tmpl> templates = { { 1, 3, 16, 15, 1 }, { 3, 3, 8, 15, 3 }, { 1, 2, 16, 9, 1 }, { 3, 1, 4, 11, 9 }, { 1, 3, 16, 15, 0 } };
      for (const Tmpl& t : templates)
        {
          if (!tof && t.tofmash > 1)
            continue;
          shared_ptr<ProjDataInfo> tmpl(
              ProjDataInfo::construct_proj_data_info(scanner, t.span, t.max_delta, t.views, t.tangs, false, tof ? t.tofmash : 0)
                  .release());
          for (int dmode = 0; dmode < 3; ++dmode) // trues, prompts only, delayeds only
            {
              const bool sp = dmode != 2, sd = dmode != 1;
              // frames: partition of [0.5,2.5] and the whole
              std::vector<std::pair<double, double>> whole(1, std::make_pair(0.5, 2.5));
              std::vector<std::pair<double, double>> parts = { { 0.5, 0.9 }, { 0.9, 1.0 }, { 1.0, 2.2 }, { 2.2, 2.5 } };
              RefOpts ro;
              ro.start = 0.5;
              ro.end = 2.5;
              ro.store_prompts = sp;
              ro.store_delayeds = sd;
              shared_ptr<ProjDataInMemory> ref_whole = reference_histogram(*lm, tmpl, ro);
              for (int segs_in_mem : { -1, 1, 2 })
                for (int tof_in_mem : { -1, 1, 2 })
                  {
                    if (!tof && tof_in_mem != -1)
                      continue;
                    TimeFrameDefinitions fw(whole);
                    shared_ptr<ProjDataInMemory> h = histogram(lm, tmpl, &fw, sp, sd, segs_in_mem, tof_in_mem);
                    ++num_checked;
                    if (diff_norm(*h, *ref_whole) > 1e-4)
                      {
                        if (!num_bad++)
                          first_bad << "whole frame: tof=" << tof << " span=" << t.span << " dmode=" << dmode
                                    << " segs_in_mem=" << segs_in_mem << " tof_in_mem=" << tof_in_mem
                                    << " diff=" << diff_norm(*h, *ref_whole);
                      }
                    // sum of the parts (one single-frame run per part, as output in memory only keeps the last frame)
                    shared_ptr<ProjDataInMemory> sum(new ProjDataInMemory(exam_info, tmpl));
                    sum->fill(0.F);
                    for (auto& p : parts)
                      {
                        std::vector<std::pair<double, double>> one(1, p);
                        TimeFrameDefinitions f1(one);
                        shared_ptr<ProjDataInMemory> hp = histogram(lm, tmpl, &f1, sp, sd, segs_in_mem, tof_in_mem);
                        *sum = *sum + *hp;
                      }
                    ++num_checked;
                    if (diff_norm(*sum, *ref_whole) > 1e-4)
                      {
                        if (!num_bad++)
                          first_bad << "sum of parts: tof=" << tof << " span=" << t.span << " dmode=" << dmode
                                    << " segs_in_mem=" << segs_in_mem << " tof_in_mem=" << tof_in_mem
                                    << " diff=" << diff_norm(*sum, *ref_whole);
                      }
                  }
              // num_events_to_store cut-off
              for (long n : { 7L, 60L })
                for (int segs_in_mem : { -1, 1 })
                  {
                    RefOpts rn = ro;
                    rn.start = 0;
                    rn.num_events = n;
                    shared_ptr<ProjDataInMemory> refn = reference_histogram(*lm, tmpl, rn);
                    shared_ptr<ProjDataInMemory> h = histogram(lm, tmpl, nullptr, sp, sd, segs_in_mem, -1, n);
                    ++num_checked;
                    if (diff_norm(*h, *refn) > 1e-4)
                      {
                        if (!num_bad++)
                          first_bad << "num_events_to_store=" << n << ": tof=" << tof << " span=" << t.span << " dmode=" << dmode
                                    << " segs_in_mem=" << segs_in_mem << " diff=" << diff_norm(*h, *refn)
                                    << " sum=" << h->sum() << " ref sum=" << refn->sum();
                      }
                  }
            }
        }
    }
  std::ostringstream s;
  s << "LmToProjData against brute-force histogram: " << num_bad << " of " << num_checked << " configurations differ";
  if (num_bad)
    s << "; first: " << first_bad.str();
  report(num_bad != 0, "A", s.str());
}

//--------------------------------------------------------------------------------------------------
// gives access to parameters that can otherwise only be set by parsing
class LMObjX : public LMObj
{
public:
  void set_num_events_to_use(long n) { this->num_events_to_use = n; }
  void set_frame_num(unsigned n) { this->current_frame_num = n; }
};

struct Setup
{
  shared_ptr<Scanner> scanner;
  shared_ptr<ExamInfo> exam_info;
  shared_ptr<ProjDataInfo> pdi;
  shared_ptr<SynthLM> lm;
  shared_ptr<target_type> image;
  Setup(bool tof = false, unsigned seed = 1, int ticks = 20, int per_tick = 30, double frac_delayed = 0.2)
  {
    scanner = make_scanner(3, 32, 15, tof);
    exam_info = make_exam_info();
    pdi.reset(ProjDataInfo::construct_proj_data_info(scanner, 1, 2, 16, 15, false, tof ? 1 : 0).release());
    lm.reset(new SynthLM(exam_info, pdi, make_stream(*scanner, seed, ticks, per_tick, frac_delayed, tof), true));
    image = make_image(exam_info, *pdi, 11);
  }
};

static void
configure(LMObj& o, const Setup& s, const shared_ptr<ProjData>& add, int num_subsets = 1)
{
  o.set_input_data(s.lm);
  o.set_proj_matrix(shared_ptr<ProjMatrixByBin>(new ProjMatrixByBinUsingRayTracing()));
  if (add)
    o.set_additive_proj_data_sptr(add);
  o.set_num_subsets(num_subsets);
  o.set_use_subset_sensitivities(true);
  o.set_skip_balanced_subsets(true);
}

// B. singularity: event whose estimated mean is 0
static void
probe_singularity()
{
  Setup s;
  // image that is zero in half of the planes, no additive term
  shared_ptr<target_type> image(s.image->clone());
  {
    int z = 0;
    for (auto& plane : *image)
      {
        if ((z++) % 2 == 0)
          plane.fill(0.F);
      }
    (*image).fill(0.F); // all zero: every event has estimated mean 0
  }
  LMObj lm_obj;
  configure(lm_obj, s, nullptr);
  lm_obj.set_up(s.image);
  shared_ptr<ProjData> y = histogram(s.lm, s.pdi, nullptr, true, false);
  shared_ptr<PDObj> pd_obj = make_pd_objective(y, nullptr, nullptr, 1, s.image);
  shared_ptr<target_type> g_lm(image->get_empty_copy()), g_pd(image->get_empty_copy());
  lm_obj.compute_sub_gradient_without_penalty_plus_sensitivity(*g_lm, *image, 0);
  pd_obj->compute_sub_gradient_without_penalty_plus_sensitivity(*g_pd, *image, 0);
  int non_finite = 0;
  for (auto it = g_lm->begin_all_const(); it != g_lm->end_all_const(); ++it)
    if (!std::isfinite(*it))
      ++non_finite;
  std::ostringstream str;
  str << "estimate=0, no additive term: list-mode gradient has " << non_finite << " non-finite voxels, max|g_pd|=" << max_abs(*g_pd)
      << " (projection-data version caps the quotient at 10000), max|g_lm-g_pd|=" << max_abs_diff(*g_lm, *g_pd);
  report(non_finite > 0 || max_abs_diff(*g_lm, *g_pd) > 1e-3 * max_abs(*g_pd), "B", str.str());
}

// C. value of the list-mode objective function versus projection data one, and versus its own gradient
static void
probe_value()
{
  Setup s;
  shared_ptr<ProjData> add = make_projdata(s.exam_info, s.pdi, 21, 0.1F, 0.5F);
  LMObj lm_obj;
  configure(lm_obj, s, add);
  lm_obj.set_up(s.image);
  shared_ptr<ProjData> y = histogram(s.lm, s.pdi, nullptr, true, false);
  shared_ptr<PDObj> pd_obj = make_pd_objective(y, add, nullptr, 1, s.image);
  shared_ptr<target_type> image2(s.image->clone());
  *image2 *= 1.3F;
  const double lm1 = lm_obj.compute_objective_function_without_penalty(*s.image, 0);
  const double lm2 = lm_obj.compute_objective_function_without_penalty(*image2, 0);
  const double pd1 = pd_obj->compute_objective_function_without_penalty(*s.image, 0);
  const double pd2 = pd_obj->compute_objective_function_without_penalty(*image2, 0);
  // directional derivative from the gradient
  shared_ptr<target_type> g(s.image->get_empty_copy());
  lm_obj.compute_sub_gradient_without_penalty(*g, *s.image, 0);
  double dir = 0;
  {
    auto ig = g->begin_all_const();
    for (auto it = s.image->begin_all_const(); it != s.image->end_all_const(); ++it, ++ig)
      dir += double(*ig) * 0.3 * double(*it);
  }
  std::ostringstream str;
  str << "objective value difference between two images: list-mode " << (lm2 - lm1) << ", projection data " << (pd2 - pd1)
      << ", first-order prediction from the list-mode gradient " << dir;
  report(std::fabs((lm2 - lm1) - (pd2 - pd1)) > 0.05 * std::fabs(pd2 - pd1), "C", str.str());
}

static std::string
make_dir(const std::string& name)
{
  char cwd[4096];
  if (!getcwd(cwd, sizeof(cwd)))
    error("getcwd");
  const std::string d = std::string(cwd) + "/" + name;
  mkdir(d.c_str(), 0777);
  // remove old cache files
  for (int i = 0; i < 100; ++i)
    std::remove((d + "/my_CACHE" + std::to_string(i) + ".bin").c_str());
  return d + "/";
}

// D. num_events_to_use larger than the cache size
static void
probe_num_events_vs_cache()
{
  Setup s;
  const long n = 25;
  shared_ptr<ProjData> y = histogram(s.lm, s.pdi, nullptr, true, false, -1, -1, n);
  shared_ptr<PDObj> pd_obj = make_pd_objective(y, nullptr, nullptr, 1, s.image);
  shared_ptr<target_type> g_pd(s.image->get_empty_copy());
  pd_obj->compute_sub_gradient_without_penalty_plus_sensitivity(*g_pd, *s.image, 0);
  double d[2];
  int k = 0;
  for (unsigned long cache_size : { 1000UL, 10UL })
    {
      LMObjX lm_obj;
      configure(lm_obj, s, nullptr);
      lm_obj.set_num_events_to_use(n);
      lm_obj.set_cache_path(make_dir("probe_cache_D"));
      lm_obj.set_cache_max_size(cache_size);
      lm_obj.set_up(s.image);
      shared_ptr<target_type> g_lm(s.image->get_empty_copy());
      lm_obj.compute_sub_gradient_without_penalty_plus_sensitivity(*g_lm, *s.image, 0);
      d[k++] = max_abs_diff(*g_lm, *g_pd) / max_abs(*g_pd);
    }
  std::ostringstream str;
  str << "num_events_to_use=25 (histogram with num_events_to_store=25, prompts only): relative gradient difference with "
         "max cache size 1000: "
      << d[0] << ", with max cache size 10: " << d[1] << " (counter of used events restarts for every batch)";
  report(d[0] > 1e-3 || d[1] > 1e-3, "D", str.str());
}

// E. re-using the objective function for a frame with another end time
static void
probe_reuse_other_frame()
{
  Setup s;
  LMObj lm_obj;
  configure(lm_obj, s, nullptr);
  std::vector<std::pair<double, double>> f1(1, std::make_pair(0., 1.0)), f2(1, std::make_pair(1.0, 1.5));
  lm_obj.frame_defs = TimeFrameDefinitions(f1);
  lm_obj.set_up(s.image);
  shared_ptr<target_type> g_lm(s.image->get_empty_copy());
  lm_obj.compute_sub_gradient_without_penalty_plus_sensitivity(*g_lm, *s.image, 0);
  lm_obj.frame_defs = TimeFrameDefinitions(f2);
  bool threw = false;
  std::string msg;
  double d = -1;
  try
    {
      lm_obj.set_up(s.image);
      lm_obj.compute_sub_gradient_without_penalty_plus_sensitivity(*g_lm, *s.image, 0);
      TimeFrameDefinitions fr(f2);
      shared_ptr<ProjData> y = histogram(s.lm, s.pdi, &fr, true, false);
      shared_ptr<PDObj> pd_obj = make_pd_objective(y, nullptr, nullptr, 1, s.image);
      shared_ptr<target_type> g_pd(s.image->get_empty_copy());
      pd_obj->compute_sub_gradient_without_penalty_plus_sensitivity(*g_pd, *s.image, 0);
      d = max_abs_diff(*g_lm, *g_pd) / max_abs(*g_pd);
    }
  catch (std::exception& e)
    {
      threw = true;
      msg = e.what();
    }
  std::ostringstream str;
  str << "same object, frame [0,1] then frame [1,1.5] + set_up(): " << (threw ? "exception: " + msg : "no exception")
      << ", relative gradient difference " << d;
  report(threw || d > 1e-3, "E", str.str());
}

// F. post-normalisation with a (nearly) zero efficiency: event is said to be ignored
class NormZeroInView3 : public BinNormalisation
{
public:
  float get_bin_efficiency(const Bin& bin) const override { return bin.view_num() == 3 ? 0.F : 2.F; }
  std::string get_registered_name() const override { return "NormZeroInView3"; }
};

static void
probe_post_norm_zero_eff()
{
  Setup s;
  LmToProjDataX conv;
  conv.set_input_data(s.lm);
  conv.set_template_proj_data_info_sptr(s.pdi);
  conv.set_output_filename_prefix("unused");
  conv.set_store_prompts(true);
  conv.set_store_delayeds(false);
  conv.set_post_normalisation(shared_ptr<BinNormalisation>(new NormZeroInView3));
  shared_ptr<ProjDataInMemory> out(new ProjDataInMemory(s.exam_info, s.pdi));
  out->fill(0.F);
  shared_ptr<ProjData> out_base = out;
  conv.set_output_projdata_sptr(out_base);
  s.lm->reset();
  conv.set_up();
  conv.process_data();
  double sum_view3 = 0, min_view3 = 0;
  for (int seg = s.pdi->get_min_segment_num(); seg <= s.pdi->get_max_segment_num(); ++seg)
    {
      const Viewgram<float> v = out->get_viewgram(3, seg);
      sum_view3 += v.sum();
      min_view3 = std::min(min_view3, double(v.find_min()));
    }
  std::ostringstream str;
  str << "post-normalisation efficiency 0 in view 3 (2 elsewhere), prompts only: total = " << out->sum()
      << ", sum of histogram in view 3 = " << sum_view3
      << ", minimum = " << min_view3 << " (events with too low efficiency are announced as ignored; expected 0)";
  report(sum_view3 != 0, "F", str.str());
}

// G. settings changed after a first set_up()
static void
probe_stale_settings()
{
  Setup s;
  LmToProjDataX conv;
  conv.set_input_data(s.lm);
  conv.set_template_proj_data_info_sptr(s.pdi);
  conv.set_output_filename_prefix("unused");
  shared_ptr<ProjDataInMemory> out(new ProjDataInMemory(s.exam_info, s.pdi));
  out->fill(0.F);
  shared_ptr<ProjData> out_base = out;
  conv.set_output_projdata_sptr(out_base);
  s.lm->reset();
  conv.set_up();
  conv.process_data();
  const double trues_all = out->sum();
  // now ask for 12 events only, and set_up again
  conv.set_num_events_to_store(12);
  s.lm->reset();
  out->fill(0.F);
  conv.set_up();
  conv.process_data();
  const double after = out->sum();
  {
    std::ostringstream str;
    str << "same LmToProjData object: first run without cut-off stores " << trues_all
        << " net counts; after set_num_events_to_store(12)+set_up() the run stores " << after << " (expected 12)";
    report(after != 12, "G1", str.str());
  }
  // fresh object: set_up, then switch off delayeds without calling set_up again
  LmToProjDataX conv2;
  conv2.set_input_data(s.lm);
  conv2.set_template_proj_data_info_sptr(s.pdi);
  conv2.set_output_filename_prefix("unused");
  conv2.set_output_projdata_sptr(out_base);
  conv2.set_up();
  conv2.set_store_delayeds(false);
  s.lm->reset();
  out->fill(0.F);
  bool threw = false;
  try
    {
      conv2.process_data();
    }
  catch (...)
    {
      threw = true;
    }
  RefOpts ro;
  ro.store_delayeds = false;
  const double prompts = reference_histogram(*s.lm, s.pdi, ro)->sum();
  {
    std::ostringstream str;
    str << "set_store_delayeds(false) after set_up(), no new set_up(): "
        << (threw ? "process_data() refuses" : "process_data() runs") << ", stores " << out->sum() << " (prompts only would be "
        << prompts << ", trues " << trues_all << ")";
    report(!threw && out->sum() != prompts, "G2", str.str());
  }
}

// H. frames that end at or before 0.01 s
static void
probe_short_frames()
{
  shared_ptr<Scanner> scanner = make_scanner(3, 32, 15, false);
  shared_ptr<ExamInfo> exam_info = make_exam_info();
  shared_ptr<ProjDataInfo> pdi(ProjDataInfo::construct_proj_data_info(scanner, 1, 2, 16, 15, false, 0).release());
  // time mark every ms
  shared_ptr<SynthLM> lm(new SynthLM(exam_info, pdi, make_stream(*scanner, 3, 40, 10, 0., false, 1), false));
  std::vector<std::pair<double, double>> f(1, std::make_pair(0., 0.008));
  TimeFrameDefinitions fd(f);
  RefOpts ro;
  ro.start = 0;
  ro.end = 0.008;
  ro.store_delayeds = false;
  const double ref = reference_histogram(*lm, pdi, ro)->sum();
  const double got = histogram(lm, pdi, &fd, true, false)->sum();
  std::ostringstream str;
  str << "frame [0,0.008 s] with time marks every ms: LmToProjData stores " << got << " counts, events in the frame: " << ref;
  report(got != ref, "H", str.str());
}

// I. stale cache files of an earlier, longer run are picked up when re-using the cache
static void
probe_stale_cache_files()
{
  Setup s;
  const std::string dir = make_dir("probe_cache_I");
  shared_ptr<target_type> g1(s.image->get_empty_copy()), g2(s.image->get_empty_copy()), g3(s.image->get_empty_copy());
  {
    LMObj o; // many small cache files
    configure(o, s, nullptr);
    o.set_cache_path(dir);
    o.set_cache_max_size(100);
    o.set_up(s.image);
    o.compute_sub_gradient_without_penalty_plus_sensitivity(*g1, *s.image, 0);
  }
  {
    LMObj o; // recompute with a cache that holds everything: 1 file
    configure(o, s, nullptr);
    o.set_cache_path(dir);
    o.set_cache_max_size(100000);
    o.set_up(s.image);
    o.compute_sub_gradient_without_penalty_plus_sensitivity(*g2, *s.image, 0);
  }
  {
    LMObj o; // re-use the cache just written
    configure(o, s, nullptr);
    o.set_cache_path(dir);
    o.set_cache_max_size(100000);
    o.set_recompute_cache(false);
    o.set_up(s.image);
    o.compute_sub_gradient_without_penalty_plus_sensitivity(*g3, *s.image, 0);
  }
  std::ostringstream str;
  str << "cache written with max size 100 (several files), rewritten with max size 100000 (1 file), then re-used "
         "(recompute cache=0): relative difference of re-used versus recomputed gradient "
      << max_abs_diff(*g3, *g2) / max_abs(*g2) << " (run 1 vs run 2: " << max_abs_diff(*g1, *g2) / max_abs(*g2) << ")";
  report(max_abs_diff(*g3, *g2) > 1e-3 * max_abs(*g2), "I", str.str());
}

// J. get_exam_info_uptr_for_target() of the list-mode objective (run in a child process)
static void
probe_exam_info_recursion()
{
  std::cout.flush();
  const pid_t pid = fork();
  if (pid == 0)
    {
      Setup s;
      LMObj o;
      configure(o, s, nullptr);
      o.set_up(s.image);
      auto e = o.get_exam_info_uptr_for_target();
      _exit(e ? 0 : 1);
    }
  int status = 0;
  waitpid(pid, &status, 0);
  std::ostringstream str;
  str << "LM objective get_exam_info_uptr_for_target() in a child process: "
      << (WIFSIGNALED(status) ? "killed by signal " + std::to_string(WTERMSIG(status)) : "exit " + std::to_string(WEXITSTATUS(status)));
  report(WIFSIGNALED(status) || WEXITSTATUS(status) != 0, "J", str.str());
}

// K. ListTime::set_time_in_secs
static void
probe_set_time_in_secs()
{
  SynthTime t;
  t.set_time_in_secs(2.5);
  std::ostringstream str;
  str << "ListTime::set_time_in_secs(2.5) then get_time_in_secs() = " << t.get_time_in_secs();
  report(std::fabs(t.get_time_in_secs() - 2.5) > 1e-6, "K", str.str());
}

// L. gradient LM versus projdata in ordinary circumstances (sanity; includes TOF, subsets, cache files in several batches)
static void
probe_gradient_ordinary()
{
  int bad = 0, checked = 0;
  double max_full[2] = { 0, 0 };
  std::ostringstream first;
  for (int tof = 0; tof <= 1; ++tof)
    for (unsigned long cache_size : { 0UL, 64UL })
      {
        Setup s(tof != 0, 7);
        shared_ptr<ProjData> add = make_projdata(s.exam_info, s.pdi, 21, 0.1F, 0.5F);
        shared_ptr<ProjData> norm_data = make_projdata(s.exam_info, s.pdi->create_non_tof_clone(), 23, 0.5F, 1.5F);
        std::vector<std::pair<double, double>> f(1, std::make_pair(0.3, 1.7));
        TimeFrameDefinitions fd(f);
        const int num_subsets = 4;
        LMObj o;
        configure(o, s, add, num_subsets);
        o.set_normalisation_sptr(shared_ptr<BinNormalisation>(new BinNormalisationFromProjData(norm_data)));
        o.frame_defs = fd;
        if (cache_size)
          {
            o.set_cache_path(make_dir("probe_cache_L"));
            o.set_cache_max_size(cache_size);
          }
        o.set_up(s.image);
        shared_ptr<ProjData> y = histogram(s.lm, s.pdi, &fd, true, false);
        shared_ptr<PDObj> pd
            = make_pd_objective(y, add, shared_ptr<BinNormalisation>(new BinNormalisationFromProjData(norm_data)), num_subsets, s.image);
        for (int subset = 0; subset < num_subsets; ++subset)
          {
            shared_ptr<target_type> g_lm(s.image->get_empty_copy()), g_pd(s.image->get_empty_copy());
            o.compute_sub_gradient_without_penalty_plus_sensitivity(*g_lm, *s.image, subset);
            pd->compute_sub_gradient_without_penalty_plus_sensitivity(*g_pd, *s.image, subset);
            ++checked;
            const double d = max_abs_diff(*g_lm, *g_pd) / max_abs(*g_pd);
            if (d > 1e-4 && !bad++)
              first << "tof=" << tof << " cache_size=" << cache_size << " subset=" << subset << " rel diff=" << d;
            // full gradient (with the sensitivity subtracted)
            o.compute_sub_gradient_without_penalty(*g_lm, *s.image, subset);
            pd->compute_sub_gradient_without_penalty(*g_pd, *s.image, subset);
            const double df = max_abs_diff(*g_lm, *g_pd) / max_abs(*g_pd);
            max_full[tof] = std::max(max_full[tof], df);
            if (getenv("PROBE_VERBOSE"))
              std::cout << "  [M detail] tof=" << tof << " cache_size=" << cache_size << " subset=" << subset << " full gradient rel diff "
                        << df << " max|g_pd|=" << max_abs(*g_pd) << " max|g_lm|=" << max_abs(*g_lm) << "\n";
          }
      }
  std::ostringstream str;
  str << "list-mode versus projection-data subset gradient+sensitivity (TOF/non-TOF, 4 subsets, additive, normalisation, frame, "
         "with/without cache files): "
      << bad << " of " << checked << " differ";
  if (bad)
    str << "; first: " << first.str();
  report(bad != 0, "L", str.str());
  std::ostringstream str2;
  str2 << "full subset gradients (sensitivity subtracted): largest relative difference non-TOF " << max_full[0] << ", TOF "
       << max_full[1]
       << " (TOF, 4 subsets, 16 views: events are put in subsets with the TOF projector, which has the rotational symmetries "
          "disabled, so subset 1 = views 1,5,9,13; the subset sensitivity that the list-mode version subtracts comes from the "
          "non-TOF projector with all symmetries, where subset 1 = views related to basic view 1 = 1,7,9,15; the projection-data "
          "version back-projects y/ybar-1/norm over its own subset. With 2 subsets only the ~0.1% TOF-kernel truncation remains)";
  report(max_full[0] > 1e-4 || max_full[1] > 1e-4, "M", str2.str());
}

// N. a second set_up() of an objective function for which no caching was asked
static void
probe_second_set_up_starts_caching()
{
  Setup s;
  const std::string dir = make_dir("probe_cwd_N");
  char old_cwd[4096];
  if (!getcwd(old_cwd, sizeof(old_cwd)) || chdir(dir.c_str()) != 0)
    error("chdir");
  LMObj o;
  configure(o, s, nullptr);
  o.set_up(s.image);
  struct stat st;
  const bool after_first = stat("my_CACHE0.bin", &st) == 0;
  const unsigned long size_after_first = o.get_cache_max_size();
  o.set_up(s.image);
  const bool after_second = stat("my_CACHE0.bin", &st) == 0;
  if (chdir(old_cwd) != 0)
    error("chdir back");
  std::ostringstream str;
  str << "no cache asked for (max cache size 0): after 1st set_up() get_cache_max_size()=" << size_after_first
      << ", my_CACHE0.bin in current directory: " << (after_first ? "yes" : "no") << "; after 2nd set_up(): "
      << (after_second ? "yes (object silently switched to caching on disk in the current directory)" : "no");
  report(after_second, "N", str.str());
}

// O. pre-normalisation: events that the decoder rejects
static void
probe_pre_norm_rejected_events()
{
  Setup s;
  std::vector<Rec> recs;
  recs.push_back(time_rec(0));
  for (int i = 0; i < 17; ++i)
    recs.push_back(event_rec(3, 1, 19, 1, 1000, true)); // rejected by SynthEvent::get_bin
  recs.push_back(time_rec(100));
  shared_ptr<SynthLM> lm(new SynthLM(s.exam_info, s.pdi, recs, false));
  double sums[2];
  float bin0[2];
  for (int pre = 0; pre <= 1; ++pre)
    {
      LmToProjDataX conv;
      conv.set_input_data(lm);
      conv.set_template_proj_data_info_sptr(s.pdi);
      conv.set_output_filename_prefix("unused");
      conv.set_store_delayeds(false);
      conv.set_do_pre_normalisation(pre != 0);
      shared_ptr<ProjDataInMemory> out(new ProjDataInMemory(s.exam_info, s.pdi));
      out->fill(0.F);
      shared_ptr<ProjData> out_base = out;
      conv.set_output_projdata_sptr(out_base);
      lm->reset();
      conv.set_up();
      conv.process_data();
      sums[pre] = out->sum();
      Bin b(0, 0, 0, 0);
      bin0[pre] = out->get_bin_value(b);
    }
  std::ostringstream str;
  str << "17 events that the event decoder rejects (bin value <=0): stored counts without pre-normalisation " << sums[0]
      << ", with 'do pre normalisation' (trivial normalisation) " << sums[1] << ", of which in bin (seg 0, view 0, ax 0, tang 0): "
      << bin0[1];
  report(sums[0] != 0 || sums[1] != 0, "O", str.str());
}

int
main(int argc, char** argv)
{
  Verbosity::set(0);
  const std::string only = argc > 1 ? argv[1] : "";
  struct P
  {
    const char* id;
    void (*f)();
  };
  const P probes[] = { { "A", probe_histogramming },
                       { "L", probe_gradient_ordinary },
                       { "B", probe_singularity },
                       { "C", probe_value },
                       { "D", probe_num_events_vs_cache },
                       { "E", probe_reuse_other_frame },
                       { "F", probe_post_norm_zero_eff },
                       { "G", probe_stale_settings },
                       { "H", probe_short_frames },
                       { "I", probe_stale_cache_files },
                       { "J", probe_exam_info_recursion },
                       { "K", probe_set_time_in_secs },
                       { "N", probe_second_set_up_starts_caching },
                       { "O", probe_pre_norm_rejected_events } };
  for (const P& p : probes)
    {
      if (!only.empty() && only != p.id)
        continue;
      try
        {
          p.f();
        }
      catch (std::exception& e)
        {
          report(true, p.id, std::string("probe aborted by exception: ") + e.what());
        }
      catch (...)
        {
          report(true, p.id, "probe aborted by unknown exception");
        }
    }
  std::cout << "number of deviations observed: " << num_deviations << std::endl;
  return num_deviations;
}
