// Small in-memory list-mode data class + helpers, shared by demo.cxx and extra/probe_existing.cxx
#ifndef SYNTH_LM_H
#define SYNTH_LM_H

#include "stir/listmode/ListModeData.h"
#include "stir/listmode/ListRecord.h"
#include "stir/listmode/CListRecord.h"
#include "stir/listmode/CListEventCylindricalScannerWithDiscreteDetectors.h"
#include "stir/listmode/LmToProjData.h"
#include "stir/DetectionPositionPair.h"
#include "stir/Scanner.h"
#include "stir/ExamInfo.h"
#include "stir/ProjDataInfo.h"
#include "stir/ProjDataInMemory.h"
#include "stir/SegmentByView.h"
#include "stir/Succeeded.h"
#include "stir/VoxelsOnCartesianGrid.h"
#include "stir/recon_buildblock/ProjMatrixByBinUsingRayTracing.h"
#include "stir/recon_buildblock/ProjectorByBinPairUsingProjMatrixByBin.h"
#include "stir/recon_buildblock/PoissonLogLikelihoodWithLinearModelForMeanAndProjData.h"
#include "stir/recon_buildblock/PoissonLogLikelihoodWithLinearModelForMeanAndListModeDataWithProjMatrixByBin.h"
#include "stir/recon_buildblock/TrivialBinNormalisation.h"
#include "stir/recon_buildblock/BinNormalisationFromProjData.h"
#include <vector>
#include <random>
#include <cmath>
#include <iostream>

namespace synth
{
using namespace stir;

struct Rec
{
  bool is_time;
  unsigned long ms; // for time records
  int d1, r1, d2, r2, tof;
  bool prompt;
};

inline Rec
time_rec(unsigned long ms)
{
  Rec r{ true, ms, 0, 0, 0, 0, 0, true };
  return r;
}
inline Rec
event_rec(int d1, int r1, int d2, int r2, int tof, bool prompt)
{
  Rec r{ false, 0, d1, r1, d2, r2, tof, prompt };
  return r;
}

class SynthEvent : public CListEventCylindricalScannerWithDiscreteDetectors
{
public:
  explicit SynthEvent(const shared_ptr<const ProjDataInfo>& pdi)
      : CListEventCylindricalScannerWithDiscreteDetectors(pdi)
  {}
  bool is_prompt() const override { return rec.prompt; }
  //! events with the (impossible) TOF index 1000 are rejected by the event decoder itself
  void get_bin(Bin& bin, const ProjDataInfo& pdi) const override
  {
    if (rec.tof == 1000)
      bin.set_bin_value(-1.F);
    else
      CListEventCylindricalScannerWithDiscreteDetectors::get_bin(bin, pdi);
  }
  Succeeded set_prompt(const bool p = true) override
  {
    rec.prompt = p;
    return Succeeded::yes;
  }
  void get_detection_position(DetectionPositionPair<>& dp) const override
  {
    dp.pos1().tangential_coord() = rec.d1;
    dp.pos1().axial_coord() = rec.r1;
    dp.pos1().radial_coord() = 0;
    dp.pos2().tangential_coord() = rec.d2;
    dp.pos2().axial_coord() = rec.r2;
    dp.pos2().radial_coord() = 0;
    dp.timing_pos() = rec.tof;
  }
  void set_detection_position(const DetectionPositionPair<>& dp) override
  {
    rec.d1 = dp.pos1().tangential_coord();
    rec.r1 = dp.pos1().axial_coord();
    rec.d2 = dp.pos2().tangential_coord();
    rec.r2 = dp.pos2().axial_coord();
    rec.tof = dp.timing_pos();
  }
  Rec rec;
};

class SynthTime : public ListTime
{
public:
  unsigned long get_time_in_millisecs() const override { return ms; }
  Succeeded set_time_in_millisecs(const unsigned long t) override
  {
    ms = t;
    return Succeeded::yes;
  }
  unsigned long ms = 0;
};

class SynthRecord : public CListRecord
{
public:
  explicit SynthRecord(const shared_ptr<const ProjDataInfo>& pdi)
      : ev(pdi)
  {}
  bool is_time() const override { return ev.rec.is_time; }
  bool is_event() const override { return !ev.rec.is_time; }
  ListEvent& event() override { return ev; }
  const ListEvent& event() const override { return ev; }
  ListTime& time() override { return tm; }
  const ListTime& time() const override { return tm; }
  SynthEvent ev;
  SynthTime tm;
};

class SynthLM : public ListModeData
{
public:
  SynthLM(const shared_ptr<const ExamInfo>& exam_info,
          const shared_ptr<const ProjDataInfo>& pdi,
          const std::vector<Rec>& recs,
          bool has_delayeds_v)
      : recs(recs),
        pos(0),
        delayeds(has_delayeds_v)
  {
    this->exam_info_sptr = exam_info;
    this->proj_data_info_sptr = pdi;
  }
  std::string get_name() const override { return "SynthLM"; }
  Succeeded reset() override
  {
    pos = 0;
    return Succeeded::yes;
  }
  SavedPosition save_get_position() override
  {
    saved.push_back(pos);
    return static_cast<SavedPosition>(saved.size() - 1);
  }
  Succeeded set_get_position(const SavedPosition& p) override
  {
    if (p >= saved.size())
      return Succeeded::no;
    pos = saved[p];
    return Succeeded::yes;
  }
  bool has_delayeds() const override { return delayeds; }

  std::vector<Rec> recs;

protected:
  shared_ptr<ListRecord> get_empty_record_helper_sptr() const override
  {
    return shared_ptr<ListRecord>(new SynthRecord(this->proj_data_info_sptr));
  }
  Succeeded get_next(ListRecord& r) const override
  {
    if (pos >= recs.size())
      return Succeeded::no;
    SynthRecord& sr = static_cast<SynthRecord&>(r);
    sr.ev.rec = recs[pos];
    if (recs[pos].is_time)
      sr.tm.ms = recs[pos].ms;
    ++pos;
    return Succeeded::yes;
  }

private:
  mutable std::size_t pos;
  std::vector<std::size_t> saved;
  bool delayeds;
};

//! a small generated cylindrical scanner (optionally with TOF)
inline shared_ptr<Scanner>
make_scanner(int num_rings, int num_dets, int max_bins, bool tof, int num_tof_bins = 5)
{
  const int trans_per_block = 4;
  return shared_ptr<Scanner>(new Scanner(Scanner::User_defined_scanner,
                                         std::string("synth"),
                                         num_dets,
                                         num_rings,
                                         max_bins,
                                         max_bins,
                                         /*inner_ring_radius*/ 100.F,
                                         /*DOI*/ 5.F,
                                         /*ring spacing*/ 6.F,
                                         /*bin size*/ 5.F,
                                         /*tilt*/ 0.F,
                                         /*ax blocks/bucket*/ 1,
                                         /*trans blocks/bucket*/ 1,
                                         /*ax crystals/block*/ num_rings,
                                         /*trans crystals/block*/ trans_per_block,
                                         /*ax crystals/singles unit*/ num_rings,
                                         /*trans crystals/singles unit*/ trans_per_block,
                                         /*layers*/ 1,
                                         -1.F,
                                         -1.F,
                                         tof ? short(num_tof_bins) : short(-1),
                                         tof ? 2000.F / num_tof_bins : -1.F,
                                         tof ? 500.F : -1.F));
}

//! random stream: time mark every \a ms_per_tick ms, \a events_per_tick events in between
inline std::vector<Rec>
make_stream(const Scanner& sc, unsigned seed, int num_ticks, int events_per_tick, double frac_delayed, bool tof, int ms_per_tick = 100)
{
  std::mt19937 gen(seed);
  std::vector<Rec> v;
  const int nd = sc.get_num_detectors_per_ring();
  const int nr = sc.get_num_rings();
  const int max_tof = tof ? sc.get_max_num_timing_poss() / 2 : 0;
  std::uniform_int_distribution<int> det(0, nd - 1), ring(0, nr - 1), toff(-max_tof, max_tof);
  std::uniform_real_distribution<double> u(0., 1.);
  for (int t = 0; t < num_ticks; ++t)
    {
      v.push_back(time_rec(static_cast<unsigned long>(t) * ms_per_tick));
      for (int e = 0; e < events_per_tick; ++e)
        {
          int d1 = det(gen);
          // mostly roughly opposite detectors, sometimes anything (gives out-of-range tangential positions)
          int d2 = (u(gen) < 0.85) ? (d1 + nd / 2 + int(std::floor(u(gen) * 9)) - 4 + nd) % nd : det(gen);
          if (d2 == d1)
            d2 = (d1 + nd / 2) % nd;
          v.push_back(event_rec(d1, ring(gen), d2, ring(gen), tof ? toff(gen) : 0, u(gen) >= frac_delayed));
        }
    }
  v.push_back(time_rec(static_cast<unsigned long>(num_ticks) * ms_per_tick));
  return v;
}

inline shared_ptr<ExamInfo>
make_exam_info()
{
  shared_ptr<ExamInfo> e(new ExamInfo(ImagingModality::PT));
  return e;
}

inline shared_ptr<ProjDataInMemory>
make_projdata(const shared_ptr<const ExamInfo>& ei, const shared_ptr<const ProjDataInfo>& pdi, unsigned seed, float lo, float hi)
{
  shared_ptr<ProjDataInMemory> p(new ProjDataInMemory(ei, pdi));
  std::mt19937 gen(seed);
  std::uniform_real_distribution<float> u(lo, hi);
  for (int t = pdi->get_min_tof_pos_num(); t <= pdi->get_max_tof_pos_num(); ++t)
    for (int s = pdi->get_min_segment_num(); s <= pdi->get_max_segment_num(); ++s)
      {
        SegmentByView<float> seg = pdi->get_empty_segment_by_view(s, false, t);
        for (auto it = seg.begin_all(); it != seg.end_all(); ++it)
          *it = u(gen);
        p->set_segment(seg);
      }
  return p;
}

typedef DiscretisedDensity<3, float> target_type;

inline shared_ptr<target_type>
make_image(const shared_ptr<const ExamInfo>& ei, const ProjDataInfo& pdi, unsigned seed, float lo = 0.2F, float hi = 1.F)
{
  shared_ptr<target_type> im(new VoxelsOnCartesianGrid<float>(ei, pdi, 1.F, CartesianCoordinate3D<float>(0, 0, 0)));
  std::mt19937 gen(seed);
  std::uniform_real_distribution<float> u(lo, hi);
  for (auto it = im->begin_all(); it != im->end_all(); ++it)
    *it = u(gen);
  return im;
}

//! gives access to the parameters that can otherwise only be set by parsing
class LmToProjDataX : public LmToProjData
{
public:
  void set_num_tof_bins_in_memory(int n)
  {
    this->_already_setup = false;
    this->num_timing_poss_in_memory = n;
  }
  void set_post_normalisation(const shared_ptr<BinNormalisation>& n)
  {
    this->_already_setup = false;
    this->post_normalisation_ptr = n;
  }
  void set_do_pre_normalisation(bool b)
  {
    this->_already_setup = false;
    this->do_pre_normalisation = b;
  }
};

//! histogram with LmToProjData into memory
inline shared_ptr<ProjDataInMemory>
histogram(const shared_ptr<ListModeData>& lm,
          const shared_ptr<const ProjDataInfo>& template_pdi,
          const TimeFrameDefinitions* frames,
          bool store_prompts,
          bool store_delayeds,
          int num_segs_in_mem = -1,
          int num_tof_in_mem = -1,
          long num_events_to_store = 0)
{
  LmToProjDataX conv;
  conv.set_input_data(lm);
  conv.set_template_proj_data_info_sptr(template_pdi);
  conv.set_output_filename_prefix("unused_prefix");
  conv.set_store_prompts(store_prompts);
  conv.set_store_delayeds(store_delayeds);
  conv.set_num_segments_in_memory(num_segs_in_mem);
  conv.set_num_tof_bins_in_memory(num_tof_in_mem);
  conv.set_num_events_to_store(num_events_to_store);
  if (frames)
    conv.set_time_frame_definitions(*frames);
  shared_ptr<ProjDataInMemory> out(new ProjDataInMemory(lm->get_exam_info_sptr(), conv.get_template_proj_data_info_sptr()));
  out->fill(0.F);
  shared_ptr<ProjData> out_base = out;
  conv.set_output_projdata_sptr(out_base);
  lm->reset();
  conv.set_up();
  conv.process_data();
  return out;
}

inline double
max_abs(const target_type& a)
{
  double m = 0;
  for (auto it = a.begin_all_const(); it != a.end_all_const(); ++it)
    m = std::max(m, double(std::fabs(*it)));
  return m;
}
inline double
max_abs_diff(const target_type& a, const target_type& b)
{
  double m = 0;
  auto ib = b.begin_all_const();
  for (auto it = a.begin_all_const(); it != a.end_all_const(); ++it, ++ib)
    {
      const double d = std::fabs(double(*it) - double(*ib));
      m = std::max(m, std::isfinite(d) ? d : 1e30);
    }
  return m;
}

typedef PoissonLogLikelihoodWithLinearModelForMeanAndListModeDataWithProjMatrixByBin<target_type> LMObj;
typedef PoissonLogLikelihoodWithLinearModelForMeanAndProjData<target_type> PDObj;

inline shared_ptr<PDObj>
make_pd_objective(const shared_ptr<ProjData>& data,
                  const shared_ptr<ProjData>& additive,
                  const shared_ptr<BinNormalisation>& norm,
                  int num_subsets,
                  const shared_ptr<target_type>& image)
{
  shared_ptr<PDObj> obj(new PDObj);
  obj->set_proj_data_sptr(data);
  shared_ptr<ProjMatrixByBin> pm(new ProjMatrixByBinUsingRayTracing());
  shared_ptr<ProjectorByBinPair> pp(new ProjectorByBinPairUsingProjMatrixByBin(pm));
  obj->set_projector_pair_sptr(pp);
  if (additive)
    obj->set_additive_proj_data_sptr(additive);
  if (norm)
    obj->set_normalisation_sptr(norm);
  obj->set_num_subsets(num_subsets);
  obj->set_use_subset_sensitivities(true);
  obj->set_zero_seg0_end_planes(false);
  if (obj->set_up(image) != Succeeded::yes)
    error("set_up of projdata objective failed");
  return obj;
}

} // namespace synth
#endif
