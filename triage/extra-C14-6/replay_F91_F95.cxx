// Probe of suspicious behaviour of the UNMODIFIED code w.r.t. the list-mode histogramming property.
// Prints what it observes, exit code = number of deviations seen.
#include "synth_lm.h"
#include "stir/TimeFrameDefinitions.h"
#include <sys/wait.h>
#include <signal.h>

#include "stir/Verbosity.h"
using namespace stir;
using namespace synth;

int
main()
{
  setenv("STIR_CONFIG_DIR", "/tmp/wt/C14-6/src/config", 0); // radionuclide database etc (not installed)
  Verbosity::set(0);
  int deviations = 0;
  shared_ptr<Scanner> scanner = make_scanner();
  shared_ptr<const ProjDataInfo> lm_pdi(ProjDataInfo::construct_proj_data_info(scanner,
                                                                              1,
                                                                              scanner->get_num_rings() - 1,
                                                                              scanner->get_num_detectors_per_ring() / 2,
                                                                              scanner->get_max_num_non_arccorrected_bins(),
                                                                              false,
                                                                              1));
  shared_ptr<const ProjDataInfo> templ(
      ProjDataInfo::construct_proj_data_info(scanner, 1, 3, scanner->get_num_detectors_per_ring() / 2, 7, false, 1));
  const ProjDataInfoCylindricalNoArcCorr& templ_cyl = dynamic_cast<const ProjDataInfoCylindricalNoArcCorr&>(*templ);
  const std::string dir = make_tmp_dir();

  // ------------------------------------------------------------------
  // P0 (control added with the repair of F91/F92): no frame definitions and no event cut-off = the single frame (0,0) made by
  //     set_up(), which stands for "all events" - must still histogram the whole stream, for every memory setting
  {
    std::cout << "P0: no time frames, no cut-off: all events\n";
    const std::vector<Rec> recs = make_stream(*scanner, 76u, 3000, 100, 200);
    int d = 0;
    const int settings[3][2] = { { -1, -1 }, { 2, 1 }, { 1, 3 } };
    for (const auto& st : settings)
      {
        run_lm_to_projdata(lm_pdi, recs, templ, {}, st[0], st[1], dir + "/p0");
        shared_ptr<ProjData> pd = ProjData::read_from_file(dir + "/p0_f1g1d0b0.hs");
        d += compare(to_histogram(*pd), reference_histogram(recs, templ_cyl, 0., 1.e9), "P0 all events vs event list") != 0;
      }
    std::cout << "  -> " << (d ? "DEVIATION" : "ok") << "\n";
    deviations += d != 0;
  }

  // ------------------------------------------------------------------
  // P1: a frame that is already over when it is entered (frames shorter than the time-mark spacing,
  //     or more generally: the time mark that closed frame k is already >= end of frame k+1).
  //     Expected: frame 2 = events with 0.5 <= t < 1 (none, all events carry the time of the last mark),
  //     sum of the frames = histogram of [0,1).
  {
    std::cout << "P1: frames {[0,0.5),[0.5,1)} with a time mark only every 1 s\n";
    const std::vector<Rec> recs = make_stream(*scanner, 77u, 4000, 1000, 200);
    const std::vector<std::pair<double, double>> frames = { { 0., .5 }, { .5, 1. } };
    auto got = run_lm_to_projdata(lm_pdi, recs, templ, frames, -1, -1, dir + "/p1");
    auto whole = run_lm_to_projdata(lm_pdi, recs, templ, { { 0., 1. } }, -1, -1, dir + "/p1w");
    int d = 0;
    d += compare(got[0], reference_histogram(recs, templ_cyl, 0., .5), "P1 frame 1 vs event list") != 0;
    d += compare(got[1], reference_histogram(recs, templ_cyl, .5, 1.), "P1 frame 2 vs event list") != 0;
    d += compare(add(got[0], got[1]), whole[0], "P1 sum of frames vs whole [0,1)") != 0;
    // what is it then? compare with [1,2)
    if (compare(got[1], reference_histogram(recs, templ_cyl, 1., 2.), "P1 frame 2 vs events of [1,2)") == 0)
      std::cout << "  (frame 2 [0.5,1) holds exactly the events of [1,2), i.e. events outside the requested frame)\n";
    std::cout << "  -> " << (d ? "DEVIATION" : "ok") << "\n";
    deviations += d != 0;
  }

  // ------------------------------------------------------------------
  // P2: frame ending at or before 0.01 s: "end_time > 0.01" test makes LmToProjData ignore all time marks
  {
    std::cout << "P2: frames {[0,0.008),[0.008,0.1)} with a time mark every 1 ms\n";
    const std::vector<Rec> recs = make_stream(*scanner, 78u, 200, 1, 20);
    const std::vector<std::pair<double, double>> frames = { { 0., .008 }, { .008, .1 } };
    auto got = run_lm_to_projdata(lm_pdi, recs, templ, frames, -1, -1, dir + "/p2");
    int d = 0;
    d += compare(got[0], reference_histogram(recs, templ_cyl, 0., .008), "P2 frame 1 vs event list") != 0;
    d += compare(got[1], reference_histogram(recs, templ_cyl, .008, .1), "P2 frame 2 vs event list") != 0;
    if (compare(got[0], reference_histogram(recs, templ_cyl, 0., 1e9), "P2 frame 1 vs whole stream") == 0)
      std::cout << "  (frame 1 [0,0.008) holds the whole list-mode stream)\n";
    std::cout << "  -> " << (d ? "DEVIATION" : "ok") << "\n";
    deviations += d != 0;
  }

  // ------------------------------------------------------------------
  // P3: num_segments_in_memory==0 (or num_TOF_bins_in_memory==0): set_up() tests the wrong variable
  //     ("if (num_segments == 0) error(... num_segments_in_memory cannot be 0)"), process_data() never terminates
  {
    std::cout << "P3: num_segments_in_memory = 0\n";
    const std::vector<Rec> recs = make_stream(*scanner, 79u, 500, 100, 5);
    std::cout.flush();
    const pid_t pid = fork();
    if (pid == 0)
      {
        alarm(5);
        try
          {
            run_lm_to_projdata(lm_pdi, recs, templ, { { 0., .3 } }, 0, -1, dir + "/p3");
          }
        catch (...)
          {
            _exit(1); // an exception/error() is an acceptable outcome
          }
        _exit(0);
      }
    int status = 0;
    waitpid(pid, &status, 0);
    if (WIFSIGNALED(status) && WTERMSIG(status) == SIGALRM)
      {
        std::cout << "  process_data() did not terminate within 5 s (killed by SIGALRM); no error() was raised by set_up()\n"
                  << "  -> DEVIATION\n";
        ++deviations;
      }
    else
      std::cout << "  terminated (status " << status << ")\n  -> ok\n";
  }

  // ------------------------------------------------------------------
  // P4: ListTime::set_time_in_secs() divides by 1000 instead of multiplying
  {
    std::cout << "P4: ListTime::set_time_in_secs(2.5) then get_time_in_millisecs()\n";
    synth::Time t;
    t.set_time_in_secs(2.5);
    std::cout << "  got " << t.get_time_in_millisecs() << " ms, expected 2500 ms\n";
    if (t.get_time_in_millisecs() != 2500)
      {
        std::cout << "  -> DEVIATION\n";
        ++deviations;
      }
    else
      std::cout << "  -> ok\n";
  }

  // ------------------------------------------------------------------
  // P5: TimeFrameDefinitions::operator== ignores the number of frames
  {
    std::cout << "P5: TimeFrameDefinitions {[0,1)} == {[0,1),[1,2)} ?\n";
    TimeFrameDefinitions a(std::vector<std::pair<double, double>>{ { 0., 1. } });
    TimeFrameDefinitions b(std::vector<std::pair<double, double>>{ { 0., 1. }, { 1., 2. } });
    bool ab = false, ba = false, threw = false;
    ab = (a == b);
    try
      {
        ba = (b == a);
      }
    catch (std::exception& e)
      {
        threw = true;
        std::cout << "  b==a threw: " << e.what() << "\n";
      }
    std::cout << "  a==b gives " << ab << (threw ? "" : (ba ? ", b==a gives 1" : ", b==a gives 0")) << "\n";
    if (ab || ba || threw)
      {
        std::cout << "  -> DEVIATION\n";
        ++deviations;
      }
    else
      std::cout << "  -> ok\n";
  }

  const std::string cmd = "rm -rf " + dir;
  if (std::system(cmd.c_str()) != 0)
    std::cout << "(could not remove " << dir << ")\n";
  std::cout << "number of deviations: " << deviations << "\n";
  return deviations;
}
