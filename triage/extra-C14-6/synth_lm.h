// Synthetic in-memory list-mode data + helpers shared by demo.cxx and extra/probe_existing.cxx
#ifndef SEED_SYNTH_LM_H
#define SEED_SYNTH_LM_H

#include "stir/listmode/ListModeData.h"
#include "stir/listmode/ListRecord.h"
#include "stir/listmode/CListRecord.h"
#include "stir/listmode/CListEventCylindricalScannerWithDiscreteDetectors.h"
#include "stir/listmode/ListTime.h"
#include "stir/listmode/LmToProjData.h"
#include "stir/ProjDataInfoCylindricalNoArcCorr.h"
#include "stir/ProjDataInfo.h"
#include "stir/ProjData.h"
#include "stir/SegmentByView.h"
#include "stir/Scanner.h"
#include "stir/ExamInfo.h"
#include "stir/Bin.h"
#include "stir/DetectionPositionPair.h"
#include "stir/TimeFrameDefinitions.h"
#include "stir/Succeeded.h"
#include "stir/shared_ptr.h"
#include <vector>
#include <map>
#include <array>
#include <string>
#include <random>
#include <iostream>
#include <sstream>
#include <cmath>
#include <cstdlib>
#include <unistd.h>

namespace synth
{
using namespace stir;

struct Rec
{
  bool is_time;
  unsigned long ms; // for time marks
  int t1, a1, t2, a2, tof;
  bool prompt;
};

class Event : public CListEventCylindricalScannerWithDiscreteDetectors
{
public:
  explicit Event(const shared_ptr<const ProjDataInfo>& pdi)
      : CListEventCylindricalScannerWithDiscreteDetectors(pdi),
        prompt(true)
  {}
  bool is_prompt() const override { return prompt; }
  Succeeded set_prompt(const bool p = true) override
  {
    prompt = p;
    return Succeeded::yes;
  }
  void get_detection_position(DetectionPositionPair<>& d) const override { d = dp; }
  void set_detection_position(const DetectionPositionPair<>& d) override { dp = d; }
  DetectionPositionPair<> dp;
  bool prompt;
};

class Time : public ListTime
{
public:
  unsigned long ms = 0;
  unsigned long get_time_in_millisecs() const override { return ms; }
  Succeeded set_time_in_millisecs(const unsigned long t) override
  {
    ms = t;
    return Succeeded::yes;
  }
};

class Record : public CListRecord
{
public:
  explicit Record(const shared_ptr<const ProjDataInfo>& pdi)
      : ev(pdi),
        time_flag(false)
  {}
  bool is_time() const override { return time_flag; }
  bool is_event() const override { return !time_flag; }
  ListEvent& event() override { return ev; }
  const ListEvent& event() const override { return ev; }
  ListTime& time() override { return tm; }
  const ListTime& time() const override { return tm; }
  Event ev;
  Time tm;
  bool time_flag;
};

class LM : public ListModeData
{
public:
  LM(const shared_ptr<const ProjDataInfo>& pdi, const std::vector<Rec>& recs)
      : recs(recs),
        pos(0)
  {
    this->exam_info_sptr = std::make_shared<ExamInfo>(ImagingModality::PT);
    this->set_proj_data_info_sptr(pdi);
  }
  std::string get_name() const override { return "synthetic"; }
  Succeeded reset() override
  {
    pos = 0;
    return Succeeded::yes;
  }
  SavedPosition save_get_position() override
  {
    saved.push_back(pos);
    return static_cast<SavedPosition>(saved.size() - 1);
  }
  Succeeded set_get_position(const SavedPosition& p) override
  {
    if (p >= saved.size())
      return Succeeded::no;
    pos = saved[p];
    return Succeeded::yes;
  }
  bool has_delayeds() const override { return true; }

  std::vector<Rec> recs;

protected:
  shared_ptr<ListRecord> get_empty_record_helper_sptr() const override
  {
    return shared_ptr<ListRecord>(new Record(this->proj_data_info_sptr));
  }
  Succeeded get_next(ListRecord& r) const override
  {
    if (pos >= recs.size())
      return Succeeded::no;
    Record& rec = static_cast<Record&>(r);
    const Rec& x = recs[pos++];
    rec.time_flag = x.is_time;
    if (x.is_time)
      rec.tm.ms = x.ms;
    else
      {
        rec.ev.dp = DetectionPositionPair<>(DetectionPosition<>(x.t1, x.a1, 0), DetectionPosition<>(x.t2, x.a2, 0), x.tof);
        rec.ev.prompt = x.prompt;
      }
    return Succeeded::yes;
  }

private:
  mutable std::size_t pos;
  std::vector<std::size_t> saved;
};

// small generated TOF scanner: 16 detectors per ring, 5 rings, 5 TOF bins
inline shared_ptr<Scanner>
make_scanner()
{
  return shared_ptr<Scanner>(new Scanner(Scanner::User_defined_scanner,
                                         std::string("SeedScanner"),
                                         /*num_detectors_per_ring*/ 16,
                                         /*num_rings*/ 5,
                                         /*max_num_non_arccorrected_bins*/ 9,
                                         /*default_num_arccorrected_bins*/ 9,
                                         /*inner_ring_radius*/ 100.F,
                                         /*DOI*/ 5.F,
                                         /*ring spacing*/ 4.F,
                                         /*bin size*/ 3.F,
                                         /*tilt*/ 0.F,
                                         /*axial blocks per bucket*/ 1,
                                         /*transaxial blocks per bucket*/ 1,
                                         /*axial crystals per block*/ 5,
                                         /*transaxial crystals per block*/ 4,
                                         /*axial crystals per singles unit*/ 1,
                                         /*transaxial crystals per singles unit*/ 1,
                                         /*layers*/ 1,
                                         /*energy res*/ -1.F,
                                         /*ref energy*/ -1.F,
                                         /*max num timing poss*/ 5,
                                         /*size timing pos (ps)*/ 200.F,
                                         /*timing resolution (ps)*/ 400.F));
}

// random stream: a time mark every mark_spacing_ms (first one at mark_spacing_ms, i.e. events occur before the first mark),
// events_per_tick random events after every mark.
inline std::vector<Rec>
make_stream(const Scanner& scanner, unsigned seed, unsigned long total_ms, unsigned long mark_spacing_ms, int max_events_per_tick)
{
  std::mt19937 gen(seed);
  std::vector<Rec> v;
  const int ndet = scanner.get_num_detectors_per_ring();
  const int nrings = scanner.get_num_rings();
  const int ntof = scanner.get_max_num_timing_poss();
  auto add_events = [&]() {
    const int n = static_cast<int>(gen() % (max_events_per_tick + 1));
    for (int i = 0; i < n; ++i)
      {
        Rec r;
        r.is_time = false;
        r.ms = 0;
        r.t1 = static_cast<int>(gen() % ndet);
        do
          {
            r.t2 = static_cast<int>(gen() % ndet);
        } while (r.t2 == r.t1);
        r.a1 = static_cast<int>(gen() % nrings);
        r.a2 = static_cast<int>(gen() % nrings);
        r.tof = static_cast<int>(gen() % ntof) - ntof / 2;
        r.prompt = (gen() % 4) != 0;
        v.push_back(r);
      }
  };
  add_events(); // events before the first time mark
  for (unsigned long t = mark_spacing_ms; t <= total_ms; t += mark_spacing_ms)
    {
      Rec r{};
      r.is_time = true;
      r.ms = t;
      v.push_back(r);
      add_events();
    }
  return v;
}

typedef std::array<int, 5> Key; // tof, seg, view, ax, tang
typedef std::map<Key, float> Histo;

// reference: what the property demands for the frame [start,end) (time of an event = time of last preceding time mark, 0 if none)
inline Histo
reference_histogram(
    const std::vector<Rec>& recs, const ProjDataInfoCylindricalNoArcCorr& pdi, double start, double end, int delayed_increment = -1)
{
  Histo h;
  double t = 0;
  for (const Rec& r : recs)
    {
      if (r.is_time)
        {
          t = r.ms / 1000.;
          continue;
        }
      if (!(t >= start && t < end))
        continue;
      Bin bin;
      DetectionPositionPair<> dp(DetectionPosition<>(r.t1, r.a1, 0), DetectionPosition<>(r.t2, r.a2, 0), r.tof);
      if (pdi.get_bin_for_det_pos_pair(bin, dp) == Succeeded::no)
        continue;
      if (bin.segment_num() < pdi.get_min_segment_num() || bin.segment_num() > pdi.get_max_segment_num())
        continue;
      if (bin.tangential_pos_num() < pdi.get_min_tangential_pos_num() || bin.tangential_pos_num() > pdi.get_max_tangential_pos_num()
          || bin.axial_pos_num() < pdi.get_min_axial_pos_num(bin.segment_num())
          || bin.axial_pos_num() > pdi.get_max_axial_pos_num(bin.segment_num()) || bin.timing_pos_num() < pdi.get_min_tof_pos_num()
          || bin.timing_pos_num() > pdi.get_max_tof_pos_num())
        continue;
      const int inc = r.prompt ? 1 : delayed_increment;
      if (inc == 0)
        continue;
      h[Key{ bin.timing_pos_num(), bin.segment_num(), bin.view_num(), bin.axial_pos_num(), bin.tangential_pos_num() }] += inc;
    }
  for (auto it = h.begin(); it != h.end();)
    if (it->second == 0)
      it = h.erase(it);
    else
      ++it;
  return h;
}

inline Histo
to_histogram(const ProjData& pd)
{
  Histo h;
  for (int tof = pd.get_min_tof_pos_num(); tof <= pd.get_max_tof_pos_num(); ++tof)
    for (int seg = pd.get_min_segment_num(); seg <= pd.get_max_segment_num(); ++seg)
      {
        const SegmentByView<float> s = pd.get_segment_by_view(seg, tof);
        for (int view = s.get_min_view_num(); view <= s.get_max_view_num(); ++view)
          for (int ax = s.get_min_axial_pos_num(); ax <= s.get_max_axial_pos_num(); ++ax)
            for (int tang = s.get_min_tangential_pos_num(); tang <= s.get_max_tangential_pos_num(); ++tang)
              if (s[view][ax][tang] != 0)
                h[Key{ tof, seg, view, ax, tang }] = s[view][ax][tang];
      }
  return h;
}

inline Histo
add(const Histo& a, const Histo& b)
{
  Histo h = a;
  for (auto& kv : b)
    h[kv.first] += kv.second;
  for (auto it = h.begin(); it != h.end();)
    if (it->second == 0)
      it = h.erase(it);
    else
      ++it;
  return h;
}

inline double
total(const Histo& h)
{
  double s = 0;
  for (auto& kv : h)
    s += kv.second;
  return s;
}

// number of bins that differ; prints the first few
inline int
compare(const Histo& got, const Histo& expected, const std::string& what, int max_print = 3)
{
  int ndiff = 0;
  auto report = [&](const Key& k, float g, float e) {
    if (ndiff < max_print)
      std::cout << "    " << what << ": bin(tof=" << k[0] << ",seg=" << k[1] << ",view=" << k[2] << ",ax=" << k[3] << ",tang=" << k[4]
                << ") got " << g << " expected " << e << "\n";
    ++ndiff;
  };
  for (auto& kv : expected)
    {
      auto it = got.find(kv.first);
      const float g = it == got.end() ? 0.F : it->second;
      if (g != kv.second)
        report(kv.first, g, kv.second);
    }
  for (auto& kv : got)
    if (expected.find(kv.first) == expected.end())
      report(kv.first, kv.second, 0.F);
  if (ndiff)
    std::cout << "  MISMATCH " << what << ": " << ndiff << " bins differ (total got " << total(got) << ", expected " << total(expected)
              << ")\n";
  return ndiff;
}

inline std::string
make_tmp_dir()
{
  char templ[] = "/tmp/seed_lm_XXXXXX";
  char* d = mkdtemp(templ);
  if (!d)
    {
      std::cerr << "cannot create temp dir\n";
      std::exit(99);
    }
  return std::string(d);
}

// LmToProjData has no public setter for the "num_TOF_bins_in_memory" keyword
class Conv : public LmToProjData
{
public:
  void set_num_tof_bins_in_memory(int n)
  {
    this->_already_setup = false;
    this->num_timing_poss_in_memory = n;
  }
};

// Run LmToProjData for the given frames; returns one histogram per frame (read back from the written files)
inline std::vector<Histo>
run_lm_to_projdata(const shared_ptr<const ProjDataInfo>& lm_pdi,
                   const std::vector<Rec>& recs,
                   const shared_ptr<const ProjDataInfo>& template_pdi,
                   const std::vector<std::pair<double, double>>& frames,
                   int num_segments_in_memory,
                   int num_tof_bins_in_memory,
                   const std::string& prefix,
                   long num_events_to_store = 0,
                   bool store_delayeds = true)
{
  shared_ptr<ListModeData> lm(new LM(lm_pdi, recs));
  // silence the chatter of LmToProjData
  std::streambuf* old_cerr = std::cerr.rdbuf();
  std::ostringstream sink;
  std::cerr.rdbuf(sink.rdbuf());
  std::streambuf* old_cout = std::cout.rdbuf();
  std::cout.rdbuf(sink.rdbuf());
  try
    {
      Conv conv;
      conv.set_template_proj_data_info_sptr(template_pdi);
      conv.set_input_data(lm);
      conv.set_output_filename_prefix(prefix);
      conv.set_store_prompts(true);
      conv.set_store_delayeds(store_delayeds);
      conv.set_num_segments_in_memory(num_segments_in_memory);
      conv.set_num_tof_bins_in_memory(num_tof_bins_in_memory);
      conv.set_num_events_to_store(num_events_to_store);
      conv.set_time_frame_definitions(TimeFrameDefinitions(frames));
      if (conv.set_up() != Succeeded::yes)
        throw std::runtime_error("set_up failed");
      conv.process_data();
    }
  catch (...)
    {
      std::cerr.rdbuf(old_cerr);
      std::cout.rdbuf(old_cout);
      throw;
    }
  std::cerr.rdbuf(old_cerr);
  std::cout.rdbuf(old_cout);
  std::vector<Histo> result;
  for (std::size_t f = 1; f <= frames.size(); ++f)
    {
      std::ostringstream name;
      name << prefix << "_f" << f << "g1d0b0.hs";
      shared_ptr<ProjData> pd = ProjData::read_from_file(name.str());
      result.push_back(to_histogram(*pd));
    }
  return result;
}
} // namespace synth
#endif
