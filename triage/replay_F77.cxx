// F77: LOR end points -> sinogram coordinates -> end points came back in the other order for part of the LORs:
// get_sino_coords exchanged z1/z2 in one branch without recording it in the `swapped` flag (the direction of the LOR carries the
// sign of the TOF bin)
#include "stir/LORCoordinates.h"
#include "stir/CartesianCoordinate3D.h"
#include <iostream>
#include <cmath>
using namespace stir;
int
main()
{
  const float R = 300.F;
  int total = 0, reversed = 0, wrong_line = 0;
  float first_psi1 = -1, first_psi2 = -1;
  for (int i1 = 0; i1 < 36; ++i1)
    for (int i2 = 0; i2 < 36; ++i2)
      {
        const float psi1 = i1 * float(_PI) / 18 + 0.01F, psi2 = i2 * float(_PI) / 18 + 0.02F;
        if (std::fabs(std::remainder(psi1 - psi2, 2 * float(_PI))) < 0.3F)
          continue; // nearly the same point: no line
        LORInCylinderCoordinates<float> cyl(R);
        cyl.p1().psi() = psi1;
        cyl.p1().z() = -20.F;
        cyl.p2().psi() = psi2;
        cyl.p2().z() = 35.F;
        const LORInAxialAndNoArcCorrSinogramCoordinates<float> sino(cyl);
        const LORInCylinderCoordinates<float> back(sino);
        ++total;
        auto close = [](float a, float b) { return std::fabs(std::remainder(a - b, 2 * float(_PI))) < 1e-3F; };
        const bool same_order = close(back.p1().psi(), psi1) && close(back.p2().psi(), psi2) && std::fabs(back.p1().z() + 20.F) < 1e-3F;
        const bool other_order = close(back.p1().psi(), psi2) && close(back.p2().psi(), psi1) && std::fabs(back.p1().z() - 35.F) < 1e-3F;
        if (other_order && !same_order)
          {
            if (!reversed)
              {
                first_psi1 = psi1;
                first_psi2 = psi2;
              }
            ++reversed;
          }
        else if (!same_order)
          ++wrong_line;
      }
  std::cout << total << " LORs given by two end points on a cylinder -> sinogram coordinates -> end points: " << reversed << " come back with the end points exchanged";
  if (reversed)
    std::cout << " (first: psi1 " << first_psi1 << ", psi2 " << first_psi2 << ")";
  std::cout << ", " << wrong_line << " as another line\n";
  const int bad = reversed + wrong_line;
  std::cout << (bad ? "DEVIATIONS " : "ok ") << bad << "\n";
  return bad != 0;
}
