// F71: a pair with the SAME detector number in two different rings (no LOR of the sinograms) was assigned to a bin
#include "stir/ProjDataInfoCylindricalNoArcCorr.h"
#include "stir/ProjDataInfoGenericNoArcCorr.h"
#include "stir/ProjDataInfo.h"
#include "stir/Scanner.h"
#include "stir/Bin.h"
#include "stir/DetectionPositionPair.h"
#include "stir/Succeeded.h"
#include <iostream>
using namespace stir;
int
main()
{
  shared_ptr<Scanner> scanner(new Scanner(Scanner::E953));
  shared_ptr<ProjDataInfo> pdi(ProjDataInfo::construct_proj_data_info(
      scanner, 1, scanner->get_num_rings() - 1, scanner->get_num_detectors_per_ring() / 2, scanner->get_max_num_non_arccorrected_bins(), false));
  const auto& cyl = dynamic_cast<const ProjDataInfoCylindricalNoArcCorr&>(*pdi);
  int accepted = 0, total = 0;
  Bin first;
  for (int d = 0; d < scanner->get_num_detectors_per_ring(); d += 7)
    {
      Bin bin;
      ++total;
      if (cyl.get_bin_for_det_pos_pair(bin, DetectionPositionPair<>(DetectionPosition<>(d, 0, 0), DetectionPosition<>(d, 2, 0))) == Succeeded::yes)
        {
          if (!accepted)
            first = bin;
          ++accepted;
        }
    }
  std::cout << "pairs (detector d, ring 0) - (detector d, ring 2): " << accepted << " of " << total << " assigned to a bin";
  if (accepted)
    std::cout << " (first: segment " << first.segment_num() << ", view " << first.view_num() << ", axial " << first.axial_pos_num()
              << ", tangential " << first.tangential_pos_num() << ")";
  std::cout << "\n";
  // an ordinary pair still is
  Bin bin;
  const bool ordinary = cyl.get_bin_for_det_pos_pair(bin, DetectionPositionPair<>(DetectionPosition<>(3, 0, 0), DetectionPosition<>(3 + scanner->get_num_detectors_per_ring() / 2, 2, 0))) == Succeeded::yes;
  std::cout << "opposite detectors: " << (ordinary ? "assigned" : "NOT assigned") << "\n";
  const int bad = accepted + (ordinary ? 0 : 1);
  std::cout << (bad ? "DEVIATIONS " : "ok ") << bad << "\n";
  return bad;
}
