/*
  Probes for problems in the UNMODIFIED code w.r.t. the property
  "system-matrix rows do not depend on symmetries, caching or request history".

  Prints what it observes; exit code = number of deviations seen.
*/
#include "stir/recon_buildblock/ProjMatrixByBinUsingInterpolation.h"
#include "stir/recon_buildblock/ProjMatrixByBinUsingRayTracing.h"
#include "stir/recon_buildblock/ProjMatrixElemsForOneBin.h"
#include "stir/recon_buildblock/DataSymmetriesForBins_PET_CartesianGrid.h"
#include "stir/ProjDataInfo.h"
#include "stir/ProjDataInfoCylindrical.h"
#include "stir/ProjDataInfoBlocksOnCylindricalNoArcCorr.h"
#include "stir/Scanner.h"
#include "stir/VoxelsOnCartesianGrid.h"
#include "stir/Bin.h"
#include "stir/Verbosity.h"
#include "stir/shared_ptr.h"
#include <vector>
#include <tuple>
#include <string>
#include <sstream>
#include <iostream>
#include <algorithm>
#include <cmath>

using namespace stir;

typedef std::vector<std::tuple<int, int, int, float>> Row;

static int num_deviations = 0;

static shared_ptr<Scanner>
make_scanner(const int num_detectors_per_ring, const int num_rings, const bool tof = false)
{
  return shared_ptr<Scanner>(new Scanner(Scanner::User_defined_scanner,
                                         std::string("C03-5 probe scanner"),
                                         num_detectors_per_ring,
                                         num_rings,
                                         num_detectors_per_ring / 2,
                                         num_detectors_per_ring / 2,
                                         100.F,
                                         5.F,
                                         4.F,
                                         3.F,
                                         0.F,
                                         1,
                                         1,
                                         1,
                                         1,
                                         1,
                                         1,
                                         1,
                                         -1.F,
                                         -1.F,
                                         tof ? (short int)5 : (short int)-1,
                                         tof ? 100.F : -1.F,
                                         tof ? 400.F : -1.F));
}

static Row
to_row(const ProjMatrixElemsForOneBin& lor)
{
  Row row;
  for (ProjMatrixElemsForOneBin::const_iterator it = lor.begin(); it != lor.end(); ++it)
    row.push_back(std::make_tuple(it->coord1(), it->coord2(), it->coord3(), it->get_value()));
  std::sort(row.begin(), row.end());
  return row;
}

static Row
get_row(const ProjMatrixByBin& m, const Bin& bin)
{
  ProjMatrixElemsForOneBin lor;
  m.get_proj_matrix_elems_for_one_bin(lor, bin);
  return to_row(lor);
}

static bool
rows_equal(const Row& a, const Row& b, const float rel_tol = 1.E-3F)
{
  // elements below the tolerance are ignored (they can be present in one and absent in the other)
  float max_v = 0;
  for (auto& e : a)
    max_v = std::max(max_v, std::get<3>(e));
  for (auto& e : b)
    max_v = std::max(max_v, std::get<3>(e));
  const float tol = rel_tol * max_v;
  std::size_t i = 0, j = 0;
  while (i < a.size() || j < b.size())
    {
      if (i < a.size() && j < b.size() && std::get<0>(a[i]) == std::get<0>(b[j]) && std::get<1>(a[i]) == std::get<1>(b[j])
          && std::get<2>(a[i]) == std::get<2>(b[j]))
        {
          if (std::fabs(std::get<3>(a[i]) - std::get<3>(b[j])) > tol)
            return false;
          ++i;
          ++j;
        }
      else if (j == b.size()
               || (i < a.size()
                   && std::make_tuple(std::get<0>(a[i]), std::get<1>(a[i]), std::get<2>(a[i]))
                          < std::make_tuple(std::get<0>(b[j]), std::get<1>(b[j]), std::get<2>(b[j]))))
        {
          if (std::get<3>(a[i]) > tol)
            return false;
          ++i;
        }
      else
        {
          if (std::get<3>(b[j]) > tol)
            return false;
          ++j;
        }
    }
  return true;
}

static std::string
str(const Bin& b)
{
  std::ostringstream s;
  s << "(segment " << b.segment_num() << ", view " << b.view_num() << ", axial_pos " << b.axial_pos_num() << ", tangential_pos "
    << b.tangential_pos_num() << ")";
  return s.str();
}

static std::vector<Bin>
all_bins(const ProjDataInfo& pdi)
{
  std::vector<Bin> bins;
  for (int seg = pdi.get_min_segment_num(); seg <= pdi.get_max_segment_num(); ++seg)
    for (int view = pdi.get_min_view_num(); view <= pdi.get_max_view_num(); ++view)
      for (int ax = pdi.get_min_axial_pos_num(seg); ax <= pdi.get_max_axial_pos_num(seg); ++ax)
        for (int tang = pdi.get_min_tangential_pos_num(); tang <= pdi.get_max_tangential_pos_num(); ++tang)
          bins.push_back(Bin(seg, view, ax, tang));
  return bins;
}

static void
switch_off_symmetries(ProjMatrixByBinUsingInterpolation& m)
{
  std::istringstream s("Interpolation Matrix Parameters:=\n"
                       "do_symmetry_90degrees_min_phi:=0\n"
                       "do_symmetry_180degrees_min_phi:=0\n"
                       "do_symmetry_swap_segment:=0\n"
                       "do_symmetry_swap_s:=0\n"
                       "do_symmetry_shift_z:=0\n"
                       "End Interpolation Matrix Parameters:=\n");
  if (!m.parse(s))
    std::cout << "  (parsing the symmetry switches failed)\n";
}

static void
switch_off_symmetries(ProjMatrixByBinUsingRayTracing& m, const bool keep_shift_z)
{
  m.set_do_symmetry_90degrees_min_phi(false);
  m.set_do_symmetry_180degrees_min_phi(false);
  m.set_do_symmetry_swap_segment(false);
  m.set_do_symmetry_swap_s(false);
  m.set_do_symmetry_shift_z(keep_shift_z);
}

//////////////////////////////////////////////////////////////////////////////////////////////////
// E1: BlocksOnCylindrical with the z-shift symmetry: the symmetry operation gives the transformed row a
// wrong bin (axial_pos_num = basic + requested instead of requested).  With the complete cache the row is
// stored under that wrong bin, and is later returned when that other bin is requested.
static void
probe_blocks_complete_cache()
{
  std::cout << "\nE1: BlocksOnCylindrical, z-shift symmetry only, ray tracing matrix\n";
  shared_ptr<Scanner> scanner(new Scanner(Scanner::SAFIRDualRingPrototype));
  scanner->set_num_axial_crystals_per_block(2);
  scanner->set_num_axial_blocks_per_bucket(3);
  scanner->set_num_rings(6);
  scanner->set_axial_block_spacing(scanner->get_axial_crystal_spacing() * 2);
  scanner->set_scanner_geometry("BlocksOnCylindrical");
  scanner->set_up();

  const int max_seg = 1;
  VectorWithOffset<int> num_axial_pos_per_segment(-max_seg, max_seg);
  VectorWithOffset<int> min_ring_diff(-max_seg, max_seg);
  VectorWithOffset<int> max_ring_diff(-max_seg, max_seg);
  for (int i = -max_seg; i <= max_seg; ++i)
    {
      min_ring_diff[i] = max_ring_diff[i] = i;
      num_axial_pos_per_segment[i] = scanner->get_num_rings() - std::abs(i);
    }
  shared_ptr<const ProjDataInfo> pdi(new ProjDataInfoBlocksOnCylindricalNoArcCorr(
      scanner, num_axial_pos_per_segment, min_ring_diff, max_ring_diff, scanner->get_max_num_views(), 31));
  shared_ptr<const DiscretisedDensity<3, float>> image(new VoxelsOnCartesianGrid<float>(
      *pdi, 1.F, CartesianCoordinate3D<float>(0.F, 0.F, 0.F), CartesianCoordinate3D<int>(-1, 41, 41)));

  ProjMatrixByBinUsingRayTracing direct;
  switch_off_symmetries(direct, false);
  direct.enable_cache(false);
  direct.set_up(pdi, image);

  ProjMatrixByBinUsingRayTracing m;
  switch_off_symmetries(m, true);
  m.store_only_basic_bins_in_cache(false);
  m.set_up(pdi, image);
  {
    const DataSymmetriesForBins_PET_CartesianGrid& sym
        = dynamic_cast<const DataSymmetriesForBins_PET_CartesianGrid&>(*m.get_symmetries_ptr());
    std::cout << "  symmetries in use: shift_z=" << sym.using_symmetry_shift_z() << " swap_s=" << sym.using_symmetry_swap_s()
              << " swap_segment=" << sym.using_symmetry_swap_segment() << "\n";
  }
  int seen = 0;
  for (int seg = -1; seg <= 1; ++seg)
    {
      const Bin first(seg, 10, 3, 2);
      const Bin second(seg, 10, 5, 2);
      if (second.axial_pos_num() > pdi->get_max_axial_pos_num(seg))
        continue;
      Bin basic = first;
      m.get_symmetries_ptr()->find_basic_bin(basic);
      ProjMatrixElemsForOneBin lor;
      m.get_proj_matrix_elems_for_one_bin(lor, first);
      const bool first_ok = rows_equal(to_row(lor), get_row(direct, first));
      std::cout << "  request " << str(first) << ": basic bin " << str(basic) << ", elements "
                << (first_ok ? "agree" : "DISAGREE") << " with direct computation, bin attached to the returned row "
                << str(lor.get_bin()) << (lor.get_bin() == first ? "" : "  <-- WRONG BIN") << "\n";
      if (!first_ok || !(lor.get_bin() == first))
        ++seen;
      const bool second_ok = rows_equal(get_row(m, second), get_row(direct, second));
      std::cout << "  then request " << str(second) << " (complete cache): row "
                << (second_ok ? "agrees" : "DISAGREES  <-- WRONG ROW (it is the row of the previous request)")
                << " with direct computation\n";
      if (!second_ok)
        ++seen;
      // other order in a new matrix
      ProjMatrixByBinUsingRayTracing m2;
      switch_off_symmetries(m2, true);
      m2.store_only_basic_bins_in_cache(false);
      m2.set_up(pdi, image);
      const bool other_order_ok = rows_equal(get_row(m2, second), get_row(direct, second));
      std::cout << "  new matrix, request " << str(second) << " first: row " << (other_order_ok ? "agrees" : "DISAGREES")
                << " with direct computation\n";
      if (!other_order_ok)
        ++seen;
    }
  std::cout << "  E1 deviations: " << seen << "\n";
  num_deviations += seen;
}

//////////////////////////////////////////////////////////////////////////////////////////////////
// E2: ProjMatrixByBinUsingRayTracing::set_up is skipped when the new projection data "equals" the old,
// but ProjDataInfoCylindrical::blindly_equals does not look at the azimuthal angle offset
// (and uses absolute tolerances of 0.05 for lengths).
static void
probe_set_up_skipped()
{
  std::cout << "\nE2: ray tracing matrix set up again for a geometry that differs only in the azimuthal angle offset\n";
  shared_ptr<Scanner> scanner = make_scanner(32, 3);
  shared_ptr<ProjDataInfo> pdiA(ProjDataInfo::construct_proj_data_info(scanner, 1, 2, 16, 9, false).release());
  shared_ptr<ProjDataInfo> pdiB(pdiA->clone());
  dynamic_cast<ProjDataInfoCylindrical&>(*pdiB).set_azimuthal_angle_offset(0.3F);
  shared_ptr<const DiscretisedDensity<3, float>> image(new VoxelsOnCartesianGrid<float>(
      *pdiA, 1.F, CartesianCoordinate3D<float>(0.F, 0.F, 0.F), CartesianCoordinate3D<int>(-1, 9, 9)));
  std::cout << "  phi(view 3): A " << pdiA->get_phi(Bin(0, 3, 0, 0)) << ", B " << pdiB->get_phi(Bin(0, 3, 0, 0))
            << "; *A == *B gives " << (*pdiA == *pdiB) << "\n";
  int seen = 0;
  {
    ProjMatrixByBinUsingRayTracing m;
    m.set_up(pdiA, image);
    const Bin bin(1, 3, 0, 1);
    const Row rowA = get_row(m, bin);
    m.set_up(pdiB, image);
    const Row rowB_after_A = get_row(m, bin);
    ProjMatrixByBinUsingRayTracing fresh;
    fresh.set_up(pdiB, image);
    const Row rowB = get_row(fresh, bin);
    std::cout << "  row of " << str(bin) << " (" << rowB.size() << " elements) for B from the matrix that was set up for A before: "
              << (rows_equal(rowB_after_A, rowB) ? "agrees" : "DISAGREES") << " with the row from a new matrix"
              << (rows_equal(rowB_after_A, rowA) ? " (it is the row for A)" : "") << "\n";
    if (!rows_equal(rowB_after_A, rowB))
      ++seen;
  }
  std::cout << "  E2 deviations: " << seen << "\n";
  num_deviations += seen;
}

//////////////////////////////////////////////////////////////////////////////////////////////////
// E3: Scanner::operator== overwrites (instead of and-ing) its result when both scanners are TOF ready
static void
probe_scanner_equality()
{
  std::cout << "\nE3: Scanner::operator== for TOF-ready scanners\n";
  Scanner s1(Scanner::PETMR_Signa);
  Scanner s2(Scanner::PETMR_Signa);
  s2.set_num_rings(s1.get_num_rings() - 5);
  s2.set_inner_ring_radius(s1.get_inner_ring_radius() + 50.F);
  s2.set_ring_spacing(s1.get_ring_spacing() * 2);
  int seen = 0;
  const bool equal = s1 == s2;
  std::cout << "  TOF ready: " << s1.is_tof_ready() << "; scanners with " << s1.get_num_rings() << " and " << s2.get_num_rings()
            << " rings, inner radius " << s1.get_inner_ring_radius() << " and " << s2.get_inner_ring_radius()
            << ", ring spacing " << s1.get_ring_spacing() << " and " << s2.get_ring_spacing() << " compare "
            << (equal ? "EQUAL" : "different") << "\n";
  if (equal)
    ++seen;
  Scanner s3(Scanner::E953);
  Scanner s4(Scanner::E953);
  s4.set_num_rings(s3.get_num_rings() - 5);
  std::cout << "  (non-TOF scanners with " << s3.get_num_rings() << " and " << s4.get_num_rings() << " rings compare "
            << ((s3 == s4) ? "EQUAL" : "different") << ")\n";
  {
    Scanner s5(Scanner::SAFIRDualRingPrototype);
    Scanner s6(Scanner::SAFIRDualRingPrototype);
    s6.set_scanner_geometry("Cylindrical");
    s6.set_up();
    const bool eq = s5 == s6;
    std::cout << "  scanners that differ only in the geometry type (" << s5.get_scanner_geometry() << " and "
              << s6.get_scanner_geometry() << ") compare " << (eq ? "EQUAL" : "different") << "\n";
    if (eq)
      ++seen;
  }
  {
    // consequence for the matrix: TOF-ready scanners with 128 and 64 detectors per ring, same number of views and bins
    shared_ptr<Scanner> t1 = make_scanner(128, 3, true);
    shared_ptr<Scanner> t2 = make_scanner(64, 3, true);
    shared_ptr<ProjDataInfo> pdi1(ProjDataInfo::construct_proj_data_info(t1, 1, 2, 32, 9, false).release());
    shared_ptr<ProjDataInfo> pdi2(ProjDataInfo::construct_proj_data_info(t2, 1, 2, 32, 9, false).release());
    shared_ptr<const DiscretisedDensity<3, float>> image(new VoxelsOnCartesianGrid<float>(
        *pdi1, 1.F, CartesianCoordinate3D<float>(0.F, 0.F, 0.F), CartesianCoordinate3D<int>(-1, 21, 21)));
    const Bin bin(1, 3, 0, 2);
    std::cout << "  non-TOF projection data of TOF-ready scanners with 128 and 64 detectors per ring (32 views, 9 bins): s of " << str(bin)
              << " is " << pdi1->get_s(bin) << " and " << pdi2->get_s(bin) << "; *pdi1 == *pdi2 gives " << (*pdi1 == *pdi2)
              << "\n";
    if (*pdi1 == *pdi2)
      ++seen;
    ProjMatrixByBinUsingRayTracing m;
    m.set_up(pdi1, image);
    const Row row1 = get_row(m, bin);
    m.set_up(pdi2, image);
    const Row row2_after_1 = get_row(m, bin);
    ProjMatrixByBinUsingRayTracing fresh;
    fresh.set_up(pdi2, image);
    const Row row2 = get_row(fresh, bin);
    const bool ok = rows_equal(row2_after_1, row2);
    std::cout << "  ray tracing matrix set up for pdi1, then for pdi2: row of " << str(bin) << " (" << row2.size() << " elements) "
              << (ok ? "agrees" : "DISAGREES") << " with the row from a new matrix"
              << (rows_equal(row2_after_1, row1) ? " (it is the row for pdi1: set_up was skipped)" : "") << "\n";
    if (!ok)
      ++seen;
  }
  std::cout << "  E3 deviations: " << seen << "\n";
  num_deviations += seen;
}

//////////////////////////////////////////////////////////////////////////////////////////////////
// E4: elements that refer to voxels outside the image; E5: interpolation matrix, symmetries vs direct
static void
probe_rows_of_small_geometry()
{
  shared_ptr<Scanner> scanner = make_scanner(32, 3);
  shared_ptr<const ProjDataInfo> pdi(ProjDataInfo::construct_proj_data_info(scanner, 1, 2, 16, 9, true).release());
  shared_ptr<const VoxelsOnCartesianGrid<float>> image(new VoxelsOnCartesianGrid<float>(
      *pdi, 1.F, CartesianCoordinate3D<float>(0.F, 0.F, 0.F), CartesianCoordinate3D<int>(-1, 9, 9)));
  CartesianCoordinate3D<int> min_ind, max_ind;
  image->get_regular_range(min_ind, max_ind);
  const std::vector<Bin> bins = all_bins(*pdi);

  std::cout << "\nE4: elements outside the image (image index range z " << min_ind[1] << ".." << max_ind[1] << ", y " << min_ind[2]
            << ".." << max_ind[2] << ", x " << min_ind[3] << ".." << max_ind[3] << "), " << bins.size() << " bins\n";
  for (int which = 0; which < 2; ++which)
    {
      shared_ptr<ProjMatrixByBin> m;
      if (which == 0)
        m.reset(new ProjMatrixByBinUsingRayTracing);
      else
        m.reset(new ProjMatrixByBinUsingInterpolation);
      m->set_up(pdi, image);
      long num_rows_with_outside = 0, num_outside_z = 0, num_outside_xy = 0, num_negative = 0, num_duplicates = 0;
      std::string first;
      for (const Bin& bin : bins)
        {
          const Row row = get_row(*m, bin);
          bool outside = false;
          for (std::size_t i = 0; i < row.size(); ++i)
            {
              const int z = std::get<0>(row[i]), y = std::get<1>(row[i]), x = std::get<2>(row[i]);
              if (z < min_ind[1] || z > max_ind[1])
                {
                  ++num_outside_z;
                  outside = true;
                }
              if (y < min_ind[2] || y > max_ind[2] || x < min_ind[3] || x > max_ind[3])
                {
                  ++num_outside_xy;
                  outside = true;
                }
              if (std::get<3>(row[i]) < 0)
                ++num_negative;
              if (i > 0 && std::get<0>(row[i]) == std::get<0>(row[i - 1]) && std::get<1>(row[i]) == std::get<1>(row[i - 1])
                  && std::get<2>(row[i]) == std::get<2>(row[i - 1]))
                ++num_duplicates;
            }
          if (outside)
            {
              if (!num_rows_with_outside)
                first = str(bin);
              ++num_rows_with_outside;
            }
        }
      std::cout << "  " << (which == 0 ? "ray tracing" : "interpolation") << " matrix: " << num_rows_with_outside
                << " rows have elements outside the image (" << num_outside_z << " elements outside in z, " << num_outside_xy
                << " outside in x/y), " << num_negative << " negative elements, " << num_duplicates << " duplicated voxels";
      if (num_rows_with_outside)
        std::cout << "; first such row: " << first;
      std::cout << "\n";
      if (num_rows_with_outside)
        ++num_deviations;
      if (num_negative)
        ++num_deviations;
      if (num_duplicates)
        ++num_deviations;
    }

  std::cout << "\nE5: interpolation matrix, rows derived with all symmetries vs rows computed without any symmetry\n";
  {
    ProjMatrixByBinUsingInterpolation with_sym;
    with_sym.set_up(pdi, image);
    ProjMatrixByBinUsingInterpolation no_sym;
    switch_off_symmetries(no_sym);
    no_sym.enable_cache(false);
    no_sym.set_up(pdi, image);
    {
      const DataSymmetriesForBins_PET_CartesianGrid& sym
          = dynamic_cast<const DataSymmetriesForBins_PET_CartesianGrid&>(*no_sym.get_symmetries_ptr());
      std::cout << "  (matrix without symmetries: shift_z=" << sym.using_symmetry_shift_z()
                << " swap_s=" << sym.using_symmetry_swap_s() << " swap_segment=" << sym.using_symmetry_swap_segment()
                << " 90=" << sym.using_symmetry_90degrees_min_phi() << " 180=" << sym.using_symmetry_180degrees_min_phi() << ")\n";
    }
    long num_diff = 0, num_diff_inside = 0;
    std::string first;
    for (const Bin& bin : bins)
      {
        Row a = get_row(with_sym, bin);
        Row b = get_row(no_sym, bin);
        if (!rows_equal(a, b))
          {
            if (!num_diff)
              first = str(bin);
            ++num_diff;
          }
        // restricted to the voxels inside the image
        auto is_outside = [&](const std::tuple<int, int, int, float>& e) {
          return std::get<0>(e) < min_ind[1] || std::get<0>(e) > max_ind[1];
        };
        a.erase(std::remove_if(a.begin(), a.end(), is_outside), a.end());
        b.erase(std::remove_if(b.begin(), b.end(), is_outside), b.end());
        if (!rows_equal(a, b))
          ++num_diff_inside;
      }
    std::cout << "  " << num_diff << " of " << bins.size() << " rows differ (relative tolerance 1e-3 of the row maximum), "
              << num_diff_inside << " still differ when restricted to planes inside the image";
    if (num_diff)
      std::cout << "; first: " << first;
    std::cout << "\n";
    if (num_diff)
      ++num_deviations;
  }
}

int
main()
{
  Verbosity::set(0);
  probe_blocks_complete_cache();
  probe_set_up_skipped();
  probe_scanner_equality();
  probe_rows_of_small_geometry();
  std::cout << "\nTotal number of deviations: " << num_deviations << std::endl;
  return num_deviations;
}
