// replay of candidate finding F12 (C02): ProjDataFromStream with scale_factor != 1:
// a value written with set_bin_value must be read back unchanged by get_bin_value and by get_viewgram
#include "stir/ProjDataFromStream.h"
#include "stir/ProjDataInfo.h"
#include "stir/Scanner.h"
#include "stir/ExamInfo.h"
#include "stir/Viewgram.h"
#include "stir/Bin.h"
#include <fstream>
#include <iostream>
#include <cmath>
using namespace stir;
int main()
{
  shared_ptr<Scanner> scanner(new Scanner(Scanner::E953));
  shared_ptr<ProjDataInfo> pdi(ProjDataInfo::ProjDataInfoCTI(scanner, 1, 2, 8, 16, false));
  int bad = 0;
  for (float scale : { 1.F, 0.5F })
    {
      shared_ptr<std::iostream> s(new std::fstream("replay_F12.s", std::ios::in | std::ios::out | std::ios::trunc | std::ios::binary));
      ProjDataFromStream pd(shared_ptr<ExamInfo>(new ExamInfo), pdi, s, std::streamoff(0), ProjDataFromStream::Segment_View_AxialPos_TangPos,
                            NumericType::SHORT, ByteOrder::native, scale);
      // fill with zeroes through the viewgram path
      for (int seg = pd.get_min_segment_num(); seg <= pd.get_max_segment_num(); ++seg)
        for (int v = pd.get_min_view_num(); v <= pd.get_max_view_num(); ++v)
          pd.set_viewgram(pd.get_empty_viewgram(v, seg));
      Bin b(0, 3, 2, 1, 0, 8.F);
      pd.set_bin_value(b);
      const float via_bin = pd.get_bin_value(b);
      const float via_viewgram = pd.get_viewgram(3, 0)[2][1];
      // and the other direction: write through the viewgram, read the single bin
      Viewgram<float> vg = pd.get_empty_viewgram(5, 0);
      vg[1][-2] = 6.F;
      pd.set_viewgram(vg);
      const float bin_after_viewgram = pd.get_bin_value(Bin(0, 5, 1, -2));
      std::cout << "scale_factor " << scale << ": set_bin_value(8) -> get_bin_value " << via_bin << ", get_viewgram " << via_viewgram
                << "; set_viewgram(6) -> get_bin_value " << bin_after_viewgram << "\n";
      if (std::fabs(via_bin - 8.F) > 1e-5 || std::fabs(via_viewgram - 8.F) > 1e-5 || std::fabs(bin_after_viewgram - 6.F) > 1e-5)
        ++bad;
    }
  return bad ? 1 : 0;
}
