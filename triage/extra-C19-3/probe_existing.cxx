/*
  Probe of the UNMODIFIED STIR code for seed C19-3: things that already look wrong
  with respect to the property "Fourier transforms invert and filters are the
  convolutions they claim to be".

  Prints what it observes, exit code = number of deviations seen.
*/
#include "stir/Array.h"
#include "stir/Array_complex_numbers.h"
#include "stir/IndexRange.h"
#include "stir/IndexRange2D.h"
#include "stir/IndexRange3D.h"
#include "stir/numerics/fourier.h"
#include "stir/ArrayFilterUsingRealDFTWithPadding.h"
#include "stir/ArrayFilter1DUsingConvolution.h"
#include "stir/SeparableMetzArrayFilter.h"
#include "stir/SeparableGaussianArrayFilter.h"
#include "stir/SeparableGaussianImageFilter.h"
#include "stir/VoxelsOnCartesianGrid.h"
#include "stir/CartesianCoordinate3D.h"
#include "stir/Succeeded.h"
#include "stir/modulo.h"
#include <complex>
#include <iostream>
#include <cstdlib>
#include <cstdio>
#include <cmath>
#include <algorithm>
#include <string>
#include <exception>
#include <unistd.h>
#include <fcntl.h>

using namespace stir;

static int num_deviations = 0;

static void
deviation(const std::string& s)
{
  ++num_deviations;
  std::cout << "DEVIATION " << num_deviations << ": " << s << std::endl;
}

static float
rand1()
{
  return 2 * (rand() - RAND_MAX / 2.F) / RAND_MAX;
}

// SeparableMetzArrayFilter's constructor printf's every kernel element: silence stdout temporarily
struct SilenceStdout
{
  int saved;
  SilenceStdout()
  {
    fflush(stdout);
    std::cout.flush();
    saved = dup(1);
    int devnull = open("/dev/null", O_WRONLY);
    dup2(devnull, 1);
    close(devnull);
  }
  ~SilenceStdout()
  {
    fflush(stdout);
    dup2(saved, 1);
    close(saved);
  }
};

/************ P1: real-data round trip for length 2 *********************/
static void
probe_length_2()
{
  std::cout << "\n--- P1: real-data DFT and its inverse for length 2 (smallest power of two)\n";
  {
    Array<1, float> v(IndexRange<1>(2));
    v[0] = 1.5F;
    v[1] = -.25F;
    try
      {
        const Array<1, std::complex<float>> f = fourier_for_real_data(v, 1);
        std::cout << "forward ok: F[0]=" << f[0] << " F[1]=" << f[1] << " (expected (1.25,0) and (1.75,0))\n";
        const Array<1, float> back = inverse_fourier_for_real_data(f, 1);
        std::cout << "inverse ok: " << back[0] << ' ' << back[1] << '\n';
        if (std::fabs(back[0] - v[0]) > 1.E-5 || std::fabs(back[1] - v[1]) > 1.E-5)
          deviation("1D length 2: real-data round trip does not return the input");
      }
    catch (std::exception& e)
      {
        deviation(std::string("1D length 2: real-data inverse DFT throws: ") + e.what());
      }
  }
  {
    Array<2, float> v(IndexRange2D(4, 2));
    for (auto it = v.begin_all(); it != v.end_all(); ++it)
      *it = rand1();
    try
      {
        const Array<2, std::complex<float>> f = fourier_for_real_data(v, 1);
        const Array<2, float> back = inverse_fourier_for_real_data(f, 1);
        (void)back;
        std::cout << "2D 4x2 round trip ran\n";
      }
    catch (std::exception& e)
      {
        deviation(std::string("2D 4x2 (last dimension 2): real-data inverse DFT throws: ") + e.what());
      }
  }
}

/************ P2: error for non-power-of-two comes after the data were shuffled ***********/
static void
probe_non_power_of_two()
{
  std::cout << "\n--- P2: fourier() on a length that is not a power of two\n";
  Array<1, std::complex<float>> c(IndexRange<1>(6));
  for (int i = 0; i < 6; ++i)
    c[i] = std::complex<float>(float(i), 0.F);
  const Array<1, std::complex<float>> c_copy(c);
  try
    {
      fourier(c, 1);
      deviation("fourier() of length 6 did not complain");
    }
  catch (std::exception& e)
    {
      bool same = true;
      for (int i = 0; i < 6; ++i)
        same = same && (c[i] == c_copy[i]);
      std::cout << "exception as expected (" << e.what() << ")\n";
      if (!same)
        {
          std::cout << "data after the failed call:";
          for (int i = 0; i < 6; ++i)
            std::cout << ' ' << c[i].real();
          std::cout << '\n';
          deviation("fourier() of length 6 throws, but only after bit-reversal shuffled the caller's data");
        }
    }
}

/************ P3/P4: Metz at power 0: kernel sum *********************/
static double
metz_power0_response_to_constant(const float fwhm, const float voxel_size, const int max_kernel_size)
{
  VectorWithOffset<float> fwhms(1, 3);
  fwhms.fill(0.F);
  fwhms[3] = fwhm;
  VectorWithOffset<float> powers(1, 3);
  powers.fill(0.F);
  VectorWithOffset<int> max_kernel_sizes(1, 3);
  max_kernel_sizes.fill(max_kernel_size);
  const BasicCoordinate<3, float> sampling = make_coordinate(voxel_size, voxel_size, voxel_size);
  Array<3, float> a(IndexRange3D(1, 1, 401));
  a.fill(1.F);
  {
    SilenceStdout silence;
    SeparableMetzArrayFilter<3, float> filter(fwhms, powers, sampling, max_kernel_sizes);
    filter(a);
  }
  return a[0][0][200];
}

static void
probe_metz()
{
  std::cout << "\n--- P3: Metz filter at power 0 on constant data (value 1), centre of a line of 401 voxels\n";
  struct
  {
    float fwhm, voxel;
    int max_kernel;
  } cases[] = { { 6.F, 2.F, -1 }, { 6.F, 2.F, 9 }, { 6.F, 2.F, 5 }, { 6.F, 2.F, 3 },  { 12.F, 2.F, -1 },
                { 12.F, 2.F, 11 }, { 3.F, 2.F, -1 }, { 3.F, 2.F, 3 }, { 20.F, 2.F, -1 }, { 20.F, 2.F, 15 } };
  for (const auto& c : cases)
    {
      const double r = metz_power0_response_to_constant(c.fwhm, c.voxel, c.max_kernel);
      std::cout << "fwhm " << c.fwhm << " mm, voxel " << c.voxel << " mm, max_kernel_size " << c.max_kernel << " : output " << r
                << '\n';
      if (std::fabs(r - 1.) > 2.E-3)
        deviation("Metz power 0 (fwhm " + std::to_string(c.fwhm) + ", voxel " + std::to_string(c.voxel) + ", max_kernel_size "
                  + std::to_string(c.max_kernel) + ") changes constant data by more than 0.2%: " + std::to_string(r));
    }
}

/************ P5: Gaussian: number of kernel elements vs max_kernel_size *********************/
static void
probe_gaussian_kernel_size()
{
  std::cout << "\n--- P5: SeparableGaussianArrayFilter: number of non-zero kernel elements versus max_kernel_size\n";
  for (int max_kernel_size = 1; max_kernel_size <= 8; ++max_kernel_size)
    {
      BasicCoordinate<3, float> fwhms = make_coordinate(0.F, 0.F, 6.F);
      BasicCoordinate<3, int> max_kernel_sizes = make_coordinate(max_kernel_size, max_kernel_size, max_kernel_size);
      SeparableGaussianArrayFilter<3, float> filter(fwhms, max_kernel_sizes, true);
      Array<3, float> a(IndexRange3D(1, 1, 41));
      a.fill(0.F);
      a[0][0][20] = 1.F;
      filter(a);
      int count = 0;
      for (int i = 0; i <= 40; ++i)
        if (a[0][0][i] != 0.F)
          ++count;
      std::cout << "max_kernel_size " << max_kernel_size << " : impulse response has " << count << " non-zero elements, sum "
                << a.sum() << '\n';
      if (count > max_kernel_size)
        deviation("Gaussian kernel has " + std::to_string(count) + " elements although max_kernel_size is "
                  + std::to_string(max_kernel_size));
      if (std::fabs(a.sum() - 1.F) > 1.E-4)
        deviation("Gaussian kernel with max_kernel_size " + std::to_string(max_kernel_size) + " does not sum to 1");
    }
}

/************ P6: SeparableGaussianImageFilter: setters after set_up *********************/
static void
probe_gaussian_image_filter_setters()
{
  std::cout << "\n--- P6: SeparableGaussianImageFilter: set_fwhms() after the filter has been used\n";
  VoxelsOnCartesianGrid<float> image(
      IndexRange3D(0, 0, -20, 20, -20, 20), CartesianCoordinate3D<float>(0, 0, 0), CartesianCoordinate3D<float>(2.F, 2.F, 2.F));
  image.fill(0.F);
  image[0][0][0] = 1.F;
  VoxelsOnCartesianGrid<float> image2(image);
  VoxelsOnCartesianGrid<float> image3(image);

  SeparableGaussianImageFilter<float> filter;
  filter.set_fwhms(make_coordinate(0.F, 4.F, 4.F));
  filter.apply(image);
  std::cout << "centre value after filtering with FWHM 4mm: " << image[0][0][0] << '\n';
  filter.set_fwhms(make_coordinate(0.F, 12.F, 12.F));
  filter.apply(image2);
  std::cout << "centre value after set_fwhms(12mm) on the same object and filtering a fresh impulse: " << image2[0][0][0] << '\n';
  SeparableGaussianImageFilter<float> fresh_filter;
  fresh_filter.set_fwhms(make_coordinate(0.F, 12.F, 12.F));
  fresh_filter.apply(image3);
  std::cout << "centre value with a new filter object with FWHM 12mm: " << image3[0][0][0] << '\n';
  if (std::fabs(image2[0][0][0] - image3[0][0][0]) > 1.E-4 * image3[0][0][0])
    deviation("SeparableGaussianImageFilter::set_fwhms after a first apply() is ignored (old kernel still used)");
}

/************ P7: DFT filter vs direct convolution when padded length >= 2*data length but kernel is long *********/
static void
probe_dft_wraparound()
{
  std::cout << "\n--- P7: DFT filter versus direct convolution, padded length 16 = 2 * data length 8, kernel -7..7\n";
  const int DFT_size = 16;
  Array<1, float> kernel_for_conv(IndexRange<1>(-7, 7));
  Array<1, float> kernel_for_DFT(IndexRange<1>(0, DFT_size - 1));
  for (int i = -7; i <= 7; ++i)
    {
      kernel_for_conv[i] = rand1();
      kernel_for_DFT[modulo(i, DFT_size)] = kernel_for_conv[i];
    }
  Array<1, float> data(IndexRange<1>(0, 7));
  for (int i = 0; i <= 7; ++i)
    data[i] = rand1();
  ArrayFilterUsingRealDFTWithPadding<1, float> dft_filter;
  if (dft_filter.set_kernel(kernel_for_DFT) != Succeeded::yes)
    {
      deviation("set_kernel failed");
      return;
    }
  ArrayFilter1DUsingConvolution<float> conv_filter(kernel_for_conv);
  {
    Array<1, float> out1(IndexRange<1>(0, 7)), out2(IndexRange<1>(0, 7));
    dft_filter(out1, data);
    conv_filter(out2, data);
    double maxdiff = 0;
    for (int i = 0; i <= 7; ++i)
      maxdiff = std::max(maxdiff, double(std::fabs(out1[i] - out2[i])));
    std::cout << "output range = input range: max difference " << maxdiff << '\n';
    if (maxdiff > 1.E-4)
      deviation("DFT filter differs from convolution on the input range");
  }
  {
    Array<1, float> out1(IndexRange<1>(-7, 14)), out2(IndexRange<1>(-7, 14));
    dft_filter(out1, data);
    conv_filter(out2, data);
    double maxdiff = 0;
    for (int i = -7; i <= 14; ++i)
      maxdiff = std::max(maxdiff, double(std::fabs(out1[i] - out2[i])));
    std::cout << "output range = all influenced indices (-7..14, 22 elements > 16): max difference " << maxdiff << '\n';
    if (maxdiff > 1.E-4)
      deviation("DFT filter with padded length = 2 * data length wraps around for outputs outside the input range "
                "(needs padded length >= data length + kernel length - 1)");
  }
}

/************ P8: set_kernel with a kernel with arbitrary (not zero-based, not power-of-two) range *********/
static void
probe_dft_kernel_range()
{
  std::cout << "\n--- P8: ArrayFilterUsingRealDFTWithPadding::set_kernel with kernel range -3..3\n";
  Array<1, float> kernel(IndexRange<1>(-3, 3));
  for (int i = -3; i <= 3; ++i)
    kernel[i] = rand1();
  ArrayFilterUsingRealDFTWithPadding<1, float> dft_filter;
  try
    {
      if (dft_filter.set_kernel(kernel) != Succeeded::yes)
        std::cout << "set_kernel returned Succeeded::no\n";
      else
        std::cout << "set_kernel succeeded\n";
    }
  catch (std::exception& e)
    {
      deviation(std::string("set_kernel with a 7-element kernel -3..3 throws instead of padding or returning Succeeded::no: ")
                + e.what());
    }
  // -3..4 is accepted (8 elements) but then the padded length is the kernel length
  Array<1, float> kernel8(IndexRange<1>(-3, 4));
  for (int i = -3; i <= 4; ++i)
    kernel8[i] = rand1();
  ArrayFilterUsingRealDFTWithPadding<1, float> dft_filter8(kernel8);
  ArrayFilter1DUsingConvolution<float> conv_filter8(kernel8);
  Array<1, float> data(IndexRange<1>(0, 19));
  for (int i = 0; i <= 19; ++i)
    data[i] = rand1();
  Array<1, float> out1(data.get_index_range()), out2(data.get_index_range());
  dft_filter8(out1, data);
  conv_filter8(out2, data);
  double maxdiff = 0;
  for (int i = 0; i <= 19; ++i)
    maxdiff = std::max(maxdiff, double(std::fabs(out1[i] - out2[i])));
  std::cout << "kernel -3..4 on data of length 20: max difference DFT versus convolution " << maxdiff
            << " (data are silently wrapped into 8 elements)\n";
  if (maxdiff > 1.E-4)
    deviation("DFT filter constructed from a short kernel silently wraps longer data around (no check on data length)");
}

/************ P9: separable Gaussian equals successive 1D filters in any order (sanity, expected to hold) ********/
static void
probe_separable_order()
{
  std::cout << "\n--- P9: separable Gaussian versus one dimension at a time in other orders (expected to agree)\n";
  Array<3, float> a(IndexRange3D(-3, 5, 2, 14, -8, 6));
  for (auto it = a.begin_all(); it != a.end_all(); ++it)
    *it = rand1();
  const BasicCoordinate<3, float> fwhms = make_coordinate(2.5F, 3.7F, 1.9F);
  const BasicCoordinate<3, int> max_kernel_sizes = make_coordinate(-1, 7, 5);
  Array<3, float> all_at_once(a);
  SeparableGaussianArrayFilter<3, float>(fwhms, max_kernel_sizes, true)(all_at_once);
  const int orders[][3] = { { 1, 2, 3 }, { 3, 2, 1 }, { 2, 3, 1 }, { 3, 1, 2 } };
  for (const auto& order : orders)
    {
      Array<3, float> b(a);
      for (int k = 0; k < 3; ++k)
        {
          BasicCoordinate<3, float> f = make_coordinate(0.F, 0.F, 0.F);
          f[order[k]] = fwhms[order[k]];
          SeparableGaussianArrayFilter<3, float>(f, max_kernel_sizes, true)(b);
        }
      b -= all_at_once;
      const double maxdiff = std::max(std::fabs(b.find_max()), std::fabs(b.find_min()));
      std::cout << "order " << order[0] << order[1] << order[2] << " : max difference " << maxdiff << '\n';
      if (maxdiff > 1.E-5)
        deviation("separable Gaussian differs from successive 1D filters");
    }
}

int
main()
{
  srand(1234);
  probe_length_2();
  probe_non_power_of_two();
  probe_metz();
  probe_gaussian_kernel_size();
  probe_gaussian_image_filter_setters();
  probe_dft_wraparound();
  probe_dft_kernel_range();
  probe_separable_order();
  std::cout << "\nTotal number of deviations: " << num_deviations << '\n';
  return num_deviations;
}
