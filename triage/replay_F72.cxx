// F72: the balanced-subsets report of the list-mode objective function counted bins with loops that stop BEFORE the last axial and
// tangential position: for data with one axial position per segment (single ring) all counts are 0 and any number of subsets is
// reported as balanced
#include "extra-C14-5/synth_lm.h"
#include "stir/recon_buildblock/ProjMatrixByBinUsingRayTracing.h"
#include <iostream>
using namespace stir;
using namespace synth;
static int
one_case(const int num_rings, const int num_subsets, const bool expect_balanced)
{
  shared_ptr<Scanner> scanner = make_scanner(num_rings, 32, 15, false);
  shared_ptr<ExamInfo> exam_info = make_exam_info();
  shared_ptr<ProjDataInfo> pdi(ProjDataInfo::construct_proj_data_info(scanner, 1, num_rings - 1, 16, 15, false).release());
  shared_ptr<SynthLM> lm(new SynthLM(exam_info, pdi, make_stream(*scanner, 1, 5, 10, 0.2, false), true));
  shared_ptr<target_type> image = make_image(exam_info, *pdi, 11);
  LMObj o;
  o.set_input_data(lm);
  shared_ptr<ProjMatrixByBinUsingRayTracing> pm(new ProjMatrixByBinUsingRayTracing());
  // no symmetries: a subset then is a residue class of the views
  pm->set_do_symmetry_90degrees_min_phi(false);
  pm->set_do_symmetry_180degrees_min_phi(false);
  pm->set_do_symmetry_swap_segment(false);
  pm->set_do_symmetry_swap_s(false);
  pm->set_do_symmetry_shift_z(false);
  o.set_proj_matrix(pm);
  o.set_num_subsets(num_subsets);
  o.set_use_subset_sensitivities(true);
  o.set_skip_balanced_subsets(false);
  bool set_up_ok = true;
  try
    {
      set_up_ok = o.set_up(image) == Succeeded::yes;
    }
  catch (...)
    {
      set_up_ok = false;
    }
  std::string msg;
  const bool balanced = o.subsets_are_approximately_balanced(msg);
  std::cout << num_rings << " ring(s), 16 views, " << num_subsets << " subsets: reported " << (balanced ? "balanced" : "NOT balanced") << " (views per subset are "
            << (expect_balanced ? "equal" : "unequal") << "; set_up " << (set_up_ok ? "succeeded" : "refused") << ")\n";
  return balanced != expect_balanced;
}
int
main()
{
  Verbosity::set(0);
  int bad = 0;
  bad += one_case(1, 3, false);
  bad += one_case(1, 4, true);
  bad += one_case(3, 3, false);
  bad += one_case(3, 4, true);
  std::cout << (bad ? "DEVIATIONS " : "ok ") << bad << "\n";
  return bad;
}
