// F84: KeyParser::remove_key compared its argument as given with the standardised keywords of the keymap:
// remove_key("PET data type") (InterfileHeaderSiemens) never removed anything
#include "stir/KeyParser.h"
#include <iostream>
using namespace stir;
int
main()
{
  KeyParser parser;
  int a = 0, b = 0;
  parser.add_key("List Of Ints", &a);
  parser.add_key("lower case key", &b);
  int bad = 0;
  const bool r1 = parser.remove_key("List Of Ints");
  std::cout << "remove_key(\"List Of Ints\") after add_key(\"List Of Ints\"): " << (r1 ? "removed" : "NOT FOUND") << "\n";
  if (!r1)
    ++bad;
  const bool r2 = parser.remove_key("lower  case KEY");
  std::cout << "remove_key(\"lower  case KEY\") after add_key(\"lower case key\"): " << (r2 ? "removed" : "NOT FOUND") << "\n";
  if (!r2)
    ++bad;
  const bool r3 = parser.remove_key("not there");
  std::cout << "remove_key(\"not there\"): " << (r3 ? "removed" : "not found") << "\n";
  if (r3)
    ++bad;
  std::cout << (bad ? "DEVIATIONS " : "ok ") << bad << "\n";
  return bad;
}
