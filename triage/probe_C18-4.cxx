/*
  Probe of the UNMODIFIED STIR libraries (built with -DSTIR_OPENMP=ON) for property C18:
  "multi-threaded execution gives the single-thread result under every schedule".

  Prints what it observes; exit code = number of probes that showed a deviation (or crashed).
  Every probe runs in a forked child such that a crash is an observation and not the end of the probe.
*/
#include "stir/VoxelsOnCartesianGrid.h"
#include "stir/ProjData.h"
#include "stir/ExamInfo.h"
#include "stir/ProjDataInfo.h"
#include "stir/ProjDataInfoCylindricalNoArcCorr.h"
#include "stir/ProjDataInMemory.h"
#include "stir/SegmentByView.h"
#include "stir/Scanner.h"
#include "stir/Bin.h"
#include "stir/Shape/EllipsoidalCylinder.h"
#include "stir/scatter/SingleScatterSimulation.h"
#include "stir/recon_buildblock/PoissonLogLikelihoodWithLinearModelForMeanAndProjData.h"
#include "stir/recon_buildblock/ProjMatrixByBinUsingRayTracing.h"
#include "stir/recon_buildblock/ProjMatrixElemsForOneBin.h"
#include "stir/recon_buildblock/ProjectorByBinPairUsingProjMatrixByBin.h"
#include "stir/recon_buildblock/BinNormalisationFromProjData.h"
#include "stir/recon_buildblock/distributable.h"
#include "stir/recon_buildblock/distributable.txx"
#include "stir/TextWriter.h"
#include "stir/Verbosity.h"
#include "stir/Succeeded.h"
#include <boost/random/uniform_01.hpp>
#include <boost/random/mersenne_twister.hpp>
#include <iostream>
#include <cmath>
#include <cstring>
#include <cstdio>
#include <unistd.h>
#include <sys/wait.h>
#include <omp.h>

using namespace stir;
typedef DiscretisedDensity<3, float> target_type;

class NullWriter : public aTextWriter
{
public:
  void write(const char*) const override {}
};
static NullWriter null_writer;

struct Setup
{
  shared_ptr<ProjDataInfo> proj_data_info_sptr;
  shared_ptr<ExamInfo> exam_info_sptr;
  shared_ptr<ProjData> proj_data_sptr, mult_proj_data_sptr, add_proj_data_sptr;
  shared_ptr<target_type> density_sptr;
  shared_ptr<PoissonLogLikelihoodWithLinearModelForMeanAndProjData<target_type>> obj_sptr;
};

static void
fill(ProjData& pd, const float a, const float b, const float norm_to)
{
  for (int seg_num = pd.get_min_segment_num(); seg_num <= pd.get_max_segment_num(); ++seg_num)
    {
      SegmentByView<float> segment = pd.get_empty_segment_by_view(seg_num);
      float value = 0;
      for (SegmentByView<float>::full_iterator iter = segment.begin_all(); iter != segment.end_all(); ++iter)
        {
          value = float(std::fabs((seg_num + a) * value - b));
          *iter = value;
        }
      if (norm_to > 0)
        segment /= segment.find_max() / norm_to;
      pd.set_segment(segment);
    }
}

static void
construct_data(Setup& s)
{
  shared_ptr<Scanner> scanner_sptr(new Scanner(Scanner::E953));
  scanner_sptr->set_num_rings(5);
  s.proj_data_info_sptr.reset(ProjDataInfo::ProjDataInfoCTI(scanner_sptr, /*span=*/3, /*max_delta=*/4, 16, 16));
  s.exam_info_sptr.reset(new ExamInfo(ImagingModality::PT));
  s.proj_data_sptr.reset(new ProjDataInMemory(s.exam_info_sptr, s.proj_data_info_sptr));
  fill(*s.proj_data_sptr, .1F, 5.F, -1.F);
  s.density_sptr.reset(
      new VoxelsOnCartesianGrid<float>(s.exam_info_sptr, *s.proj_data_info_sptr, 1.F, CartesianCoordinate3D<float>(0, 0, 0)));
  {
    boost::mt19937 generator(boost::uint32_t(42));
    boost::uniform_01<boost::mt19937> random01(generator);
    for (target_type::full_iterator iter = s.density_sptr->begin_all(); iter != s.density_sptr->end_all(); ++iter)
      *iter = static_cast<float>(random01()) + .1F;
  }
  {
    BasicCoordinate<3, int> min_ind, max_ind;
    if (s.density_sptr->get_regular_range(min_ind, max_ind))
      {
        for (int d = 2; d <= 3; ++d)
          {
            min_ind[d] = std::min(min_ind[d], -max_ind[d]);
            max_ind[d] = std::max(-min_ind[d], max_ind[d]);
          }
        s.density_sptr->grow(IndexRange<3>(min_ind, max_ind));
      }
  }
  s.mult_proj_data_sptr.reset(new ProjDataInMemory(s.exam_info_sptr, s.proj_data_info_sptr));
  fill(*s.mult_proj_data_sptr, .3F, .2F, 2.F);
  s.add_proj_data_sptr.reset(new ProjDataInMemory(s.exam_info_sptr, s.proj_data_info_sptr));
  fill(*s.add_proj_data_sptr, .2F, .3F, 3.F);
}

static bool
construct(Setup& s, const int num_subsets = 2)
{
  construct_data(s);
  shared_ptr<BinNormalisation> bin_norm_sptr(new BinNormalisationFromProjData(s.mult_proj_data_sptr));
  s.obj_sptr.reset(new PoissonLogLikelihoodWithLinearModelForMeanAndProjData<target_type>);
  s.obj_sptr->set_proj_data_sptr(s.proj_data_sptr);
  s.obj_sptr->set_use_subset_sensitivities(true);
  shared_ptr<ProjMatrixByBin> proj_matrix_sptr(new ProjMatrixByBinUsingRayTracing());
  shared_ptr<ProjectorByBinPair> proj_pair_sptr(new ProjectorByBinPairUsingProjMatrixByBin(proj_matrix_sptr));
  s.obj_sptr->set_projector_pair_sptr(proj_pair_sptr);
  s.obj_sptr->set_normalisation_sptr(bin_norm_sptr);
  s.obj_sptr->set_additive_proj_data_sptr(s.add_proj_data_sptr);
  s.obj_sptr->set_num_subsets(num_subsets);
  return s.obj_sptr->set_up(s.density_sptr) == Succeeded::yes;
}

static double
rel_diff(const target_type& a, const target_type& b)
{
  double num = 0, den = 0;
  target_type::const_full_iterator ia = a.begin_all_const();
  target_type::const_full_iterator ib = b.begin_all_const();
  for (; ia != a.end_all_const(); ++ia, ++ib)
    {
      num += (double(*ia) - *ib) * (double(*ia) - *ib);
      den += double(*ia) * *ia;
    }
  return std::sqrt(num / (den > 0 ? den : 1));
}

struct Results
{
  double value;
  shared_ptr<target_type> grad0, grad1, sens, hess, approx_hess;
};

// everything computed with a fresh object that is set-up with setup_threads and run with run_threads
static Results
compute_all(const int setup_threads, const int run_threads, const bool use_plain_omp_call = false)
{
  Results r;
  Setup s;
  if (use_plain_omp_call)
    omp_set_num_threads(setup_threads);
  else
    set_num_threads(setup_threads);
  if (!construct(s))
    {
      std::printf("   set_up failed\n");
      _exit(99);
    }
  if (run_threads > 0)
    set_num_threads(run_threads);
  r.value = s.obj_sptr->compute_objective_function(*s.density_sptr);
  r.grad0.reset(s.density_sptr->get_empty_copy());
  r.grad1.reset(s.density_sptr->get_empty_copy());
  s.obj_sptr->compute_sub_gradient(*r.grad0, *s.density_sptr, 0);
  s.obj_sptr->compute_sub_gradient(*r.grad1, *s.density_sptr, 1);
  r.sens.reset(s.obj_sptr->get_sensitivity().clone());
  r.hess.reset(s.density_sptr->get_empty_copy());
  s.obj_sptr->accumulate_Hessian_times_input(*r.hess, *s.density_sptr, *s.density_sptr);
  r.approx_hess.reset(s.density_sptr->get_empty_copy());
  s.obj_sptr->add_multiplication_with_approximate_Hessian(*r.approx_hess, *s.density_sptr);
  return r;
}

static int
compare(const Results& ref, const Results& r, const char* const what)
{
  const double dv = std::fabs(r.value - ref.value) / std::fabs(ref.value);
  const double d0 = rel_diff(*ref.grad0, *r.grad0), d1 = rel_diff(*ref.grad1, *r.grad1), ds = rel_diff(*ref.sens, *r.sens),
               dh = rel_diff(*ref.hess, *r.hess), da = rel_diff(*ref.approx_hess, *r.approx_hess);
  const bool ok = dv < 1E-5 && d0 < 1E-4 && d1 < 1E-4 && ds < 1E-4 && dh < 1E-4 && da < 1E-4;
  std::printf("   %s: rel.diff value %.1e grad(subset0) %.1e grad(subset1) %.1e sens %.1e Hessian*x %.1e approxHessian*x %.1e : %s\n",
              what,
              dv,
              d0,
              d1,
              ds,
              dh,
              da,
              ok ? "ok" : "DEVIATION");
  std::fflush(stdout);
  return ok ? 0 : 1;
}

//////////////////// probe 1: thread sweep, set_up and run with the same number of threads
static int
probe_thread_sweep()
{
  int dev = 0;
  const Results ref = compute_all(1, 1);
  for (int repeat = 0; repeat < 3; ++repeat)
    for (int t = 2; t <= 16; t += (t < 4 ? 1 : 4))
      {
        char what[100];
        std::snprintf(what, 100, "fresh objects, set_up and run with %2d threads (repeat %d)", t, repeat);
        dev += compare(ref, compute_all(t, t), what);
      }
  return dev;
}

//////////////////// probe 2: number of threads increased after set_up
static int variant = 0;
static int
probe_more_threads_than_at_setup()
{
  if (variant == 0)
    {
      const Results ref = compute_all(1, 1);
      return compare(ref, compute_all(2, 8), "stir::set_num_threads(2), set_up(), stir::set_num_threads(8), compute");
    }
  else
    {
      // note: has to be the first thing in this process, as stir::set_num_threads() (called without argument by
      // setup_distributable_computation()) only switches to the default number of threads if it was never called before
      const Results r = compute_all(1, -1, true);
      const Results ref = compute_all(1, 1);
      return compare(
          ref, r, "omp_set_num_threads(1) (and no call to stir::set_num_threads), set_up() (which computes the sensitivity)");
    }
}

//////////////////// probe 3: LM_distributable_computation with synthetic events, cold cache
static void
LM_grad_and_value(DiscretisedDensity<3, float>& output_image,
                  const ProjMatrixElemsForOneBin& row,
                  const float add_term,
                  const Bin& measured_bin,
                  const DiscretisedDensity<3, float>& input_image,
                  double* value_ptr)
{
  Bin fwd_bin = measured_bin;
  fwd_bin.set_bin_value(0.0f);
  row.forward_project(fwd_bin, input_image);
  const float fwd = fwd_bin.get_bin_value() + add_term;
  if (fwd <= 0)
    return;
  fwd_bin.set_bin_value(measured_bin.get_bin_value() / fwd);
  row.back_project(output_image, fwd_bin);
  if (value_ptr)
    *value_ptr -= measured_bin.get_bin_value() * std::log(double(fwd));
}

static void
LM_value_only(DiscretisedDensity<3, float>&,
              const ProjMatrixElemsForOneBin& row,
              const float add_term,
              const Bin& measured_bin,
              const DiscretisedDensity<3, float>& input_image,
              double* value_ptr)
{
  Bin fwd_bin = measured_bin;
  fwd_bin.set_bin_value(0.0f);
  row.forward_project(fwd_bin, input_image);
  const float fwd = fwd_bin.get_bin_value() + add_term;
  if (fwd <= 0)
    return;
  *value_ptr -= measured_bin.get_bin_value() * std::log(double(fwd));
}

static void
LM_run(shared_ptr<target_type>& grad, double& value, double& value_only, const Setup& s, const std::vector<BinAndCorr>& records,
       const int num_threads, const int subset_num, const int num_subsets)
{
  set_num_threads(num_threads);
  // fresh matrix, i.e. cold cache
  shared_ptr<ProjMatrixByBin> PM_sptr(new ProjMatrixByBinUsingRayTracing());
  PM_sptr->set_up(s.proj_data_info_sptr, s.density_sptr);
  grad.reset(s.density_sptr->get_empty_copy());
  value = 0;
  LM_distributable_computation(
      PM_sptr, s.proj_data_info_sptr, grad.get(), s.density_sptr.get(), records, subset_num, num_subsets, true, false, &value,
      LM_grad_and_value);
  // second call, warm cache, value only (as the LM objective function does, with a null output image)
  value_only = 0;
  LM_distributable_computation(
      PM_sptr, s.proj_data_info_sptr, nullptr, s.density_sptr.get(), records, subset_num, num_subsets, true, true, &value_only,
      LM_value_only);
}

static int
probe_LM()
{
  int dev = 0;
  Setup s;
  construct_data(s);
  std::vector<BinAndCorr> records;
  {
    const ProjDataInfo& pdi = *s.proj_data_info_sptr;
    boost::mt19937 generator(boost::uint32_t(43));
    boost::uniform_01<boost::mt19937> random01(generator);
    for (int seg = pdi.get_min_segment_num(); seg <= pdi.get_max_segment_num(); ++seg)
      for (int view = pdi.get_min_view_num(); view <= pdi.get_max_view_num(); ++view)
        for (int ax = pdi.get_min_axial_pos_num(seg); ax <= pdi.get_max_axial_pos_num(seg); ++ax)
          for (int tang = pdi.get_min_tangential_pos_num() + 1; tang <= pdi.get_max_tangential_pos_num() - 1; ++tang)
            {
              BinAndCorr r;
              r.my_bin = Bin(seg, view, ax, tang, 1.F);
              r.my_corr = .2F + static_cast<float>(random01());
              records.push_back(r);
            }
    // shuffle a bit, such that neighbouring events (handled at the same time by different threads) share basic bins
    for (std::size_t i = 0; i + 7 < records.size(); i += 3)
      std::swap(records[i], records[(i * 7919) % records.size()]);
  }
  std::printf("   %lu synthetic events\n", (unsigned long)records.size());
  for (int num_subsets = 1; num_subsets <= 4; num_subsets += 3)
    {
      const int subset_num = num_subsets - 1;
      shared_ptr<target_type> grad_ref;
      double value_ref, value_only_ref;
      LM_run(grad_ref, value_ref, value_only_ref, s, records, 1, subset_num, num_subsets);
      for (int repeat = 0; repeat < 3; ++repeat)
        for (int t = 2; t <= 16; t += (t < 4 ? 1 : 4))
          {
            shared_ptr<target_type> grad;
            double value, value_only;
            LM_run(grad, value, value_only, s, records, t, subset_num, num_subsets);
            const double dg = rel_diff(*grad_ref, *grad);
            const double dv = std::fabs(value - value_ref) / std::fabs(value_ref);
            const double dvo = std::fabs(value_only - value_only_ref) / std::fabs(value_only_ref);
            const bool ok = dg < 1E-4 && dv < 1E-6 && dvo < 1E-6;
            std::printf("   LM subset %d/%d, %2d threads (repeat %d): rel.diff gradient %.1e value %.1e value(null output image) "
                        "%.1e : %s\n",
                        subset_num,
                        num_subsets,
                        t,
                        repeat,
                        dg,
                        dv,
                        dvo,
                        ok ? "ok" : "DEVIATION");
            std::fflush(stdout);
            if (!ok)
              ++dev;
          }
    }
  return dev;
}

//////////////////// probe 4: scatter simulation
static shared_ptr<ProjDataInMemory>
run_scatter(const int num_threads)
{
  set_num_threads(num_threads);
  unique_ptr<SingleScatterSimulation> sss(new SingleScatterSimulation());
  shared_ptr<Scanner> test_scanner(new Scanner(Scanner::E931));
  if (!test_scanner->has_energy_information())
    {
      test_scanner->set_reference_energy(511);
      test_scanner->set_energy_resolution(0.34f);
    }
  shared_ptr<ExamInfo> exam(new ExamInfo);
  exam->set_low_energy_thres(450);
  exam->set_high_energy_thres(650);
  exam->imaging_modality = ImagingModality::PT;
  sss->set_exam_info(*exam);
  shared_ptr<ProjDataInfoCylindricalNoArcCorr> original_projdata_info(dynamic_cast<ProjDataInfoCylindricalNoArcCorr*>(
      ProjDataInfo::ProjDataInfoCTI(test_scanner,
                                    1,
                                    0,
                                    test_scanner->get_num_detectors_per_ring() / 2,
                                    test_scanner->get_max_num_non_arccorrected_bins(),
                                    false)));
  shared_ptr<VoxelsOnCartesianGrid<float>> tmpl_density(new VoxelsOnCartesianGrid<float>(exam, *original_projdata_info));
  CartesianCoordinate3D<int> min_ind, max_ind;
  tmpl_density->get_regular_range(min_ind, max_ind);
  CartesianCoordinate3D<float> centre(
      (tmpl_density->get_physical_coordinates_for_indices(min_ind) + tmpl_density->get_physical_coordinates_for_indices(max_ind))
      / 2.F);
  EllipsoidalCylinder phantom(50.F, 50.F, 50.F, centre);
  CartesianCoordinate3D<int> num_samples(2, 2, 2);
  shared_ptr<VoxelsOnCartesianGrid<float>> water_density(tmpl_density->clone());
  phantom.construct_volume(*water_density, num_samples);
  *water_density *= 9.687E-02;
  sss->set_density_image_sptr(water_density);
  shared_ptr<VoxelsOnCartesianGrid<float>> act_density(tmpl_density->clone());
  phantom.construct_volume(*act_density, num_samples);
  sss->set_activity_image_sptr(act_density);
  sss->set_randomly_place_scatter_points(false);
  sss->set_template_proj_data_info(*original_projdata_info);
  sss->downsample_scanner(original_projdata_info->get_scanner_sptr()->get_num_rings() / 2, 32);
  sss->downsample_density_image_for_scatter_points(.2F, -1.F, -1, 5);
  shared_ptr<ProjDataInMemory> out(new ProjDataInMemory(sss->get_exam_info_sptr(), sss->get_template_proj_data_info_sptr()));
  sss->set_output_proj_data_sptr(out);
  if (sss->set_up() != Succeeded::yes)
    {
      std::printf("   scatter set_up failed\n");
      _exit(98);
    }
  if (sss->process_data() != Succeeded::yes)
    {
      std::printf("   scatter process_data with %d threads returned Succeeded::no\n", num_threads);
      out.reset();
    }
  return out;
}

static int
probe_scatter()
{
  int dev = 0;
  shared_ptr<ProjDataInMemory> ref = run_scatter(1);
  if (!ref)
    return 1;
  for (int repeat = 0; repeat < 3; ++repeat)
    for (int t = 2; t <= 16; t *= 2)
      {
        shared_ptr<ProjDataInMemory> out = run_scatter(t);
        if (!out)
          {
            ++dev;
            continue;
          }
        double num = 0, den = 0;
        ProjDataInMemory::const_iterator i1 = ref->begin();
        ProjDataInMemory::const_iterator i2 = out->begin();
        for (; i1 != ref->end(); ++i1, ++i2)
          {
            num += (double(*i1) - *i2) * (double(*i1) - *i2);
            den += double(*i1) * *i1;
          }
        const double d = std::sqrt(num / den);
        const bool ok = d < 1E-5;
        std::printf("   scatter simulation, %2d threads (repeat %d): rel.diff w.r.t. 1 thread %.1e : %s\n",
                    t,
                    repeat,
                    d,
                    ok ? "ok" : "DEVIATION");
        std::fflush(stdout);
        if (!ok)
          ++dev;
      }
  return dev;
}

////////////////////
static int
run_in_child(const char* const name, int (*probe)())
{
  std::printf("%s\n", name);
  std::fflush(stdout);
  const pid_t pid = fork();
  if (pid == 0)
    {
      TextWriterHandle h;
      h.set_information_channel(&null_writer);
      h.set_warning_channel(&null_writer);
      Verbosity::set(0);
      const int deviations = probe();
      std::fflush(stdout);
      _exit(deviations > 90 ? 90 : deviations);
    }
  int status = 0;
  waitpid(pid, &status, 0);
  if (WIFSIGNALED(status))
    {
      std::printf("   => child CRASHED with signal %d (%s)\n", WTERMSIG(status), strsignal(WTERMSIG(status)));
      return 1;
    }
  if (WEXITSTATUS(status) != 0)
    {
      std::printf("   => %d deviation(s)\n", WEXITSTATUS(status));
      return 1;
    }
  std::printf("   => no deviation seen\n");
  return 0;
}

int
main(int argc, char** argv)
{
  int deviations = 0;
  const bool all = argc < 2;
  if (all || std::strchr(argv[1], '1'))
    deviations += run_in_child("probe 1: value/gradient/sensitivity/Hessian, thread sweep with fresh objects", probe_thread_sweep);
  if (all || std::strchr(argv[1], '2'))
    {
      variant = 0;
      deviations += run_in_child("probe 2a: number of threads raised after set_up() (BackProjectorByBin per-thread images)",
                                 probe_more_threads_than_at_setup);
      variant = 1;
      deviations += run_in_child("probe 2b: number of threads set with omp_set_num_threads(1) before set_up()",
                                 probe_more_threads_than_at_setup);
    }
  if (all || std::strchr(argv[1], '3'))
    deviations += run_in_child("probe 3: LM_distributable_computation with synthetic events, cold matrix cache", probe_LM);
  if (all || std::strchr(argv[1], '4'))
    deviations += run_in_child("probe 4: single scatter simulation, fresh objects", probe_scatter);
  std::printf("number of probes with deviations: %d\n", deviations);
  return deviations;
}
