// replay of candidate finding F15 (C05): TOF data: the Hessian-times-vector of the log-likelihood must be the directional derivative of
// its gradient:  accumulate_sub_Hessian_times_input_without_penalty(out, x, v, s) == (grad_s(x + e v) - grad_s(x - e v)) / (2 e)
#include "stir/recon_buildblock/PoissonLogLikelihoodWithLinearModelForMeanAndProjData.h"
#include "stir/recon_buildblock/ProjMatrixByBinUsingRayTracing.h"
#include "stir/recon_buildblock/ProjectorByBinPairUsingProjMatrixByBin.h"
#include "stir/recon_buildblock/QuadraticPrior.h"
#include "stir/ProjDataInMemory.h"
#include "stir/ProjDataInfo.h"
#include "stir/Scanner.h"
#include "stir/VoxelsOnCartesianGrid.h"
#include "stir/SegmentByView.h"
#include <cmath>
#include <cstdlib>
#include <iostream>
using namespace stir;
typedef DiscretisedDensity<3, float> target_type;
int main()
{
  const bool tof = getenv("REPLAY_NONTOF") == 0;
  shared_ptr<Scanner> scanner_sptr(new Scanner(tof ? Scanner::Discovery690 : Scanner::E953));
  scanner_sptr->set_num_rings(tof ? 4 : 5);
  shared_ptr<ProjDataInfo> pdi(tof ? ProjDataInfo::construct_proj_data_info(scanner_sptr, 3, 2, 16, 16, false, 11) : shared_ptr<ProjDataInfo>(ProjDataInfo::ProjDataInfoCTI(scanner_sptr, 3, 4, 16, 16)));
  std::cout << (tof ? "TOF data, " : "non-TOF data, ") << pdi->get_num_tof_poss() << " TOF bins\n";
  shared_ptr<ExamInfo> exam_info_sptr(new ExamInfo(ImagingModality::PT));
  shared_ptr<ProjData> proj_data_sptr(new ProjDataInMemory(exam_info_sptr, pdi));
  for (int seg = proj_data_sptr->get_min_segment_num(); seg <= proj_data_sptr->get_max_segment_num(); ++seg)
    {
      for (int k = proj_data_sptr->get_min_tof_pos_num(); k <= proj_data_sptr->get_max_tof_pos_num(); ++k)
        {
          SegmentByView<float> segment = proj_data_sptr->get_empty_segment_by_view(seg, false, k);
          float value = 0;
          for (auto iter = segment.begin_all(); iter != segment.end_all(); ++iter)
            {
              // bounded positive pseudo-random counts that differ between segments and TOF bins
              value = float(std::fmod(value * 1.7 + 0.31 + 0.05 * seg + 0.013 * k, 1.));
              *iter = 1 + 9 * value + (k + 2);
            }
          proj_data_sptr->set_segment(segment);
        }
    }
  shared_ptr<target_type> x(new VoxelsOnCartesianGrid<float>(exam_info_sptr, *pdi, 1.F, CartesianCoordinate3D<float>(0, 0, 0)));
  shared_ptr<target_type> v(x->get_empty_copy());
  {
    float t = 0.3F;
    for (auto i = x->begin_all(); i != x->end_all(); ++i)
      {
        t = std::fmod(t * 1.7F + 0.31F, 1.F);
        *i = 0.5F + t;
      }
    for (auto i = v->begin_all(); i != v->end_all(); ++i)
      {
        t = std::fmod(t * 1.3F + 0.17F, 1.F);
        *i = 0.1F + t;
      }
  }
  PoissonLogLikelihoodWithLinearModelForMeanAndProjData<target_type> obj;
  obj.set_proj_data_sptr(proj_data_sptr);
  shared_ptr<ProjMatrixByBin> pm(new ProjMatrixByBinUsingRayTracing());
  shared_ptr<ProjectorByBinPair> pp(new ProjectorByBinPairUsingProjMatrixByBin(pm));
  obj.set_projector_pair_sptr(pp);
  obj.set_num_subsets(2);
  obj.set_up(x);
  int bad = 0;
  const float eps = 1e-2F;
  for (int s = 0; s < 2; ++s)
    {
      shared_ptr<target_type> Hv(x->get_empty_copy()), gp(x->get_empty_copy()), gm(x->get_empty_copy());
      shared_ptr<target_type> xp(x->clone()), xm(x->clone());
      {
        auto p = xp->begin_all();
        auto m = xm->begin_all();
        for (auto i = v->begin_all(); i != v->end_all(); ++i, ++p, ++m)
          {
            *p += eps * *i;
            *m -= eps * *i;
          }
      }
      if (getenv("REPLAY_HESSIAN_FIRST"))
        obj.accumulate_sub_Hessian_times_input_without_penalty(*Hv, *x, *v, s);
      obj.compute_sub_gradient_without_penalty(*gp, *xp, s);
      obj.compute_sub_gradient_without_penalty(*gm, *xm, s);
      if (!getenv("REPLAY_HESSIAN_FIRST"))
        obj.accumulate_sub_Hessian_times_input_without_penalty(*Hv, *x, *v, s);
      double maxdiff = 0, scale = 0;
      auto h = Hv->begin_all();
      auto a = gp->begin_all();
      auto b = gm->begin_all();
      for (; h != Hv->end_all(); ++h, ++a, ++b)
        {
          const double expect = (*a - *b) / (2 * eps);
          maxdiff = std::max(maxdiff, std::fabs(*h - expect));
          scale = std::max(scale, std::fabs(expect));
        }
      std::cout << "subset " << s << ": max |H v - finite difference of the gradient| = " << maxdiff << " (scale " << scale << ")\n";
      if (maxdiff > 2e-2 * scale)
        ++bad;
    }
  return bad ? 1 : 0;
}
