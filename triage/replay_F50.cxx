// replay of candidate F49 (C17): Siemens Interfile header: the non-vectorised keys `image duration (sec)` /
// `image relative start time (sec)` are registered with the address of element 0 of vectors that a
// `number of time frames` line resizes afterwards. Build with the parser sources compiled with AddressSanitizer.
#include "stir/IO/InterfileHeaderSiemens.h"
#include <sstream>
#include <iostream>
using namespace stir;
int main()
{
  const char* header = "!INTERFILE:=\n"
                       "%comment:=synthetic\n"
                       "number of time frames:=3\n"
                       "image duration (sec):=5\n"
                       "image relative start time (sec):=7\n"
                       "!END OF INTERFILE:=\n";
  InterfileListmodeHeaderSiemens hdr;
  std::stringstream s(header);
  try
    {
      const bool ok = hdr.parse(s);
      std::cout << "parse returned " << ok << std::endl;
    }
  catch (std::exception& e)
    {
      std::cout << "rejected: " << e.what() << std::endl;
    }
  return 0;
}
