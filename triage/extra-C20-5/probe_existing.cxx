/*
  Probe of the UNMODIFIED STIR code for deviations from the property
  "component-based normalisation: data conversions are lossless, ML steps descend".

  Prints what it observes; exit code = number of deviations seen.
*/
#include "stir/ML_norm.h"
#include "stir/Scanner.h"
#include "stir/ProjDataInfo.h"
#include "stir/ProjDataInMemory.h"
#include "stir/ExamInfo.h"
#include "stir/Bin.h"
#include "stir/IndexRange2D.h"
#include <random>
#include <iostream>
#include <cmath>
#include <algorithm>

using namespace stir;

static std::mt19937 rng(12345);

static float
rnd(const float lo, const float hi)
{
  return std::uniform_real_distribution<float>(lo, hi)(rng);
}

template <class F>
static void
for_all(const FanProjData& f, F func)
{
  for (int ra = f.get_min_ra(); ra <= f.get_max_ra(); ++ra)
    for (int a = f.get_min_a(); a <= f.get_max_a(); ++a)
      for (int rb = std::max(ra, f.get_min_rb(ra)); rb <= f.get_max_rb(ra); ++rb)
        for (int b = f.get_min_b(a); b <= f.get_max_b(a); ++b)
          func(ra, a, rb, b);
}

static void
fill_random_symmetric(FanProjData& f, const float lo, const float hi)
{
  for_all(f, [&](int ra, int a, int rb, int b) { f(ra, a, rb, b) = rnd(lo, hi); });
  // in-plane pairs are stored twice: make them equal
  const int N = f.get_num_detectors_per_ring();
  for_all(f, [&](int ra, int a, int rb, int b) {
    if (ra == rb)
      f(ra, b % N, ra, a) = f(ra, a, rb, b);
  });
}

static shared_ptr<Scanner>
make_scanner(const int num_axial_blocks, const int nax, const int num_transaxial_blocks, const int ntc, const int num_tang_poss)
{
  return shared_ptr<Scanner>(new Scanner(Scanner::User_defined_scanner,
                                         "probe_scanner",
                                         num_transaxial_blocks * ntc,
                                         num_axial_blocks * nax,
                                         num_tang_poss,
                                         num_tang_poss,
                                         200.F,
                                         5.F,
                                         4.F,
                                         2.F,
                                         0.F,
                                         1,
                                         1,
                                         nax,
                                         ntc,
                                         1,
                                         1,
                                         1));
}

//////////////////////////////////////////////////////////////////////////
// 1. projdata <-> FanProjData with an even number of tangential positions
static int
probe_even_tangential()
{
  std::cout << "\n[1] projdata -> fan data -> projdata with an EVEN number of tangential positions\n";
  int deviations = 0;
  for (int num_tang_poss : { 15, 16 })
    {
      auto scanner_sptr = make_scanner(2, 4, 8, 4, num_tang_poss);
      shared_ptr<ProjDataInfo> pdi_sptr(ProjDataInfo::construct_proj_data_info(scanner_sptr,
                                                                               1,
                                                                               scanner_sptr->get_num_rings() - 1,
                                                                               scanner_sptr->get_num_detectors_per_ring() / 2,
                                                                               num_tang_poss,
                                                                               false));
      auto exam_info_sptr = std::make_shared<ExamInfo>();
      ProjDataInMemory proj_data(exam_info_sptr, pdi_sptr);
      for (auto iter = proj_data.begin(); iter != proj_data.end(); ++iter)
        *iter = rnd(1.F, 100.F);
      FanProjData fan;
      make_fan_data_remove_gaps(fan, proj_data);
      ProjDataInMemory proj_data2(exam_info_sptr, pdi_sptr);
      proj_data2.fill(-7.F);
      set_fan_data_add_gaps(proj_data2, fan, /*gap_value*/ 5.F);
      long num_diff = 0, num_diff_at_min_tang = 0;
      float example = 0;
      for (int seg = proj_data.get_min_segment_num(); seg <= proj_data.get_max_segment_num(); ++seg)
        for (int ax = proj_data.get_min_axial_pos_num(seg); ax <= proj_data.get_max_axial_pos_num(seg); ++ax)
          {
            const Sinogram<float> s1 = proj_data.get_sinogram(ax, seg);
            const Sinogram<float> s2 = proj_data2.get_sinogram(ax, seg);
            for (int v = s1.get_min_view_num(); v <= s1.get_max_view_num(); ++v)
              for (int t = s1.get_min_tangential_pos_num(); t <= s1.get_max_tangential_pos_num(); ++t)
                if (s1[v][t] != s2[v][t])
                  {
                    ++num_diff;
                    if (t == s1.get_min_tangential_pos_num())
                      {
                        ++num_diff_at_min_tang;
                        example = s2[v][t];
                      }
                  }
          }
      std::cout << "    num_tangential_poss=" << num_tang_poss << " (tang. pos. " << proj_data.get_min_tangential_pos_num()
                << ".." << proj_data.get_max_tangential_pos_num() << "): " << num_diff << " bins of "
                << proj_data.get_proj_data_info_sptr()->size_all() << " not restored, of which " << num_diff_at_min_tang
                << " at the minimum tangential position";
      if (num_diff)
        std::cout << " (value after round trip e.g. " << example << ", neither the data nor the requested gap value 5)";
      std::cout << "\n";
      if (num_diff)
        ++deviations;
      // the 2D (DetPairData) conversion for comparison
      {
        long num_diff2d = 0;
        for (int seg = 0; seg <= 1; ++seg)
          {
            DetPairData dp;
            make_det_pair_data(dp, proj_data, seg, 0);
            ProjDataInMemory proj_data3(exam_info_sptr, pdi_sptr);
            proj_data3.fill(-7.F);
            set_det_pair_data(proj_data3, dp, seg, 0);
            for (int s : { seg, -seg })
              {
                const Sinogram<float> s1 = proj_data.get_sinogram(0, s);
                const Sinogram<float> s2 = proj_data3.get_sinogram(0, s);
                for (int v = s1.get_min_view_num(); v <= s1.get_max_view_num(); ++v)
                  for (int t = s1.get_min_tangential_pos_num(); t <= s1.get_max_tangential_pos_num(); ++t)
                    if (s1[v][t] != s2[v][t])
                      ++num_diff2d;
              }
          }
        std::cout << "      (2D DetPairData round trip for segments 0,+-1, ax_pos 0: " << num_diff2d << " bins differ)\n";
        if (num_diff2d)
          ++deviations;
      }
    }
  return deviations;
}

//////////////////////////////////////////////////////////////////////////
// 2. block data does not contain the pair (block,block) but fans can contain same-block detector pairs
static int
probe_same_block_pairs()
{
  std::cout << "\n[2] block factors for detector pairs in the same transaxial block (large fans)\n";
  const int num_axial_blocks = 2, nax = 2, num_transaxial_blocks = 4, ntc = 4;
  const int num_rings = num_axial_blocks * nax, N = num_transaxial_blocks * ntc;
  // fan size N-1 is what you get from projection data with N-1 tangential positions
  FanProjData fan(num_rings, N, num_rings - 1, N - 1);
  BlockData3D block(num_axial_blocks, num_transaxial_blocks, num_axial_blocks - 1, num_transaxial_blocks - 1);
  long num_pairs = 0, num_without_block_entry = 0;
  for_all(fan, [&](int ra, int a, int rb, int b) {
    ++num_pairs;
    const int bra = ra / nax, ba = a / ntc, brb = rb / nax, bb = (b / ntc) % num_transaxial_blocks;
    // block_data(bra,ba,brb,bb) addresses [bra][ba][brb][..] if bra<brb, else [brb][bb][bra][..]
    const bool present = bra < brb ? block.is_in_data(bra, ba, brb, bb) : block.is_in_data(brb, bb, bra, ba);
    if (!present)
      ++num_without_block_entry;
  });
  std::cout << "    scanner with " << N << " detectors/ring, " << num_transaxial_blocks << " transaxial blocks, fan size "
            << N - 1 << ": " << num_without_block_entry << " of " << num_pairs
            << " detector pairs have a block pair that is not stored in BlockData3D(" << num_axial_blocks << ","
            << num_transaxial_blocks << "," << num_axial_blocks - 1 << "," << num_transaxial_blocks - 1
            << ") (block fan range for block 0: " << block.get_min_b(0) << ".." << block.get_max_b(0) << ")\n"
            << "    apply_block_norm/make_block_data index outside the array for those pairs (no range check in release mode)\n";
  return num_without_block_entry ? 1 : 0;
}

//////////////////////////////////////////////////////////////////////////
// 3. 3D geo factors: which factor is applied, and is the geo iteration a fixed point
static int
probe_geo3d(const int num_axial_blocks, const int nax, const int max_ring_diff)
{
  const int num_transaxial_blocks = 4, ntc = 4, fan_size = 9;
  const int num_rings = num_axial_blocks * nax, N = num_transaxial_blocks * ntc;
  std::cout << "\n[3] 3D geometric factors, rings=" << num_rings << " (axial blocks of " << nax << "), dets=" << N
            << ", max_ring_diff=" << max_ring_diff << ", fan=" << fan_size << "\n";
  int deviations = 0;
  GeoData3D geo(nax, ntc / 2, num_rings, N);
  for (int ra = 0; ra < nax; ++ra)
    for (int a = 0; a < ntc / 2; ++a)
      for (int rb = ra; rb < num_rings; ++rb)
        for (int b = a; b < a + N; ++b)
          geo(ra, a, rb, b % N) = rnd(.5F, 2.F);

  FanProjData ones(num_rings, N, max_ring_diff, fan_size);
  ones.fill(1.F);
  FanProjData applied = ones;
  apply_geo_norm(applied, geo, true);

  // (a) entries whose own (ra<nax, a<ntc/2) position is a stored class: is its factor applied?
  long num_checked = 0, num_other = 0, num_inplane_other = 0;
  int ex_ra = -1, ex_a = -1, ex_rb = -1, ex_b = -1;
  for (int ra = 0; ra < nax; ++ra)
    for (int a = 0; a < ntc / 2; ++a)
      for (int rb = ra; rb <= ones.get_max_rb(ra); ++rb)
        for (int b = ones.get_min_b(a); b <= ones.get_max_b(a); ++b)
          {
            ++num_checked;
            if (applied(ra, a, rb, b) != geo(ra, a, rb, b % N))
              {
                ++num_other;
                if (ra == rb)
                  ++num_inplane_other;
                if (ex_ra < 0)
                  {
                    ex_ra = ra;
                    ex_a = a;
                    ex_rb = rb;
                    ex_b = b;
                  }
              }
          }
  std::cout << "    (a) of " << num_checked << " detector pairs (ra<" << nax << ", a<" << ntc / 2
            << ") that are themselves the representative of a geo class, " << num_other
            << " are multiplied by a factor different from geo(ra,a,rb,b) (" << num_inplane_other << " of these have ra==rb)\n";
  if (num_other)
    {
      std::cout << "        e.g. (ra,a,rb,b)=(" << ex_ra << "," << ex_a << "," << ex_rb << "," << ex_b
                << "): applied factor " << applied(ex_ra, ex_a, ex_rb, ex_b) << ", geo(ra,a,rb,b)="
                << geo(ex_ra, ex_a, ex_rb, ex_b % N) << "\n";
      ++deviations;
    }
  // (b) un-apply restores?
  {
    FanProjData restored = applied;
    apply_geo_norm(restored, geo, false);
    long bad = 0;
    for_all(ones, [&](int ra, int a, int rb, int b) {
      if (std::fabs(restored(ra, a, rb, b) - 1.F) > 1e-5)
        ++bad;
    });
    std::cout << "    (b) un-apply: " << bad << " entries not restored\n";
    if (bad)
      ++deviations;
  }
  // (c) fixed point of the geo iteration for data = model * geo
  {
    FanProjData model(num_rings, N, max_ring_diff, fan_size);
    fill_random_symmetric(model, 1.F, 10.F);
    FanProjData data = model;
    apply_geo_norm(data, geo, true);
    GeoData3D measured_geo(nax, ntc / 2, num_rings, N), new_geo(nax, ntc / 2, num_rings, N);
    make_geo_data(measured_geo, data);
    iterate_geo_norm(new_geo, measured_geo, model);
    long n = 0, bad = 0;
    double worst = 0;
    for (int ra = 0; ra < nax; ++ra)
      for (int a = 0; a < ntc / 2; ++a)
        for (int rb = ra; rb <= model.get_max_rb(ra); ++rb)
          for (int b = model.get_min_b(a); b <= model.get_max_b(a); ++b)
            {
              ++n;
              const double rel = std::fabs(new_geo(ra, a, rb, b) - geo(ra, a, rb, b % N)) / geo(ra, a, rb, b % N);
              worst = std::max(worst, rel);
              if (rel > 1e-4)
                ++bad;
            }
    std::cout << "    (c) data = model*geo (random geo factors): iterate_geo_norm changes " << bad << " of " << n
              << " geo factors (worst rel. change " << worst << ")\n";
    if (bad)
      ++deviations;
    // (d) the same but with the result of the iteration as parameters (these are 'consistent' factors)
    FanProjData data2 = model;
    apply_geo_norm(data2, new_geo, true);
    GeoData3D measured_geo2(nax, ntc / 2, num_rings, N), new_geo2(nax, ntc / 2, num_rings, N);
    make_geo_data(measured_geo2, data2);
    iterate_geo_norm(new_geo2, measured_geo2, model);
    long bad2 = 0;
    double worst2 = 0;
    for (int ra = 0; ra < nax; ++ra)
      for (int a = 0; a < ntc / 2; ++a)
        for (int rb = ra; rb <= model.get_max_rb(ra); ++rb)
          for (int b = model.get_min_b(a); b <= model.get_max_b(a); ++b)
            {
              if (new_geo(ra, a, rb, b) == 0)
                continue;
              const double rel = std::fabs(new_geo2(ra, a, rb, b) - new_geo(ra, a, rb, b)) / new_geo(ra, a, rb, b);
              worst2 = std::max(worst2, rel);
              if (rel > 1e-4)
                ++bad2;
            }
    std::cout << "    (d) repeating with the estimated geo factors as truth: " << bad2 << " factors change (worst rel. change "
              << worst2 << ")\n";
    if (bad2)
      ++deviations;
  }
  return deviations;
}

//////////////////////////////////////////////////////////////////////////
// 4. 2D geo / block fixed points and apply/un-apply
static int
probe_2d()
{
  std::cout << "\n[4] 2D (DetPairData) apply/un-apply and geo/block fixed points\n";
  int deviations = 0;
  const int num_blocks = 6, ncpb = 4, num_tang_poss = 11;
  auto scanner_sptr = make_scanner(1, 2, num_blocks, ncpb, num_tang_poss);
  const int N = num_blocks * ncpb;
  shared_ptr<ProjDataInfo> pdi_sptr(ProjDataInfo::construct_proj_data_info(scanner_sptr, 1, 1, N / 2, num_tang_poss, false));
  DetPairData model;
  make_det_pair_data(model, *pdi_sptr, 0, 0);
  for (int a = model.get_min_index(); a <= model.get_max_index(); ++a)
    for (int b = model.get_min_index(a); b <= model.get_max_index(a); ++b)
      model(a, b) = rnd(1.F, 10.F);
  // symmetrise
  for (int a = model.get_min_index(); a <= model.get_max_index(); ++a)
    for (int b = model.get_min_index(a); b <= model.get_max_index(a); ++b)
      model(b % N, a) = model(a, b);

  GeoData geo(IndexRange2D(ncpb / 2, N));
  for (auto iter = geo.begin_all(); iter != geo.end_all(); ++iter)
    *iter = rnd(.5F, 2.F);
  BlockData block(IndexRange2D(num_blocks, num_blocks));
  for (auto iter = block.begin_all(); iter != block.end_all(); ++iter)
    *iter = rnd(.5F, 2.F);
  Array<1, float> eff(N);
  for (auto iter = eff.begin_all(); iter != eff.end_all(); ++iter)
    *iter = rnd(.5F, 2.F);

  {
    DetPairData d = model;
    apply_efficiencies(d, eff, true);
    apply_geo_norm(d, geo, true);
    apply_block_norm(d, block, true);
    apply_block_norm(d, block, false);
    apply_geo_norm(d, geo, false);
    apply_efficiencies(d, eff, false);
    long bad = 0;
    for (int a = model.get_min_index(); a <= model.get_max_index(); ++a)
      for (int b = model.get_min_index(a); b <= model.get_max_index(a); ++b)
        if (std::fabs(d(a, b) - model(a, b)) > 1e-5 * model(a, b))
          ++bad;
    std::cout << "    apply eff,geo,block then un-apply: " << bad << " entries not restored\n";
    if (bad)
      ++deviations;
  }
  {
    DetPairData d = model;
    apply_geo_norm(d, geo, true);
    GeoData measured(IndexRange2D(ncpb / 2, N)), new_geo(IndexRange2D(ncpb / 2, N));
    make_geo_data(measured, d);
    iterate_geo_norm(new_geo, measured, model);
    long bad = 0, used = 0;
    for (int a = 0; a < ncpb / 2; ++a)
      for (int b = 0; b < N; ++b)
        {
          if (measured[a][b] == 0)
            continue; // class not in fan
          ++used;
          if (std::fabs(new_geo[a][b] - geo[a][b]) > 1e-4 * geo[a][b])
            ++bad;
        }
    std::cout << "    2D geo fixed point: " << bad << " of " << used << " used geo factors change\n";
    if (bad)
      ++deviations;
  }
  {
    DetPairData d = model;
    apply_block_norm(d, block, true);
    BlockData measured(IndexRange2D(num_blocks, num_blocks)), new_block(IndexRange2D(num_blocks, num_blocks));
    make_block_data(measured, d);
    iterate_block_norm(new_block, measured, model);
    long bad = 0, used = 0;
    for (int a = 0; a < num_blocks; ++a)
      for (int b = 0; b < num_blocks; ++b)
        {
          if (measured[a][b] == 0)
            continue;
          ++used;
          if (std::fabs(new_block[a][b] - block[a][b]) > 1e-4 * block[a][b])
            ++bad;
        }
    std::cout << "    2D block fixed point: " << bad << " of " << used << " used block factors change\n";
    if (bad)
      ++deviations;
  }
  return deviations;
}

//////////////////////////////////////////////////////////////////////////
// 5. 3D block fixed point + efficiencies fixed point
static int
probe_block3d_and_eff_fixed_point()
{
  std::cout << "\n[5] 3D block and efficiency fixed points (data = model*eff*block exactly)\n";
  int deviations = 0;
  const int num_axial_blocks = 3, nax = 2, num_transaxial_blocks = 4, ntc = 4, max_ring_diff = 4, fan_size = 9;
  const int num_rings = num_axial_blocks * nax, N = num_transaxial_blocks * ntc;
  FanProjData model(num_rings, N, max_ring_diff, fan_size);
  fill_random_symmetric(model, 1.F, 10.F);
  BlockData3D block(num_axial_blocks, num_transaxial_blocks, num_axial_blocks - 1, num_transaxial_blocks - 1);
  for_all(block, [&](int ra, int a, int rb, int b) { block(ra, a, rb, b) = rnd(.5F, 2.F); });
  DetectorEfficiencies eff(IndexRange2D(num_rings, N));
  for (auto iter = eff.begin_all(); iter != eff.end_all(); ++iter)
    *iter = rnd(.5F, 2.F);
  {
    FanProjData data = model;
    apply_block_norm(data, block, true);
    BlockData3D measured(num_axial_blocks, num_transaxial_blocks, num_axial_blocks - 1, num_transaxial_blocks - 1);
    BlockData3D new_block(num_axial_blocks, num_transaxial_blocks, num_axial_blocks - 1, num_transaxial_blocks - 1);
    make_block_data(measured, data);
    iterate_block_norm(new_block, measured, model);
    long bad = 0, used = 0;
    for_all(block, [&](int ra, int a, int rb, int b) {
      if (measured(ra, a, rb, b) == 0)
        return;
      ++used;
      if (std::fabs(new_block(ra, a, rb, b) - block(ra, a, rb, b)) > 1e-4 * block(ra, a, rb, b))
        ++bad;
    });
    std::cout << "    3D block fixed point: " << bad << " of " << used << " used block factors change\n";
    if (bad)
      ++deviations;
    // symmetry of the data after applying block factors with in-plane/same-axial-block pairs
    long asym = 0;
    for_all(data, [&](int ra, int a, int rb, int b) {
      if (ra == rb && std::fabs(data(ra, a, rb, b) - data(ra, b % N, ra, a)) > 1e-5 * data(ra, a, rb, b))
        ++asym;
    });
    std::cout << "    after apply_block_norm with random block factors, " << asym
              << " in-plane entries differ from their (b,a) twin (block pair (A,B) and (B,A) in the same axial block row are "
                 "separate parameters)\n";
    if (asym)
      ++deviations;
  }
  {
    FanProjData data = model;
    apply_efficiencies(data, eff, true);
    Array<2, float> fan_sums(IndexRange2D(num_rings, N));
    make_fan_sum_data(fan_sums, data);
    DetectorEfficiencies new_eff = eff;
    iterate_efficiencies(new_eff, fan_sums, model);
    double worst = 0;
    for (int r = 0; r < num_rings; ++r)
      for (int a = 0; a < N; ++a)
        worst = std::max(worst, double(std::fabs(new_eff[r][a] - eff[r][a]) / eff[r][a]));
    std::cout << "    3D efficiencies fixed point: worst rel. change " << worst << "\n";
    if (worst > 1e-4)
      ++deviations;
  }
  return deviations;
}

//////////////////////////////////////////////////////////////////////////
// 6. does KL(FanProjData,..) descend under iterate_efficiencies (3D, oblique + in-plane pairs)?
static double
KL_each_pair_once(const FanProjData& d1, const FanProjData& d2)
{
  // every unordered detector pair exactly once (in-plane pairs are stored twice in FanProjData)
  double sum = 0;
  const int N = d1.get_num_detectors_per_ring();
  for_all(d1, [&](int ra, int a, int rb, int b) {
    const double k = KL(d1(ra, a, rb, b), d2(ra, a, rb, b), 0.);
    sum += (ra == rb) ? k / 2 : k;
  });
  (void)N;
  return sum;
}

static int
probe_KL_descent()
{
  std::cout << "\n[6] KL(FanProjData) during efficiency iterations (3D, Poisson data)\n";
  long num_runs = 0, num_runs_with_increase = 0, num_runs_with_increase_true = 0;
  double worst_rel_increase = 0;
  int worst_iter = 0;
  for (int run = 0; run < 300; ++run)
    {
      const int num_rings = 2 + run % 3, N = 8 + 4 * (run % 2), max_ring_diff = num_rings - 1, fan_size = 3 + 2 * (run % 2);
      FanProjData model(num_rings, N, max_ring_diff, fan_size);
      fill_random_symmetric(model, 1.F, 5.F);
      DetectorEfficiencies true_eff(IndexRange2D(num_rings, N));
      for (auto iter = true_eff.begin_all(); iter != true_eff.end_all(); ++iter)
        *iter = rnd(.5F, 2.F);
      FanProjData mean = model;
      apply_efficiencies(mean, true_eff, true);
      FanProjData data = mean;
      for_all(data, [&](int ra, int a, int rb, int b) {
        data(ra, a, rb, b) = static_cast<float>(std::poisson_distribution<int>(mean(ra, a, rb, b))(rng));
      });
      for_all(data, [&](int ra, int a, int rb, int b) {
        if (ra == rb)
          data(ra, b % N, ra, a) = data(ra, a, rb, b);
      });
      Array<2, float> fan_sums(IndexRange2D(num_rings, N));
      make_fan_sum_data(fan_sums, data);
      DetectorEfficiencies eff(IndexRange2D(num_rings, N));
      eff.fill(std::sqrt(fan_sums.sum() / model.sum()));
      double prev = -1, prev_true = -1;
      bool increase = false, increase_true = false;
      for (int iter = 0; iter <= 30; ++iter)
        {
          if (iter > 0)
            iterate_efficiencies(eff, fan_sums, model);
          FanProjData est = model;
          apply_efficiencies(est, eff, true);
          const double kl = KL(data, est, 0.);
          const double kl_true = KL_each_pair_once(data, est);
          if (iter > 0)
            {
              if (kl > prev * (1 + 1e-6))
                {
                  increase = true;
                  if ((kl - prev) / prev > worst_rel_increase)
                    {
                      worst_rel_increase = (kl - prev) / prev;
                      worst_iter = iter;
                    }
                }
              if (kl_true > prev_true * (1 + 1e-6))
                increase_true = true;
            }
          prev = kl;
          prev_true = kl_true;
        }
      ++num_runs;
      if (increase)
        ++num_runs_with_increase;
      if (increase_true)
        ++num_runs_with_increase_true;
    }
  std::cout << "    " << num_runs << " random runs of 30 iterations: library KL(FanProjData) increased (rel>1e-6) in "
            << num_runs_with_increase << " runs (worst rel. increase " << worst_rel_increase << " at iteration " << worst_iter
            << "); KL with every detector pair counted once increased in " << num_runs_with_increase_true << " runs\n"
            << "    (KL(FanProjData) counts in-plane pairs twice (both stored copies) but oblique pairs once)\n";
  return num_runs_with_increase ? 1 : 0;
}

int
main()
{
  int deviations = 0;
  deviations += probe_even_tangential();
  deviations += probe_same_block_pairs();
  deviations += probe_geo3d(/*axial blocks*/ 2, /*nax*/ 2, /*max ring diff*/ 3);
  deviations += probe_geo3d(2, 2, 0);
  deviations += probe_geo3d(1, 1, 0);
  deviations += probe_2d();
  deviations += probe_block3d_and_eff_fixed_point();
  deviations += probe_KL_descent();
  std::cout << "\nTOTAL deviations: " << deviations << std::endl;
  return deviations;
}
