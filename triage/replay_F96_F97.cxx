/*
  Probe of the UNMODIFIED library (seed C02-6): things that already look wrong with respect to the
  property "projection data are one coherent array across access paths, layouts and files".
  Prints what it observes, exit code = number of deviations seen.
*/
#include "stir/ProjDataInterfile.h"
#include "stir/ProjDataFromStream.h"
#include "stir/ProjDataInMemory.h"
#include "stir/ProjDataInfo.h"
#include "stir/Scanner.h"
#include "stir/ExamInfo.h"
#include "stir/Viewgram.h"
#include "stir/Sinogram.h"
#include "stir/SegmentByView.h"
#include "stir/SegmentBySinogram.h"
#include "stir/Bin.h"
#include "stir/Succeeded.h"
#include "stir/IO/interfile.h"
#include "stir/shared_ptr.h"
#include <iostream>
#include <fstream>
#include <sstream>
#include <string>
#include <vector>

using namespace stir;

static int deviations = 0;
static void
deviation(const std::string& s)
{
  ++deviations;
  std::cout << "DEVIATION " << deviations << ": " << s << std::endl;
}
static void
ok(const std::string& s)
{
  std::cout << "ok: " << s << std::endl;
}

static shared_ptr<ProjDataInfo>
nonTOF_info()
{
  shared_ptr<Scanner> scanner_sptr(new Scanner(Scanner::E953));
  return shared_ptr<ProjDataInfo>(ProjDataInfo::construct_proj_data_info(scanner_sptr, 1, 2, 8, 6, false));
}

static shared_ptr<ProjDataInfo>
TOF_info()
{
  shared_ptr<Scanner> scanner_sptr(new Scanner(Scanner::Discovery690));
  return shared_ptr<ProjDataInfo>(ProjDataInfo::construct_proj_data_info(scanner_sptr, 2, 3, 8, 6, false, 11));
}

static shared_ptr<ExamInfo>
exam()
{
  shared_ptr<ExamInfo> exam_info_sptr(new ExamInfo);
  exam_info_sptr->imaging_modality = ImagingModality::PT;
  return exam_info_sptr;
}

// fill all of p with different values
static void
fill_with_ramp(ProjData& p, float start)
{
  for (int tof = p.get_min_tof_pos_num(); tof <= p.get_max_tof_pos_num(); ++tof)
    for (int seg = p.get_min_segment_num(); seg <= p.get_max_segment_num(); ++seg)
      {
        SegmentByView<float> s = p.get_empty_segment_by_view(seg, false, tof);
        for (auto iter = s.begin_all(); iter != s.end_all(); ++iter)
          *iter = start++;
        p.set_segment(s);
      }
}

// number of bins that differ
static long
num_different(const ProjData& a, const ProjData& b)
{
  long n = 0;
  for (int tof = a.get_min_tof_pos_num(); tof <= a.get_max_tof_pos_num(); ++tof)
    for (int seg = a.get_min_segment_num(); seg <= a.get_max_segment_num(); ++seg)
      {
        const SegmentByView<float> sa = a.get_segment_by_view(seg, tof);
        const SegmentByView<float> sb = b.get_segment_by_view(seg, tof);
        auto ib = sb.begin_all_const();
        for (auto ia = sa.begin_all_const(); ia != sa.end_all_const(); ++ia, ++ib)
          if (*ia != *ib)
            ++n;
      }
  return n;
}

int
main()
{
  // 1. TOF data cannot be written as Interfile in the storage order Segment_AxialPos_View_TangPos
  //    (the header reader knows Timing_Segment_AxialPos_View_TangPos, the header writer does not)
  {
    std::cout << "\n--- 1. TOF + Segment_AxialPos_View_TangPos as ProjDataInterfile\n";
    try
      {
        auto pdi = TOF_info();
        ProjDataInterfile p(exam(),
                            pdi,
                            "probe_tof_by_sino.hs",
                            std::ios::in | std::ios::out | std::ios::trunc,
                            ProjData::standard_segment_sequence(*pdi),
                            ProjDataFromStream::Segment_AxialPos_View_TangPos);
        fill_with_ramp(p, 1.F);
        ProjDataInMemory m(p);
        shared_ptr<ProjData> back = ProjData::read_from_file("probe_tof_by_sino.hs");
        const long n = num_different(m, *back);
        if (n)
          deviation("TOF by-sinogram file read back with " + std::to_string(n) + " different bins");
        else
          ok("TOF by-sinogram file round trip");
      }
    catch (std::exception& e)
      {
        deviation(std::string("TOF data with storage order Segment_AxialPos_View_TangPos cannot be created as Interfile: ") + e.what());
      }
  }

  // 2. a failed operation leaves the stream in a failed state for ever
  {
    std::cout << "\n--- 2a. independent reader that once read a part that was not written yet\n";
    auto pdi = nonTOF_info();
    ProjDataInterfile writer(exam(), pdi, "probe_poison.hs", std::ios::in | std::ios::out | std::ios::trunc);
    {
      // writer writes the first segment of the file only
      SegmentByView<float> s = writer.get_empty_segment_by_view(0);
      s.fill(5.F);
      writer.set_segment(s);
    }
    shared_ptr<ProjData> reader = ProjData::read_from_file("probe_poison.hs");
    bool threw = false;
    try
      {
        reader->get_viewgram(0, 1); // not yet in the file
      }
    catch (...)
      {
        threw = true;
      }
    std::cout << "reading a segment that is not in the file yet " << (threw ? "threw (fine)" : "did not throw") << '\n';
    writer.fill(7.F); // now everything is in the file, and flushed
    try
      {
        const float v = reader->get_viewgram(0, 1).find_min();
        if (v == 7.F)
          ok("reader sees the data written after its failed read");
        else
          deviation("reader sees " + std::to_string(v) + " instead of 7");
      }
    catch (std::exception& e)
      {
        deviation(std::string("reader cannot read any more after one failed read, although the data are now in the file: ") + e.what());
      }

    std::cout << "\n--- 2b. the writer itself after a failed read (read before anything was written)\n";
    ProjDataInterfile writer2(exam(), pdi, "probe_poison2.hs", std::ios::in | std::ios::out | std::ios::trunc);
    try
      {
        writer2.get_viewgram(0, 0);
      }
    catch (...)
      {
      }
    try
      {
        Viewgram<float> v = writer2.get_empty_viewgram(0, 0);
        v.fill(3.F);
        if (writer2.set_viewgram(v) == Succeeded::yes && writer2.get_viewgram(0, 0).find_max() == 3.F)
          ok("writer can write after a failed read");
        else
          deviation("a valid set_viewgram is refused (Succeeded::no) after an earlier failed read on the same object");
      }
    catch (std::exception& e)
      {
        deviation(std::string("a valid set_viewgram throws after an earlier failed read on the same object: ") + e.what());
      }

    std::cout << "\n--- 2c. a read-only object after an attempt to write to it\n";
    shared_ptr<ProjData> reader3 = ProjData::read_from_file("probe_poison.hs");
    try
      {
        Viewgram<float> v = reader3->get_empty_viewgram(0, 0);
        v.fill(3.F);
        const Succeeded s = reader3->set_viewgram(v);
        std::cout << "set_viewgram on read-only data returned " << (s == Succeeded::yes ? "yes" : "no") << '\n';
      }
    catch (...)
      {
        std::cout << "set_viewgram on read-only data threw (fine)\n";
      }
    try
      {
        const float v = reader3->get_viewgram(0, 0).find_min();
        if (v == 7.F)
          ok("read-only object still readable after the refused write");
        else
          deviation("read-only object returns " + std::to_string(v) + " instead of 7 after the refused write");
      }
    catch (std::exception& e)
      {
        deviation(std::string("read-only object is unreadable after a refused write: ") + e.what());
      }
  }

  // 3. the order of the TOF bins in the stream is not written to the header
  {
    std::cout << "\n--- 3. non-default TOF bin order and header round trip\n";
    auto pdi = TOF_info();
    {
      shared_ptr<std::iostream> str(
          new std::fstream("probe_tof_order.s", std::ios::in | std::ios::out | std::ios::trunc | std::ios::binary));
      ProjDataFromStream p(exam(), pdi, str, 0, ProjData::standard_segment_sequence(*pdi));
      std::vector<int> order;
      for (int k = pdi->get_max_tof_pos_num(); k >= pdi->get_min_tof_pos_num(); --k)
        order.push_back(k);
      p.set_timing_poss_sequence_in_stream(order);
      fill_with_ramp(p, 1.F);
      write_basic_interfile_PDFS_header("probe_tof_order.s", p);
      ProjDataInMemory m(p);
      shared_ptr<ProjData> back = ProjData::read_from_file("probe_tof_order.hs");
      const long n = num_different(m, *back);
      if (n)
        deviation("data with reversed TOF bin order in the stream: header+data read back with " + std::to_string(n)
                  + " different bins (no 'TOF bin order' written)");
      else
        ok("TOF bin order round trip");
    }
  }

  // 4. sequences are not validated: a TOF bin (or segment) that is not in the sequence is silently put after all others
  {
    std::cout << "\n--- 4. TOF bin order that does not contain all TOF bins\n";
    auto pdi = TOF_info();
    // (a stringstream cannot seek beyond its end, so give it its final size first)
    shared_ptr<std::stringstream> sstr(
        new std::stringstream(std::string(pdi->size_all() * sizeof(float), '\0'), std::ios::in | std::ios::out | std::ios::binary));
    shared_ptr<std::iostream> str = sstr;
    ProjDataFromStream p(exam(), pdi, str, 0, ProjData::standard_segment_sequence(*pdi));
    p.fill(1.F);
    const std::size_t expected_size = p.size_all() * sizeof(float);
    std::cout << "size of stream after fill: " << sstr->str().size() << " expected " << expected_size << '\n';
    std::vector<int> order;
    for (int k = 0; k < pdi->get_num_tof_poss(); ++k)
      order.push_back(k); // 0,1,2,.. while TOF bins are -n..n
    try
      {
        p.set_timing_poss_sequence_in_stream(order); // (moved inside the try for the replay: since F96 this call reports the error)
        Viewgram<float> v = p.get_empty_viewgram(0, 0, false, pdi->get_min_tof_pos_num());
        v.fill(9.F);
        p.set_viewgram(v);
        const std::size_t new_size = sstr->str().size();
        if (new_size > expected_size)
          deviation("TOF bin missing from the TOF sequence is written beyond the end of the data (stream grew from "
                    + std::to_string(expected_size) + " to " + std::to_string(new_size) + " bytes) instead of an error");
        else
          ok("no growth");
      }
    catch (...)
      {
        ok("invalid TOF sequence reported");
      }
  }
  {
    std::cout << "\n--- 4b. segment sequence with a duplicate: writing one segment changes another TOF bin\n";
    auto pdi = TOF_info();
    // extra room at the end such that a write beyond the data does not fail for lack of space
    shared_ptr<std::iostream> str(new std::stringstream(std::string(2 * pdi->size_all() * sizeof(float), '\0'),
                                                        std::ios::in | std::ios::out | std::ios::binary));
    std::vector<int> seq = ProjData::standard_segment_sequence(*pdi);
    try
      {
        std::vector<int> bad_seq = seq;
        bad_seq.back() = bad_seq.front(); // last segment missing, first one twice
        ProjDataFromStream p(exam(), pdi, str, 0, bad_seq);
        p.fill(1.F);
        // p.fill wrote the 'missing' segment somewhere
        const int missing = seq.back();
        const int tof = pdi->get_min_tof_pos_num();
        SegmentByView<float> s = p.get_empty_segment_by_view(missing, false, tof);
        s.fill(9.F);
        p.set_segment(s);
        long changed = 0;
        for (int k = p.get_min_tof_pos_num(); k <= p.get_max_tof_pos_num(); ++k)
          for (int seg = p.get_min_segment_num(); seg <= p.get_max_segment_num(); ++seg)
            if (!(k == tof && seg == missing))
              {
                const SegmentByView<float> other = p.get_segment_by_view(seg, k);
                for (auto i = other.begin_all_const(); i != other.end_all_const(); ++i)
                  if (*i != 1.F)
                    ++changed;
              }
        if (changed)
          deviation("segment sequence with a duplicate accepted; set_segment(" + std::to_string(missing) + ", tof "
                    + std::to_string(tof) + ") changed " + std::to_string(changed) + " bins of other segments/TOF bins");
        else
          ok("no other bins changed");
      }
    catch (...)
      {
        ok("invalid segment sequence reported");
      }
  }

  // 5. bulk fill ignores failures
  {
    std::cout << "\n--- 5. fill_from on data that cannot be written\n";
    // one segment only (with more segments the 2nd set_segment throws because the stream is in a failed state after the 1st)
    shared_ptr<Scanner> scanner_sptr(new Scanner(Scanner::E953));
    shared_ptr<ProjDataInfo> pdi(ProjDataInfo::construct_proj_data_info(scanner_sptr, 1, 0, 8, 6, false));
    {
      ProjDataInterfile w(exam(), pdi, "probe_fill_from.hs", std::ios::in | std::ios::out | std::ios::trunc);
      w.fill(2.F);
    }
    shared_ptr<ProjData> ro = ProjData::read_from_file("probe_fill_from.hs"); // read-only
    std::vector<float> values(ro->size_all(), 4.F);
    try
      {
        ro->fill_from(values.begin());
        float v = -1;
        try
          {
            v = ProjData::read_from_file("probe_fill_from.hs")->get_viewgram(0, 0).find_max();
          }
        catch (...)
          {
          }
        if (v != 4.F)
          deviation("ProjData::fill_from on a read-only file returned normally, but the file still contains " + std::to_string(v));
        else
          ok("fill_from wrote");
      }
    catch (...)
      {
        ok("fill_from on read-only data reported an error");
      }
  }

  std::cout << "\nNumber of deviations: " << deviations << std::endl;
  return deviations;
}
