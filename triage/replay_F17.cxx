// replay of candidate finding F17 (C16): after changing the energy window (set_exam_info) and calling set_up() again, the simulated
// scatter must equal the result of a freshly configured simulation with that window.
// ScatterSimulation::detector_efficiency_no_scatter (the 511 keV detection efficiency used to normalise the estimate) is computed lazily
// and only reset by set_template_proj_data_info(); set_exam_info() replaces the energy thresholds it depends on without resetting it.
#include "stir/scatter/SingleScatterSimulation.h"
#include "stir/ProjDataInfoCylindricalNoArcCorr.h"
#include "stir/ProjDataInMemory.h"
#include "stir/Scanner.h"
#include "stir/VoxelsOnCartesianGrid.h"
#include "stir/Shape/EllipsoidalCylinder.h"
#include "stir/SegmentByView.h"
#include <cmath>
#include <iostream>
using namespace stir;

struct Setup
{
  shared_ptr<Scanner> scanner;
  shared_ptr<ProjDataInfo> pdi;
  shared_ptr<VoxelsOnCartesianGrid<float>> water, act;
};

static shared_ptr<ExamInfo>
exam(float lo, float hi)
{
  shared_ptr<ExamInfo> e(new ExamInfo);
  e->set_low_energy_thres(lo);
  e->set_high_energy_thres(hi);
  e->imaging_modality = ImagingModality::PT;
  return e;
}

static void
configure(SingleScatterSimulation& sss, const Setup& s, const ExamInfo& e)
{
  sss.set_exam_info(e);
  sss.set_density_image_sptr(s.water);
  sss.set_activity_image_sptr(s.act);
  sss.set_randomly_place_scatter_points(false);
  sss.set_template_proj_data_info(*s.pdi);
  sss.downsample_scanner(4, 32);
  sss.downsample_density_image_for_scatter_points(.2F, .3F, -1, -1);
}

static shared_ptr<ProjDataInMemory>
run(SingleScatterSimulation& sss)
{
  shared_ptr<ProjDataInMemory> out(new ProjDataInMemory(sss.get_exam_info_sptr(), sss.get_template_proj_data_info_sptr()));
  sss.set_output_proj_data_sptr(out);
  if (sss.set_up() != Succeeded::yes || sss.process_data() != Succeeded::yes)
    {
      std::cerr << "simulation failed\n";
      exit(2);
    }
  return out;
}

int
main()
{
  Setup s;
  s.scanner.reset(new Scanner(Scanner::E931));
  if (!s.scanner->has_energy_information())
    {
      s.scanner->set_reference_energy(511);
      s.scanner->set_energy_resolution(0.34f);
    }
  s.pdi.reset(ProjDataInfo::ProjDataInfoCTI(
      s.scanner, 1, 0, s.scanner->get_num_detectors_per_ring() / 2, s.scanner->get_max_num_non_arccorrected_bins(), false));
  shared_ptr<ExamInfo> e1 = exam(450, 650), e2 = exam(350, 650);
  shared_ptr<VoxelsOnCartesianGrid<float>> tmpl(new VoxelsOnCartesianGrid<float>(e1, *s.pdi));
  CartesianCoordinate3D<int> min_ind, max_ind;
  tmpl->get_regular_range(min_ind, max_ind);
  CartesianCoordinate3D<float> centre(
      (tmpl->get_physical_coordinates_for_indices(min_ind) + tmpl->get_physical_coordinates_for_indices(max_ind)) / 2.F);
  EllipsoidalCylinder phantom(50.F, 50.F, 50.F, centre);
  CartesianCoordinate3D<int> num_samples(2, 2, 2);
  s.water.reset(tmpl->clone());
  phantom.construct_volume(*s.water, num_samples);
  *s.water *= 9.687E-02F;
  s.act.reset(tmpl->clone());
  phantom.construct_volume(*s.act, num_samples);

  // re-used object: window 1, run; then window 2, set_up, run
  SingleScatterSimulation reused;
  configure(reused, s, *e1);
  run(reused);
  reused.set_exam_info(*e2);
  shared_ptr<ProjDataInMemory> a = run(reused);
  // fresh object with window 2
  SingleScatterSimulation fresh;
  configure(fresh, s, *e2);
  shared_ptr<ProjDataInMemory> b = run(fresh);

  const SegmentByView<float> sa = a->get_segment_by_view(0), sb = b->get_segment_by_view(0);
  double maxdiff = 0, scale = 0;
  auto ia = sa.begin_all();
  for (auto ib = sb.begin_all(); ib != sb.end_all(); ++ia, ++ib)
    {
      maxdiff = std::max(maxdiff, std::fabs(double(*ia) - *ib));
      scale = std::max(scale, std::fabs(double(*ib)));
    }
  std::cout << "energy window changed 450-650 -> 350-650 keV, set_up, process_data: max |re-used - fresh| = " << maxdiff << " (scale "
            << scale << ")\n";
  return maxdiff > 1e-3 * scale ? 1 : 0;
}
