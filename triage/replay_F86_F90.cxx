// Probe of the UNMODIFIED library: round trip of single images through InterfileOutputFileFormat
// for cases that looked suspicious while reading the code.
// Prints what it sees and exits with the number of deviations.

#include "stir/VoxelsOnCartesianGrid.h"
#include "stir/IO/InterfileOutputFileFormat.h"
#include "stir/IO/interfile.h"
#include "stir/IndexRange3D.h"
#include "stir/Succeeded.h"
#include <iostream>
#include <string>
#include <cmath>
#include <memory>
#include <functional>
#include <limits>

using namespace stir;

static int deviations = 0;

static VoxelsOnCartesianGrid<float>
make_image(const std::function<float(int, int, int)>& f)
{
  VoxelsOnCartesianGrid<float> image(
      IndexRange3D(0, 2, -2, 1, -2, 2), CartesianCoordinate3D<float>(1.F, 2.F, 3.F), CartesianCoordinate3D<float>(2.F, 3.F, 4.F));
  for (int z = 0; z <= 2; ++z)
    for (int y = -2; y <= 1; ++y)
      for (int x = -2; x <= 2; ++x)
        image[z][y][x] = f(z, y, x);
  ExamInfo exam_info = image.get_exam_info();
  exam_info.imaging_modality = ImagingModality(ImagingModality::PT);
  image.set_exam_info(exam_info);
  return image;
}

// returns largest |read - written| in units of 'step' (negative on failure to read)
static void
probe(const std::string& label,
      const VoxelsOnCartesianGrid<float>& image,
      const NumericType type,
      const ByteOrder byte_order,
      const float user_scale,
      const double step, // expected quantisation step (0: exact)
      const bool clamp_negatives = false)
{
  InterfileOutputFileFormat format(type, byte_order);
  format.set_scale_to_write_data(user_scale);
  std::string filename = "C10_6_probe";
  const Succeeded written = format.write_to_file(filename, image);
  std::unique_ptr<VoxelsOnCartesianGrid<float>> back;
  bool threw = false;
  try
    {
      back.reset(read_interfile_image("C10_6_probe.hv"));
    }
  catch (...)
    {
      threw = true;
    }
  std::cout << label << ": write_to_file said " << (written == Succeeded::yes ? "yes" : "no") << "; ";
  if (!back)
    {
      std::cout << "DEVIATION: could not be read back (" << (threw ? "exception" : "null pointer") << ")\n";
      ++deviations;
      return;
    }
  double worst = 0;
  float worst_in = 0, worst_out = 0;
  auto it_in = image.begin_all_const();
  auto it_out = back->begin_all_const();
  for (; it_in != image.end_all_const(); ++it_in, ++it_out)
    {
      float expected = *it_in;
      if (clamp_negatives && expected < 0)
        expected = 0;
      const double diff = std::fabs(double(*it_out) - expected);
      if (diff > worst)
        {
          worst = diff;
          worst_in = expected;
          worst_out = *it_out;
        }
    }
  const double allowed = 0.5 * step * 1.001;
  if (worst > allowed)
    {
      std::cout << "DEVIATION: largest error " << worst << " (wrote " << worst_in << ", read " << worst_out << "), allowed "
                << allowed << '\n';
      ++deviations;
    }
  else
    std::cout << "ok (largest error " << worst << ", allowed " << allowed << ")\n";
}

int
main()
{
  std::cout.precision(10);
  const auto ramp = [](int z, int y, int x) { return 10.F + 100.F * z + 10.F * (y + 2) + (x + 2); };
  const auto ramp_neg = [](int z, int y, int x) { return -(10.F + 100.F * z + 10.F * (y + 2) + (x + 2)); };
  const auto ramp_mixed = [](int z, int y, int x) { return ((x + y + z) % 2 ? -1.F : 1.F) * (10.F + 100.F * z + 10.F * (y + 2) + (x + 2)); };
  const float ramp_max = 244.F;

  // control
  probe("control: SHORT, automatic scale", make_image(ramp), NumericType::SHORT, ByteOrder::little_endian, 0.F, 1.01 * ramp_max / 32767);
  probe("control: SHORT big-endian, mixed signs", make_image(ramp_mixed), NumericType::SHORT, ByteOrder::big_endian, 0.F, 1.01 * ramp_max / 32767);
  probe("control: FLOAT big-endian", make_image(ramp_mixed), NumericType::FLOAT, ByteOrder::big_endian, 0.F, 0.);

  // 1. floating point output as double should be exact
  probe("DOUBLE, automatic scale (should be exact)", make_image(ramp), NumericType::DOUBLE, ByteOrder::little_endian, 0.F, 0.);
  probe("DOUBLE, user scale 1 (should be exact)", make_image(ramp), NumericType::DOUBLE, ByteOrder::little_endian, 1.F, 0.);

  // 2. 4-byte unsigned and 8-byte integers: round() returns int
  probe("UINT, automatic scale", make_image(ramp), NumericType::UINT, ByteOrder::little_endian, 0.F, 1.01 * ramp_max / 4294967295.);
  probe("INT, automatic scale", make_image(ramp_mixed), NumericType::INT, ByteOrder::little_endian, 0.F, 1.01 * ramp_max / 2147483647.
                                                                                                          + 244 * 2e-7);
  probe("LONG, automatic scale", make_image(ramp_mixed), NumericType::LONG, ByteOrder::little_endian, 0.F, 244 * 2e-7);
  probe("ULONG, automatic scale", make_image(ramp), NumericType::ULONG, ByteOrder::little_endian, 0.F, 244 * 2e-7);
  probe("LONG, user scale 1", make_image(ramp_mixed), NumericType::LONG, ByteOrder::little_endian, 1.F, 1.);

  // 3. all-negative image into an unsigned type: expect an image of zeros
  probe("USHORT, all voxels negative, automatic scale", make_image(ramp_neg), NumericType::USHORT, ByteOrder::little_endian, 0.F, 0., true);
  probe("USHORT, all voxels negative, user scale 1", make_image(ramp_neg), NumericType::USHORT, ByteOrder::little_endian, 1.F, 0., true);
  probe("UCHAR, mixed signs, automatic scale", make_image(ramp_mixed), NumericType::UCHAR, ByteOrder::little_endian, 0.F, 1.01 * ramp_max / 255, true);

  // 4. rounding is done in float: x + 0.5F is rounded to even for 2^23 < x < 2^24
  probe("INT, user scale 1, all voxels 8388609", make_image([](int, int, int) { return 8388609.F; }), NumericType::INT, ByteOrder::little_endian, 1.F, 1.);
  probe("INT, user scale 1, all voxels -8388611", make_image([](int, int, int) { return -8388611.F; }), NumericType::INT, ByteOrder::little_endian, 1.F, 1.);

  // 5. tiny magnitudes: the scale factor underflows to 0
  probe("SHORT, all voxels 1e-42 (denormal), automatic scale", make_image([](int, int, int) { return 1e-42F; }), NumericType::SHORT, ByteOrder::little_endian, 0.F, 1.01 * 1e-42 / 32767);
  probe("SHORT, voxels around 1e-35, automatic scale", make_image([ramp](int z, int y, int x) { return 1e-37F * ramp(z, y, x); }), NumericType::SHORT, ByteOrder::little_endian, 0.F, 1.01 * 1e-37 * ramp_max / 32767);
  probe("INT, voxels around 1e-35, automatic scale", make_image([ramp](int z, int y, int x) { return 1e-37F * ramp(z, y, x); }), NumericType::INT, ByteOrder::little_endian, 0.F, 1.01 * 1e-37 * ramp_max / 2147483647. + 1e-37 * 244 * 2e-7);

  // 6. huge magnitudes
  probe("SCHAR, voxels up to 3e38, mixed signs", make_image([ramp_mixed](int z, int y, int x) { return 1.2e36F * ramp_mixed(z, y, x); }), NumericType::SCHAR, ByteOrder::big_endian, 0.F, 1.01 * 1.2e36 * ramp_max / 127);

  // 7. user scale that is too small / negative
  probe("SHORT, user scale 1e-6 (too small)", make_image(ramp_mixed), NumericType::SHORT, ByteOrder::little_endian, 1e-6F, 1.01 * ramp_max / 32767);
  probe("SHORT, user scale -1", make_image(ramp_mixed), NumericType::SHORT, ByteOrder::little_endian, -1.F, 1.01 * ramp_max / 32767);
  probe("SHORT, user scale 2", make_image(ramp_mixed), NumericType::SHORT, ByteOrder::little_endian, 2.F, 2.);
  probe("FLOAT, user scale 2 (should be exact)", make_image(ramp_mixed), NumericType::FLOAT, ByteOrder::big_endian, 2.F, 0.);

  // 8. exam information written with the default 6 digits
  {
    VoxelsOnCartesianGrid<float> image = make_image(ramp);
    ExamInfo exam_info = image.get_exam_info();
    exam_info.set_low_energy_thres(425.12344F);
    exam_info.set_high_energy_thres(650.98767F);
    exam_info.set_radionuclide(Radionuclide("MyNuclide", 511.F, 0.96789123F, 1223.4567F, ImagingModality(ImagingModality::PT)));
    image.set_exam_info(exam_info);
    InterfileOutputFileFormat format(NumericType::FLOAT, ByteOrder::little_endian);
    std::string filename = "C10_6_probe_exam";
    format.write_to_file(filename, image);
    std::unique_ptr<VoxelsOnCartesianGrid<float>> back;
    try
      {
        back.reset(read_interfile_image("C10_6_probe_exam.hv"));
      }
    catch (...)
      {}
    if (!back)
      {
        std::cout << "exam info: DEVIATION: could not read back\n";
        ++deviations;
      }
    else
      {
        const ExamInfo& e = back->get_exam_info();
        const auto report = [](const char* what, float wrote, float read) {
          std::cout << "exam info, " << what << ": wrote " << wrote << " read " << read;
          if (wrote != read)
            {
              std::cout << " DEVIATION";
              ++deviations;
            }
          std::cout << '\n';
        };
        report("energy window lower level", exam_info.get_low_energy_thres(), e.get_low_energy_thres());
        report("energy window upper level", exam_info.get_high_energy_thres(), e.get_high_energy_thres());
        report("radionuclide half life", exam_info.get_radionuclide().get_half_life(false), e.get_radionuclide().get_half_life(false));
        report("radionuclide branching ratio",
               exam_info.get_radionuclide().get_branching_ratio(false),
               e.get_radionuclide().get_branching_ratio(false));
        std::cout << "exam info, radionuclide name: wrote " << exam_info.get_radionuclide().get_name() << " read "
                  << e.get_radionuclide().get_name() << (exam_info.get_radionuclide().get_name() != e.get_radionuclide().get_name() ? " DEVIATION" : "")
                  << '\n';
        if (exam_info.get_radionuclide().get_name() != e.get_radionuclide().get_name())
          ++deviations;
      }
  }

  std::cout << deviations << " deviations\n";
  return deviations;
}
