/*
  Probe for problems in the UNMODIFIED STIR code w.r.t. the property
  "multi-threaded execution gives the single-thread result".

  Observation probed here:
    distributable_computation() (distributable.cxx) and LM_distributable_computation() (distributable.txx)
    size their per-thread accumulators (log-likelihood partial sums, counters, per-thread images, per-thread rows)
    with omp_get_max_threads() called INSIDE the parallel region, but index them with omp_get_thread_num().
    Inside a parallel region omp_get_max_threads() returns the number of threads a *nested* region would get.
    With the (standard) list syntax OMP_NUM_THREADS=3,1 ("3 threads at the outer level, no nested parallelism")
    it returns 1 while the team has 3 threads, so threads 1 and 2 index beyond the end of the arrays.

  Every scenario is run in a child process (started with OMP_NUM_THREADS=3,1 in its environment, as that
  variable is only read when the OpenMP run-time starts), because the scenario might crash.

  Prints what it sees. Exit code: number of scenarios that deviate (wrong result or crash).
*/
#include "stir/recon_buildblock/PoissonLogLikelihoodWithLinearModelForMeanAndProjData.h"
#include "stir/recon_buildblock/ProjMatrixByBinUsingRayTracing.h"
#include "stir/recon_buildblock/ProjectorByBinPairUsingProjMatrixByBin.h"
#include "stir/recon_buildblock/TrivialBinNormalisation.h"
#include "stir/VoxelsOnCartesianGrid.h"
#include "stir/ProjDataInMemory.h"
#include "stir/ProjDataInfo.h"
#include "stir/ExamInfo.h"
#include "stir/SegmentByView.h"
#include "stir/Scanner.h"
#include "stir/Bin.h"
#include "stir/Verbosity.h"
#include "stir/Succeeded.h"
#include <iostream>
#include <iomanip>
#include <vector>
#include <string>
#include <cmath>
#include <cstdlib>
#include <cstring>
#include <unistd.h>
#include <sys/wait.h>
#ifdef STIR_OPENMP
#  include <omp.h>
#endif

namespace stir
{
// defined in PoissonLogLikelihoodWithLinearModelForMeanAndListModeDataWithProjMatrixByBin.cxx
void LM_gradient_distributable_computation(const shared_ptr<ProjMatrixByBin> PM_sptr,
                                           const shared_ptr<ProjDataInfo>& proj_data_info_sptr,
                                           DiscretisedDensity<3, float>* output_image_ptr,
                                           const DiscretisedDensity<3, float>* input_image_ptr,
                                           const std::vector<BinAndCorr>& record_ptr,
                                           const int subset_num,
                                           const int num_subsets,
                                           const bool has_add,
                                           const bool accumulate,
                                           double* value_ptr);
} // namespace stir

using namespace stir;

#ifdef STIR_OPENMP
static shared_ptr<ProjDataInfo>
make_proj_data_info()
{
  shared_ptr<Scanner> scanner_sptr(new Scanner(Scanner::E953));
  scanner_sptr->set_num_rings(5);
  return shared_ptr<ProjDataInfo>(ProjDataInfo::ProjDataInfoCTI(scanner_sptr,
                                                                /*span=*/3,
                                                                /*max_delta=*/4,
                                                                /*num_views=*/16,
                                                                /*num_tang_poss=*/16));
}

static void
report_thread_numbers()
{
  int team = 0, inner_max = 0;
#  pragma omp parallel
  {
#  pragma omp single
    {
      team = omp_get_num_threads();
      inner_max = omp_get_max_threads();
    }
  }
  std::cout << "  OMP_NUM_THREADS=" << (getenv("OMP_NUM_THREADS") ? getenv("OMP_NUM_THREADS") : "(unset)")
            << ": omp_get_max_threads() outside a parallel region " << omp_get_max_threads() << ", team size " << team
            << ", omp_get_max_threads() inside the region " << inner_max << std::endl;
}

//! value of the projection-data objective function with 1 and with 3 threads
static int
scenario_value()
{
  Verbosity::set(0);
  shared_ptr<ProjDataInfo> proj_data_info_sptr = make_proj_data_info();
  shared_ptr<ExamInfo> exam_info_sptr(new ExamInfo(ImagingModality::PT));
  shared_ptr<ProjDataInMemory> proj_data_sptr(new ProjDataInMemory(exam_info_sptr, proj_data_info_sptr));
  shared_ptr<ProjDataInMemory> add_proj_data_sptr(new ProjDataInMemory(exam_info_sptr, proj_data_info_sptr));
  for (int seg_num = proj_data_sptr->get_min_segment_num(); seg_num <= proj_data_sptr->get_max_segment_num(); ++seg_num)
    {
      SegmentByView<float> segment = proj_data_sptr->get_empty_segment_by_view(seg_num);
      float value = 0;
      for (auto iter = segment.begin_all(); iter != segment.end_all(); ++iter)
        {
          value = float(fabs((seg_num + .1) * value - 5));
          *iter = value;
        }
      proj_data_sptr->set_segment(segment);
      segment.fill(0.7F);
      add_proj_data_sptr->set_segment(segment);
    }
  shared_ptr<DiscretisedDensity<3, float>> density_sptr(
      new VoxelsOnCartesianGrid<float>(exam_info_sptr, *proj_data_info_sptr, 1.F, CartesianCoordinate3D<float>(0, 0, 0)));
  density_sptr->fill(0.5F);

  PoissonLogLikelihoodWithLinearModelForMeanAndProjData<DiscretisedDensity<3, float>> objective_function;
  objective_function.set_proj_data_sptr(proj_data_sptr);
  objective_function.set_use_subset_sensitivities(true);
  shared_ptr<ProjMatrixByBin> proj_matrix_sptr(new ProjMatrixByBinUsingRayTracing());
  shared_ptr<ProjectorByBinPair> proj_pair_sptr(new ProjectorByBinPairUsingProjMatrixByBin(proj_matrix_sptr));
  objective_function.set_projector_pair_sptr(proj_pair_sptr);
  objective_function.set_normalisation_sptr(shared_ptr<BinNormalisation>(new TrivialBinNormalisation()));
  objective_function.set_additive_proj_data_sptr(add_proj_data_sptr);
  objective_function.set_num_subsets(1);
  if (objective_function.set_up(density_sptr) != Succeeded::yes)
    {
      std::cout << "  set_up failed\n";
      return 1;
    }
  omp_set_num_threads(1);
  const double v1 = objective_function.compute_objective_function_without_penalty(*density_sptr, 0);
  omp_set_num_threads(3);
  bool ok = true;
  // repeat, as the result depends on which thread gets which view/segment
  for (int repeat = 0; repeat < 5; ++repeat)
    {
      const double v3 = objective_function.compute_objective_function_without_penalty(*density_sptr, 0);
      std::cout << std::setprecision(12) << "  log-likelihood with 1 thread " << v1 << ", with 3 threads " << v3 << std::endl;
      if (std::fabs(v1 - v3) > 1.E-6 * std::fabs(v1))
        ok = false;
    }
  std::cout << (ok ? "  same value\n" : "  DEVIATION: the value computed with 3 threads differs\n");
  return ok ? 0 : 1;
}

//! list-mode gradient with 1 and with 3 threads
static int
scenario_lm_gradient()
{
  Verbosity::set(getenv("PROBE_VERBOSE") ? 2 : 0);
  shared_ptr<ProjDataInfo> proj_data_info_sptr = make_proj_data_info();
  shared_ptr<ExamInfo> exam_info_sptr(new ExamInfo(ImagingModality::PT));
  shared_ptr<DiscretisedDensity<3, float>> density_sptr(
      new VoxelsOnCartesianGrid<float>(exam_info_sptr, *proj_data_info_sptr, 1.F, CartesianCoordinate3D<float>(0, 0, 0)));
  density_sptr->fill(0.5F);
  shared_ptr<ProjMatrixByBin> PM_sptr(new ProjMatrixByBinUsingRayTracing());
  PM_sptr->set_up(proj_data_info_sptr, density_sptr);

  std::vector<BinAndCorr> events;
  for (int rep = 0; rep < 3; ++rep)
    for (int view = 0; view < 16; ++view)
      for (int tang = -5; tang <= 5; ++tang)
        for (int ax = 0; ax <= 2; ++ax)
          {
            BinAndCorr e;
            e.my_bin = Bin(0, view, ax, tang, 1.F);
            e.my_corr = 0.1F;
            events.push_back(e);
          }

  shared_ptr<DiscretisedDensity<3, float>> g1(density_sptr->get_empty_copy());
  shared_ptr<DiscretisedDensity<3, float>> g3(density_sptr->get_empty_copy());
  omp_set_num_threads(1);
  LM_gradient_distributable_computation(PM_sptr, proj_data_info_sptr, g1.get(), density_sptr.get(), events, 0, 1, true, false, nullptr);
  omp_set_num_threads(3);
  LM_gradient_distributable_computation(PM_sptr, proj_data_info_sptr, g3.get(), density_sptr.get(), events, 0, 1, true, false, nullptr);
  double max_abs_diff = 0;
  auto i1 = g1->begin_all_const();
  for (auto i3 = g3->begin_all_const(); i3 != g3->end_all_const(); ++i3, ++i1)
    max_abs_diff = std::max(max_abs_diff, std::fabs(double(*i3) - double(*i1)));
  std::cout << "  list-mode gradient: max with 1 thread " << g1->find_max() << ", max abs difference 3 threads vs 1 thread "
            << max_abs_diff << std::endl;
  const bool ok = max_abs_diff <= 1.E-4 * g1->find_max();
  std::cout << (ok ? "  same gradient\n" : "  DEVIATION: the gradient computed with 3 threads differs\n");
  return ok ? 0 : 1;
}
#endif

int
main(int argc, char** argv)
{
#ifndef STIR_OPENMP
  std::cout << "STIR was built without OpenMP: nothing to probe\n";
  return 0;
#else
  if (argc > 1)
    {
      // child
      report_thread_numbers();
      if (!strcmp(argv[1], "value"))
        return scenario_value();
      if (!strcmp(argv[1], "lm_gradient"))
        return scenario_lm_gradient();
      return 99;
    }

  int num_deviations = 0;
  const char* const scenarios[] = { "value", "lm_gradient" };
  const char* const envs[] = { "3", "3,1" };
  for (const char* env : envs)
    for (const char* scenario : scenarios)
      {
        std::cout << "--- scenario " << scenario << " with OMP_NUM_THREADS=" << env << std::endl;
        const pid_t pid = fork();
        if (pid == 0)
          {
            setenv("OMP_NUM_THREADS", env, 1);
            execl("/proc/self/exe", argv[0], scenario, (char*)0);
            _exit(98);
          }
        int status = 0;
        waitpid(pid, &status, 0);
        if (WIFSIGNALED(status))
          {
            std::cout << "  DEVIATION: child was killed by signal " << WTERMSIG(status) << " (" << strsignal(WTERMSIG(status)) << ")\n";
            ++num_deviations;
          }
        else if (WEXITSTATUS(status) != 0)
          {
            std::cout << "  child exit status " << WEXITSTATUS(status) << '\n';
            ++num_deviations;
          }
      }
  std::cout << "number of deviations seen: " << num_deviations << '\n';
  return num_deviations;
#endif
}
