#!/bin/bash
# usage: build_demo.sh <source.cxx> <output-exe> [build-dir]
# Compiles and links a small program against the static STIR libraries of a build dir
# (default: the OpenMP build /tmp/wt/C18-5/_build_omp), with the flags of the STIR tests.
set -e
SRC=$1
OUT=$2
B=${3:-/tmp/wt/C18-5/_build_omp}
WT=/tmp/wt/C18-5
OMPFLAG=""
if grep -q "define STIR_OPENMP" $B/src/include/stir/config.h; then OMPFLAG="-fopenmp"; fi
REG="$B/src/CMakeFiles/stir_registries.dir/buildblock/buildblock_registries.cxx.o \
 $B/src/CMakeFiles/stir_registries.dir/data_buildblock/data_buildblock_registries.cxx.o \
 $B/src/CMakeFiles/stir_registries.dir/IO/IO_registries.cxx.o \
 $B/src/CMakeFiles/stir_registries.dir/recon_buildblock/recon_buildblock_registries.cxx.o \
 $B/src/CMakeFiles/stir_registries.dir/Shape_buildblock/Shape_buildblock_registries.cxx.o \
 $B/src/CMakeFiles/stir_registries.dir/modelling_buildblock/modelling_registries.cxx.o \
 $B/src/CMakeFiles/stir_registries.dir/spatial_transformation_buildblock/spatial_transformation_registries.cxx.o \
 $B/src/CMakeFiles/stir_registries.dir/scatter_buildblock/scatter_registries.cxx.o"
S=$B/src
LIBS="$S/IO/libIO.a $S/analytic/FBP3DRP/libanalytic_FBP3DRP.a $S/analytic/FBP2D/libanalytic_FBP2D.a \
 $S/iterative/OSMAPOSL/libiterative_OSMAPOSL.a $S/iterative/KOSMAPOSL/libiterative_KOSMAPOSL.a $S/iterative/OSSPS/libiterative_OSSPS.a \
 $S/scatter_buildblock/libscatter_buildblock.a $S/modelling_buildblock/libmodelling_buildblock.a $S/listmode_buildblock/liblistmode_buildblock.a \
 $S/recon_buildblock/librecon_buildblock.a $S/display/libdisplay.a $S/data_buildblock/libdata_buildblock.a \
 $S/numerics_buildblock/libnumerics_buildblock.a $S/buildblock/libbuildblock.a \
 $S/spatial_transformation_buildblock/libspatial_transformation_buildblock.a $S/Shape_buildblock/libShape_buildblock.a $S/eval_buildblock/libeval_buildblock.a \
 /usr/lib/x86_64-linux-gnu/libSM.so /usr/lib/x86_64-linux-gnu/libICE.so /usr/lib/x86_64-linux-gnu/libX11.so /usr/lib/x86_64-linux-gnu/libXext.so -lcurses \
 $S/IO/libIO.a $S/modelling_buildblock/libmodelling_buildblock.a $S/IO/libIO.a $S/modelling_buildblock/libmodelling_buildblock.a \
 $S/listmode_buildblock/liblistmode_buildblock.a $S/data_buildblock/libdata_buildblock.a \
 /usr/lib/x86_64-linux-gnu/hdf5/serial/libhdf5_cpp.so /usr/lib/x86_64-linux-gnu/hdf5/serial/libhdf5.so \
 /usr/lib/x86_64-linux-gnu/libcrypto.so /usr/lib/x86_64-linux-gnu/libcurl.so /usr/lib/x86_64-linux-gnu/libsz.so /usr/lib/x86_64-linux-gnu/libz.so \
 -ldl -lm $S/numerics_buildblock/libnumerics_buildblock.a $S/buildblock/libbuildblock.a -lpthread"
c++ -Wno-error -O3 -DNDEBUG -ffast-math -std=gnu++17 -Wall -Wno-deprecated $OMPFLAG \
  -I$WT/src/include -I$B/src/include -I/usr/include/hdf5/serial -I/root/miniconda/include \
  $SRC -o $OUT $REG -Wl,-rpath,/usr/lib/x86_64-linux-gnu/hdf5/serial $LIBS
echo "built $OUT against $B"
