/*
  Probe of the UNMODIFIED library for the image part of the property
  "rebinning and resampling conserve counts and physical positions".

  Prints what it observes, exit code = number of kinds of deviation seen.

  A: random sweep over the 3D functions (one call, in-place, two-step), all ZoomOptions,
     zooms in [0.3,3] per axis, offsets, odd/even and non-square sizes, non-zero origin, min_z != 0
  B: per-plane zoom_image(image, zoom, x_off, y_off, new_size) for a non-square image with
     zoom==1, offsets 0 and new_size==x_size
  C: per-plane zoom_image for an image whose first plane is not 0 (run in a child process)
  D: two-step zoom_image(out,in) when "out" contains NaN before the call
  E: per-plane versus 3D call for non-square / even-sized images with non-zero origin
*/
#include "stir/VoxelsOnCartesianGrid.h"
#include "stir/IndexRange3D.h"
#include "stir/CartesianCoordinate3D.h"
#include "stir/zoom.h"
#include "stir/ZoomOptions.h"
#include "stir/stream.h"
#include <iostream>
#include <cmath>
#include <cstdlib>
#include <cstdio>
#include <string>
#include <limits>
#include <unistd.h>
#include <sys/wait.h>

using namespace stir;

static unsigned long rng_state = 4711UL;
static float
rnd()
{
  rng_state = (rng_state * 1103515245UL + 12345UL) & 0x7fffffffUL;
  return static_cast<float>(rng_state) / static_cast<float>(0x7fffffffUL);
}
static int
rnd_int(int lo, int hi)
{
  return lo + static_cast<int>(rnd() * (hi - lo + 1 - 1.E-3F));
}

static double
total(const VoxelsOnCartesianGrid<float>& im)
{
  double s = 0;
  for (auto it = im.begin_all(); it != im.end_all(); ++it)
    s += *it;
  return s;
}

static void
centre_of_mass(double* c, const VoxelsOnCartesianGrid<float>& im)
{
  double s = 0;
  c[0] = c[1] = c[2] = 0;
  for (int z = im.get_min_z(); z <= im.get_max_z(); ++z)
    for (int y = im.get_min_y(); y <= im.get_max_y(); ++y)
      for (int x = im.get_min_x(); x <= im.get_max_x(); ++x)
        {
          const CartesianCoordinate3D<float> p = im.get_physical_coordinates_for_indices(make_coordinate(z, y, x));
          const double v = im[z][y][x];
          s += v;
          c[0] += v * p.z();
          c[1] += v * p.y();
          c[2] += v * p.x();
        }
  for (int i = 0; i < 3; ++i)
    c[i] /= s;
}

static double
max_abs_diff(const VoxelsOnCartesianGrid<float>& a, const VoxelsOnCartesianGrid<float>& b)
{
  if (a.get_index_range() != b.get_index_range())
    return -1;
  if (norm(a.get_origin() - b.get_origin()) > 1.E-3 || norm(a.get_voxel_size() - b.get_voxel_size()) > 1.E-4)
    return -1;
  double m = 0;
  auto ia = a.begin_all();
  auto ib = b.begin_all();
  for (; ia != a.end_all(); ++ia, ++ib)
    m = std::max(m, std::fabs(static_cast<double>(*ia) - *ib));
  return m;
}

static VoxelsOnCartesianGrid<float>
random_image(bool standard_z, bool square, bool zero_origin, bool uniform)
{
  const int nz = rnd_int(1, 5);
  const int ny = rnd_int(5, 14);
  const int nx = square ? ny : rnd_int(5, 14);
  const int min_z = standard_z ? 0 : rnd_int(-2, 3);
  // x,y ranges: standard STIR convention, or (when the z range is not standard either) anything
  const int min_y = standard_z ? -(ny / 2) : rnd_int(-ny, 3);
  const int min_x = standard_z ? -(nx / 2) : rnd_int(-nx, 3);
  const IndexRange3D range(min_z, min_z + nz - 1, min_y, min_y + ny - 1, min_x, min_x + nx - 1);
  const CartesianCoordinate3D<float> origin
      = zero_origin ? CartesianCoordinate3D<float>(0.F, 0.F, 0.F)
                    : CartesianCoordinate3D<float>(10.F * (rnd() - .5F), 10.F * (rnd() - .5F), 10.F * (rnd() - .5F));
  const float vxy = 1.F + 3.F * rnd();
  const CartesianCoordinate3D<float> voxel_size(1.F + 3.F * rnd(), square ? vxy : 1.F + 3.F * rnd(), vxy);
  VoxelsOnCartesianGrid<float> image(range, origin, voxel_size);
  if (uniform)
    image.fill(2.F);
  else
    for (auto it = image.begin_all(); it != image.end_all(); ++it)
      *it = rnd() < .4F ? 0.F : 10.F * rnd();
  // make sure it is not empty
  image[min_z][min_y][min_x] += 1.F;
  return image;
}

static const ZoomOptions::Scaling scalings[]
    = { ZoomOptions::preserve_sum, ZoomOptions::preserve_values, ZoomOptions::preserve_projections };

//----------------------------------------------------------------------------------
static int
probe_A()
{
  std::cout << "A: random sweep over the 3D zoom functions\n";
  int n_sum = 0, n_com = 0, n_comp = 0, n_unif = 0, n_cases = 0;
  double worst_sum = 0, worst_com = 0, worst_comp = 0, worst_unif = 0;
  for (int iter = 0; iter < 600; ++iter)
    {
      const bool uniform = iter % 3 == 0;
      const VoxelsOnCartesianGrid<float> image = random_image(false, false, false, uniform);
      CartesianCoordinate3D<float> zooms(.3F + 2.7F * rnd(), .3F + 2.7F * rnd(), .3F + 2.7F * rnd());
      CartesianCoordinate3D<float> offsets(8.F * (rnd() - .5F), 8.F * (rnd() - .5F), 8.F * (rnd() - .5F));
      // pure shifts, exact multiples of the voxel size and zero offsets also occur
      for (int d = 1; d <= 3; ++d)
        {
          if (rnd() < .3F)
            zooms[d] = 1.F;
          const float r = rnd();
          if (r < .15F)
            offsets[d] = 0.F;
          else if (r < .3F)
            offsets[d] = image.get_voxel_size()[d] * rnd_int(-2, 2);
          else if (r < .4F)
            offsets[d] = image.get_voxel_size()[d] * (rnd_int(-2, 2) + .5F);
        }
      const CartesianCoordinate3D<float> new_voxel = image.get_voxel_size() / zooms;
      CartesianCoordinate3D<int> sizes;
      for (int d = 1; d <= 3; ++d)
        sizes[d] = static_cast<int>(std::ceil(image.get_lengths()[d] * zooms[d])) + 2 * static_cast<int>(std::ceil(std::fabs(offsets[d]) / new_voxel[d])) + 3;
      const ZoomOptions opts(scalings[iter % 3 == 0 ? 1 : rnd_int(0, 2)]);

      const VoxelsOnCartesianGrid<float> ref = zoom_image(image, zooms, offsets, sizes, opts);
      VoxelsOnCartesianGrid<float> in_place(image);
      zoom_image_in_place(in_place, zooms, offsets, sizes, opts);
      VoxelsOnCartesianGrid<float> two_step(ref.get_index_range(), ref.get_origin(), ref.get_voxel_size());
      two_step.fill(0.F);
      zoom_image(two_step, image, opts);
      ++n_cases;

      const double scale = image.find_max() * std::max(1.F, 1.F / (zooms[1] * zooms[2] * zooms[3]));
      const double d1 = max_abs_diff(in_place, ref), d2 = max_abs_diff(two_step, ref);
      if (d1 < 0 || d2 < 0 || d1 > 1.E-4 * scale || d2 > 1.E-4 * scale)
        {
          ++n_comp;
          worst_comp = std::max(worst_comp, std::max(std::fabs(d1), std::fabs(d2)) / scale);
        }
      if (opts.get_scaling_option() == ZoomOptions::preserve_sum)
        {
          const double s0 = total(image), s1 = total(ref);
          const double rel = std::fabs(s1 - s0) / s0;
          worst_sum = std::max(worst_sum, rel);
          if (rel > 1.E-4)
            {
              ++n_sum;
              if (n_sum <= 5)
                std::cout << "   sum: in " << s0 << " out " << s1 << " zooms " << zooms << " offsets " << offsets << " sizes "
                          << sizes << " in-lengths " << image.get_lengths() << '\n';
            }
        }
      {
        double c0[3], c1[3];
        centre_of_mass(c0, image);
        centre_of_mass(c1, ref);
        bool bad = false;
        for (int d = 0; d < 3; ++d)
          {
            const double lim = (image.get_voxel_size()[d + 1] + ref.get_voxel_size()[d + 1]) / 2;
            worst_com = std::max(worst_com, std::fabs(c1[d] - c0[d]) / lim);
            if (std::fabs(c1[d] - c0[d]) > lim)
              bad = true;
          }
        if (bad)
          {
            ++n_com;
            if (n_com <= 5)
              std::cout << "   CoM: in (" << c0[0] << ',' << c0[1] << ',' << c0[2] << ") out (" << c1[0] << ',' << c1[1] << ','
                        << c1[2] << ") zooms " << zooms << " offsets " << offsets << '\n';
          }
      }
      if (uniform)
        {
          const CartesianCoordinate3D<float> lo
              = image.get_physical_coordinates_for_indices(make_coordinate(image.get_min_z(), image.get_min_y(), image.get_min_x()))
                - image.get_voxel_size() / 2.F;
          const CartesianCoordinate3D<float> hi
              = image.get_physical_coordinates_for_indices(make_coordinate(image.get_max_z(), image.get_max_y(), image.get_max_x()))
                + image.get_voxel_size() / 2.F;
          double worst = 0;
          for (int z = ref.get_min_z(); z <= ref.get_max_z(); ++z)
            for (int y = ref.get_min_y(); y <= ref.get_max_y(); ++y)
              for (int x = ref.get_min_x(); x <= ref.get_max_x(); ++x)
                {
                  const CartesianCoordinate3D<float> p = ref.get_physical_coordinates_for_indices(make_coordinate(z, y, x));
                  const CartesianCoordinate3D<float> h = ref.get_voxel_size() / 2.F;
                  bool inside = true;
                  for (int d = 1; d <= 3; ++d)
                    if (p[d] - h[d] < lo[d] + 1.E-2F || p[d] + h[d] > hi[d] - 1.E-2F)
                      inside = false;
                  // the voxel [0][0][0] of the input was incremented, stay away from it
                  const CartesianCoordinate3D<float> p0 = image.get_physical_coordinates_for_indices(
                      make_coordinate(image.get_min_z(), image.get_min_y(), image.get_min_x()));
                  bool near0 = true;
                  for (int d = 1; d <= 3; ++d)
                    if (std::fabs(p[d] - p0[d]) > h[d] + image.get_voxel_size()[d] / 2 + 1.E-2F)
                      near0 = false;
                  if (inside && !near0)
                    worst = std::max(worst, std::fabs(static_cast<double>(ref[z][y][x]) - 2.));
                }
          worst_unif = std::max(worst_unif, worst);
          if (worst > 2.E-3)
            ++n_unif;
        }
    }
  std::cout << "   " << n_cases << " cases: composition deviations " << n_comp << " (worst rel " << worst_comp
            << "), sum deviations " << n_sum << " (worst rel " << worst_sum << "), CoM deviations " << n_com
            << " (worst as fraction of allowed " << worst_com << "), uniformity deviations " << n_unif << " (worst abs " << worst_unif
            << " on value 2)\n";
  return (n_sum > 0) + (n_com > 0) + (n_comp > 0) + (n_unif > 0);
}

//----------------------------------------------------------------------------------
static int
probe_B()
{
  std::cout << "B: per-plane zoom_image, zoom=1, offsets 0, new_size==x_size but y_size differs\n";
  const IndexRange3D range(0, 1, -5, 5, -3, 3); // y size 11, x size 7
  VoxelsOnCartesianGrid<float> image(range, CartesianCoordinate3D<float>(0.F, 0.F, 0.F), CartesianCoordinate3D<float>(2.F, 3.F, 3.F));
  image.fill(1.F);
  const VoxelsOnCartesianGrid<float> per_plane = zoom_image(image, 1.F, 0.F, 0.F, 7);
  const VoxelsOnCartesianGrid<float> ref = zoom_image(image,
                                                      CartesianCoordinate3D<float>(1.F, 1.F, 1.F),
                                                      CartesianCoordinate3D<float>(0.F, 0.F, 0.F),
                                                      CartesianCoordinate3D<int>(2, 7, 7));
  std::cout << "   per-plane result sizes " << per_plane.get_lengths() << " sum " << total(per_plane) << "; 3D-call result sizes "
            << ref.get_lengths() << " sum " << total(ref) << '\n';
  // same with a tiny zoom difference, which avoids the shortcut
  const VoxelsOnCartesianGrid<float> per_plane2 = zoom_image(image, 1.000001F, 0.F, 0.F, 7);
  std::cout << "   per-plane result with zoom=1.000001: sizes " << per_plane2.get_lengths() << " sum " << total(per_plane2) << '\n';
  if (per_plane.get_lengths() != ref.get_lengths())
    {
      std::cout << "   DEVIATION: requested new_size 7 in x and y, got y size " << per_plane.get_y_size()
                << " (early return only looks at the x size)\n";
      return 1;
    }
  return 0;
}

//----------------------------------------------------------------------------------
static int
probe_C()
{
  std::cout << "C: per-plane zoom_image for an image with min_z=2 (child process)\n";
  fflush(stdout);
  const pid_t pid = fork();
  if (pid == 0)
    {
      const IndexRange3D range(2, 5, -4, 4, -4, 4);
      VoxelsOnCartesianGrid<float> image(
          range, CartesianCoordinate3D<float>(0.F, 0.F, 0.F), CartesianCoordinate3D<float>(2.F, 3.F, 3.F));
      for (auto it = image.begin_all(); it != image.end_all(); ++it)
        *it = 1.F + rnd();
      const VoxelsOnCartesianGrid<float> ref = zoom_image(image,
                                                          CartesianCoordinate3D<float>(1.F, 1.5F, 1.5F),
                                                          CartesianCoordinate3D<float>(0.F, 0.F, 0.F),
                                                          CartesianCoordinate3D<int>(4, 17, 17));
      const VoxelsOnCartesianGrid<float> per_plane = zoom_image(image, 1.5F, 0.F, 0.F, 17);
      const double s0 = total(image), s1 = total(per_plane), s2 = total(ref);
      std::cout << "   sums: input " << s0 << " per-plane " << s1 << " 3D call " << s2 << "; z-range per-plane "
                << per_plane.get_min_z() << ".." << per_plane.get_max_z() << ", 3D call " << ref.get_min_z() << ".."
                << ref.get_max_z() << std::endl;
      // compare plane by plane in mm
      double worst = 0;
      for (int z = ref.get_min_z(); z <= ref.get_max_z(); ++z)
        for (int y = ref.get_min_y(); y <= ref.get_max_y(); ++y)
          for (int x = ref.get_min_x(); x <= ref.get_max_x(); ++x)
            worst = std::max(worst, std::fabs(static_cast<double>(ref[z][y][x]) - per_plane[z][y][x]));
      std::cout << "   max abs diff per-plane vs 3D call " << worst << std::endl;
      _exit((std::fabs(s1 - s0) > 1.E-4 * s0 || worst > 1.E-3) ? 1 : 0);
    }
  int status = 0;
  waitpid(pid, &status, 0);
  if (WIFSIGNALED(status))
    {
      std::cout << "   DEVIATION: child was killed by signal " << WTERMSIG(status)
                << " (planes are written at the input's plane numbers, outside the 0-based output)\n";
      return 1;
    }
  if (WEXITSTATUS(status) != 0)
    {
      std::cout << "   DEVIATION: per-plane result is wrong for min_z != 0 (planes written at the input's plane numbers)\n";
      return 1;
    }
  return 0;
}

//----------------------------------------------------------------------------------
static int
probe_D()
{
  std::cout << "D: two-step zoom_image(out,in) where out contains NaN beforehand\n";
  const IndexRange3D range(0, 2, -4, 4, -4, 4);
  VoxelsOnCartesianGrid<float> image(range, CartesianCoordinate3D<float>(0.F, 0.F, 0.F), CartesianCoordinate3D<float>(2.F, 3.F, 3.F));
  image.fill(1.F);
  // out grid has extra planes in z on both sides
  VoxelsOnCartesianGrid<float> out(
      IndexRange3D(-2, 6, -7, 7, -7, 7), CartesianCoordinate3D<float>(0.F, 0.F, 0.F), CartesianCoordinate3D<float>(1.6F, 2.F, 2.F));
  out.fill(std::numeric_limits<float>::quiet_NaN());
  zoom_image(out, image);
  int n_nan = 0;
  for (auto it = out.begin_all(); it != out.end_all(); ++it)
    if (std::isnan(*it))
      ++n_nan;
  std::cout << "   NaN voxels left in the output: " << n_nan << " of " << out.size_all() << '\n';
  VoxelsOnCartesianGrid<float> out2(out);
  out2.fill(7.F);
  zoom_image(out2, image);
  const double s = total(out2);
  std::cout << "   output prefilled with 7: sum after zoom " << s << " (input " << total(image) << ")\n";
  int ret = 0;
  if (n_nan > 0)
    {
      std::cout << "   DEVIATION: planes outside the input are 'zeroed' by multiplication with 0, which keeps NaN/Inf\n";
      ret = 1;
    }
  if (std::fabs(s - total(image)) > 1.E-3 * total(image))
    {
      std::cout << "   DEVIATION: previous content of the output leaks into the result\n";
      ret = 1;
    }
  return ret;
}

//----------------------------------------------------------------------------------
static int
probe_E()
{
  std::cout << "E: per-plane versus 3D call, non-square / even sizes, non-zero origin (min_z=0)\n";
  int n_dev = 0, n_cases = 0;
  double worst = 0;
  for (int iter = 0; iter < 300; ++iter)
    {
      const VoxelsOnCartesianGrid<float> image = random_image(true, false, false, false);
      const float zoom = .3F + 2.7F * rnd();
      const float x_off = 8.F * (rnd() - .5F), y_off = 8.F * (rnd() - .5F);
      const int n_in = std::max(image.get_x_size(), image.get_y_size());
      const float new_voxel = std::min(image.get_voxel_size().x(), image.get_voxel_size().y()) / zoom;
      const int new_size = static_cast<int>(std::ceil(n_in * zoom)) + 2 * static_cast<int>(std::ceil(4.F / new_voxel)) + 3;
      const ZoomOptions opts(scalings[rnd_int(0, 2)]);
      const VoxelsOnCartesianGrid<float> ref = zoom_image(image,
                                                          CartesianCoordinate3D<float>(1.F, zoom, zoom),
                                                          CartesianCoordinate3D<float>(0.F, y_off, x_off),
                                                          CartesianCoordinate3D<int>(image.get_z_size(), new_size, new_size),
                                                          opts);
      const VoxelsOnCartesianGrid<float> per_plane = zoom_image(image, zoom, x_off, y_off, new_size, opts);
      VoxelsOnCartesianGrid<float> in_place(image);
      zoom_image_in_place(in_place, zoom, x_off, y_off, new_size, opts);
      ++n_cases;
      const double scale = image.find_max() * std::max(1.F, 1.F / (zoom * zoom));
      const double d1 = max_abs_diff(per_plane, ref), d2 = max_abs_diff(in_place, ref);
      if (d1 < 0 || d2 < 0 || d1 > 1.E-4 * scale || d2 > 1.E-4 * scale)
        {
          ++n_dev;
          if (n_dev <= 5)
            std::cout << "   zoom " << zoom << " offsets " << x_off << ',' << y_off << " new_size " << new_size << " in-lengths "
                      << image.get_lengths() << " voxel " << image.get_voxel_size() << ": diff " << d1 << ' ' << d2 << " (scale "
                      << scale << ")\n";
        }
      if (d1 >= 0)
        worst = std::max(worst, d1 / scale);
    }
  std::cout << "   " << n_cases << " cases, deviations " << n_dev << ", worst rel diff " << worst << '\n';
  return n_dev > 0;
}

int
main()
{
  int n = 0;
  n += probe_A();
  n += probe_B();
  n += probe_C();
  n += probe_D();
  n += probe_E();
  std::cout << "kinds of deviation seen: " << n << std::endl;
  return n;
}
