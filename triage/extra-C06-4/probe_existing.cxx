// Probe of the UNMODIFIED library for seed C06-4: looks for cases covered by the property
// "ordered subsets partition the data; balanced is reported exactly when all subsets process
// the same number of viewgrams; every subset used once per iteration" that the current code gets wrong.
//
// Prints what it observes; exit code = number of kinds of deviation seen.
#include "../recording_projectors.h"
#include "stir/recon_buildblock/find_basic_vs_nums_in_subsets.h"
#include "stir/OSMAPOSL/OSMAPOSLReconstruction.h"
#include <algorithm>
#include <set>
#include <exception>

using namespace seed;

static shared_ptr<ProjDataInfo>
make_nontof_pdi(const int num_views, const int max_delta = 2)
{
  shared_ptr<Scanner> scanner_sptr(new Scanner(Scanner::E953));
  scanner_sptr->set_num_rings(3);
  return shared_ptr<ProjDataInfo>(
      ProjDataInfo::ProjDataInfoCTI(scanner_sptr, /*span=*/1, max_delta, num_views, /*num_tang_poss=*/8));
}

static shared_ptr<ProjDataInfo>
make_tof_pdi(const int tof_mash_factor, const int num_views = 12)
{
  shared_ptr<Scanner> scanner_sptr(new Scanner(Scanner::Discovery690));
  scanner_sptr->set_num_rings(3);
  return shared_ptr<ProjDataInfo>(
      ProjDataInfo::construct_proj_data_info(scanner_sptr, 1, 1, num_views, 8, false, tof_mash_factor));
}

struct Obj
{
  shared_ptr<Log> log_sptr;
  shared_ptr<ProjectorByBinPair> pair_sptr;
  PoissonLogLikelihoodWithLinearModelForMeanAndProjData<target_type> obj;
  Obj(const SymChoice& sym, const int num_subsets)
      : log_sptr(new Log)
  {
    shared_ptr<ForwardProjectorByBin> fwd(new RecordingForwardProjector(log_sptr, sym));
    shared_ptr<BackProjectorByBin> bck(new RecordingBackProjector(log_sptr, sym));
    pair_sptr.reset(new ProjectorByBinPairUsingSeparateProjectors(fwd, bck));
    obj.set_projector_pair_sptr(pair_sptr);
    obj.set_use_subset_sensitivities(true);
    obj.set_num_subsets(num_subsets);
  }
};

/**************************************************************************************
 P1: exhaustive check of detail::find_basic_vs_nums_in_subset + related viewgrams, and of
     subsets_are_approximately_balanced(), over num_views x num_subsets x symmetries x segment range
***************************************************************************************/
static int
probe_partition_and_balance()
{
  std::cout << "P1: exhaustive partition/balance check, num_views 1..96, num_subsets 1..num_views\n";
  const SymChoice syms[] = { { true, false, false, false }, { false, false, false, false }, { false, false, false, true },
                             { false, false, true, false }, { false, false, true, true },   { false, true, true, false },
                             { false, true, true, true } };
  long configs = 0, partition_dev = 0, balance_dev = 0, outside_range_dev = 0;
  std::string first_partition, first_balance, first_outside;
  for (int num_views = 1; num_views <= 96; ++num_views)
    {
      shared_ptr<ProjDataInfo> pdi_sptr = make_nontof_pdi(num_views);
      shared_ptr<ProjData> data = make_data(pdi_sptr);
      // note: image made from a 16-view geometry of the same scanner (the image does not depend on the number
      // of views, and VoxelsOnCartesianGrid cannot be constructed from ProjDataInfo with a single view)
      shared_ptr<target_type> image_sptr = make_image(*make_data(make_nontof_pdi(16)));
      for (const SymChoice& sym : syms)
        {
          shared_ptr<DataSymmetriesForViewSegmentNumbers> sym_sptr = make_symmetries(sym, pdi_sptr, image_sptr);
          // objective function with the same symmetries, set up once
          Obj o(sym, 1);
          o.obj.set_input_data(data);
          if (o.obj.set_up(image_sptr) != Succeeded::yes)
            {
              std::cout << "  set_up failed for num_views " << num_views << '\n';
              ++partition_dev;
              continue;
            }
          // segment ranges: {full, -1..1, 0..0, 0..2 (asymmetric), 1..2 (asymmetric)}
          const int ranges[][2] = { { -2, 2 }, { -1, 1 }, { 0, 0 }, { 0, 2 }, { 1, 2 } };
          for (int num_subsets = 1; num_subsets <= num_views; ++num_subsets)
            {
              for (const auto& r : ranges)
                {
                  ++configs;
                  std::map<std::pair<int, int>, int> count; // (segment, view)
                  std::vector<int> num_in_subset(num_subsets, 0);
                  int outside = 0;
                  for (int subset_num = 0; subset_num < num_subsets; ++subset_num)
                    {
                      const std::vector<ViewSegmentNumbers> vs
                          = detail::find_basic_vs_nums_in_subset(*pdi_sptr, *sym_sptr, r[0], r[1], subset_num, num_subsets);
                      for (const ViewSegmentNumbers& b : vs)
                        {
                          std::vector<ViewSegmentNumbers> rel;
                          sym_sptr->get_related_view_segment_numbers(rel, b);
                          for (const ViewSegmentNumbers& x : rel)
                            {
                              if (x.segment_num() < r[0] || x.segment_num() > r[1])
                                ++outside;
                              else
                                ++count[std::make_pair(x.segment_num(), x.view_num())];
                              ++num_in_subset[subset_num];
                            }
                        }
                    }
                  const bool symmetric_range = r[0] == -r[1];
                  if (outside && !symmetric_range)
                    {
                      if (!outside_range_dev++)
                        first_outside = "num_views " + std::to_string(num_views) + ", sym " + sym.name() + ", segments "
                                        + std::to_string(r[0]) + ".." + std::to_string(r[1]) + ", num_subsets "
                                        + std::to_string(num_subsets) + ": " + std::to_string(outside)
                                        + " viewgrams outside the requested segment range are in the groups";
                    }
                  bool bad = (outside != 0 && symmetric_range);
                  for (int s = r[0]; s <= r[1]; ++s)
                    for (int v = 0; v < num_views; ++v)
                      {
                        auto it = count.find(std::make_pair(s, v));
                        if (it == count.end() || it->second != 1)
                          bad = true;
                      }
                  if (bad && (symmetric_range || !outside))
                    {
                      if (!partition_dev++)
                        first_partition = "num_views " + std::to_string(num_views) + ", sym " + sym.name() + ", segments "
                                          + std::to_string(r[0]) + ".." + std::to_string(r[1]) + ", num_subsets "
                                          + std::to_string(num_subsets);
                    }
                  if (r[0] == -2 && r[1] == 2)
                    {
                      // balance, only for the range the objective function uses
                      const bool truly_balanced
                          = std::count(num_in_subset.begin(), num_in_subset.end(), num_in_subset[0]) == num_subsets;
                      o.obj.set_num_subsets(num_subsets);
                      const bool reported = o.obj.subsets_are_approximately_balanced();
                      if (reported != truly_balanced)
                        {
                          if (!balance_dev++)
                            first_balance = "num_views " + std::to_string(num_views) + ", sym " + sym.name() + ", num_subsets "
                                            + std::to_string(num_subsets) + ": reported " + std::to_string(reported) + ", truth "
                                            + std::to_string(truly_balanced);
                        }
                    }
                }
            }
        }
    }
  std::cout << "  " << configs << " configurations checked\n"
            << "  partition deviations (symmetric or consistent ranges): " << partition_dev
            << (partition_dev ? "  first: " + first_partition : "") << '\n'
            << "  balanced-flag deviations: " << balance_dev << (balance_dev ? "  first: " + first_balance : "") << '\n'
            << "  asymmetric segment range leaks outside the range: " << outside_range_dev
            << (outside_range_dev ? "  first: " + first_outside : "") << '\n';
  return (partition_dev ? 1 : 0) + (balance_dev ? 1 : 0) + (outside_range_dev ? 1 : 0);
}

/**************************************************************************************
 P2: subsets_are_approximately_balanced() called before set_up()
***************************************************************************************/
static int
probe_balance_before_set_up()
{
  std::cout << "P2: subsets_are_approximately_balanced() before set_up() (16 views, 90deg symmetries, 5 subsets)\n";
  const SymChoice sym = { false, true, true, true };
  shared_ptr<ProjData> data = make_data(make_nontof_pdi(16));
  shared_ptr<target_type> image_sptr = make_image(*data);
  Obj o(sym, 5);
  o.obj.set_input_data(data);
  o.pair_sptr->set_up(data->get_proj_data_info_sptr(), image_sptr); // so that the symmetries exist
  bool before = false, after = false;
  try
    {
      before = o.obj.subsets_are_approximately_balanced();
      o.obj.set_up(image_sptr);
      after = o.obj.subsets_are_approximately_balanced();
    }
  catch (std::exception& e)
    {
      std::cout << "  exception " << e.what() << '\n';
    }
  std::cout << "  reported before set_up: " << before << ", after set_up: " << after << " (16 views cannot be split evenly in 5)"
            << (before != after ? "  <-- DEVIATION" : "") << '\n';
  return before != after ? 1 : 0;
}

static int
one_iteration(Obj& o, const shared_ptr<ProjData>& data, const std::string& label)
{
  shared_ptr<target_type> image_sptr = make_image(*data);
  o.obj.set_input_data(data);
  if (o.obj.set_up(image_sptr) != Succeeded::yes)
    {
      std::cout << "  set_up failed\n";
      return 1;
    }
  o.log_sptr->clear();
  shared_ptr<target_type> gradient_sptr(image_sptr->get_empty_copy());
  std::vector<SVT> back_all;
  for (int subset_num = 0; subset_num < o.obj.get_num_subsets(); ++subset_num)
    {
      o.obj.compute_sub_gradient_without_penalty_plus_sensitivity(*gradient_sptr, *image_sptr, subset_num);
      back_all.insert(back_all.end(), o.log_sptr->back.begin(), o.log_sptr->back.end());
      o.log_sptr->clear();
    }
  return check_exactly_once(back_all, *data->get_proj_data_info_sptr(), label) ? 1 : 0;
}

/**************************************************************************************
 P3: objective function re-used for data with a larger segment range
***************************************************************************************/
static int
probe_stale_max_segment()
{
  std::cout << "P3: one objective function (max segment left at its default), first data with segments -1..1, then "
               "set_input_data() with segments -2..2 and set_up() again\n";
  const SymChoice sym = { false, true, true, true };
  Obj o(sym, 2);
  int dev = 0;
  try
    {
      dev += one_iteration(o, make_data(make_nontof_pdi(16, 1)), "first data  (segments -1..1)");
      dev += one_iteration(o, make_data(make_nontof_pdi(16, 2)), "second data (segments -2..2)");
      std::cout << "  get_max_segment_num_to_process() is now " << o.obj.get_max_segment_num_to_process() << '\n';
    }
  catch (std::exception& e)
    {
      std::cout << "  exception " << e.what() << '\n';
      ++dev;
    }
  return dev ? 1 : 0;
}

/**************************************************************************************
 P4: IterativeReconstruction::get_subset_num() with randomised order
***************************************************************************************/
class MyRecon : public OSMAPOSLReconstruction<target_type>
{
public:
  void
  set_subiteration_num(int n)
  {
    this->subiteration_num = n;
  }
};

static int
probe_subset_schedule()
{
  std::cout << "P4: subset schedule (IterativeReconstruction::get_subset_num)\n";
  int kinds = 0;
  // a) deterministic and randomised, one call per subiteration (what OSMAPOSL/OSSPS do)
  long bad_single = 0, checked = 0;
  for (int num_subsets = 1; num_subsets <= 12; ++num_subsets)
    for (int start_subset = 0; start_subset < num_subsets; ++start_subset)
      for (int randomise = 0; randomise <= 1; ++randomise)
        for (int start_subiter = 1; start_subiter <= 2 * num_subsets; ++start_subiter)
          {
            MyRecon r;
            r.set_num_subsets(num_subsets);
            r.set_start_subset_num(start_subset);
            r.set_randomise_subset_order(randomise != 0);
            std::vector<int> used;
            // start at start_subiter, then run to the end of 4 full iterations
            for (int sub = start_subiter; sub <= 4 * num_subsets; ++sub)
              {
                r.set_subiteration_num(sub);
                const int s = r.get_subset_num();
                if ((sub - 1) % num_subsets == 0)
                  used.clear();
                used.push_back(s);
                if (sub % num_subsets == 0 && static_cast<int>(used.size()) == num_subsets)
                  {
                    ++checked;
                    std::set<int> u(used.begin(), used.end());
                    if (static_cast<int>(u.size()) != num_subsets || *u.begin() != 0 || *u.rbegin() != num_subsets - 1)
                      ++bad_single;
                  }
              }
          }
  std::cout << "  a) one get_subset_num() call per subiteration: " << checked << " full iterations checked, " << bad_single
            << " not a permutation of the subsets" << (bad_single ? "  <-- DEVIATION" : "") << '\n';
  kinds += bad_single ? 1 : 0;

  // b) randomised, and someone (GUI/logging/Python callback) also calls the public accessor get_subset_num()
  //    once more during the subiteration
  long bad_double = 0, checked_double = 0;
  {
    MyRecon r;
    const int num_subsets = 4;
    r.set_num_subsets(num_subsets);
    r.set_randomise_subset_order(true);
    for (int it = 0; it < 200; ++it)
      {
        std::set<int> used;
        for (int sub = it * num_subsets + 1; sub <= (it + 1) * num_subsets; ++sub)
          {
            r.set_subiteration_num(sub);
            const int s_used_by_algorithm = r.get_subset_num();
            (void)r.get_subset_num(); // 2nd call in same subiteration, e.g. to print the subset number
            used.insert(s_used_by_algorithm);
          }
        ++checked_double;
        if (static_cast<int>(used.size()) != num_subsets)
          ++bad_double;
      }
  }
  std::cout << "  b) randomised order, accessor called twice per subiteration: " << checked_double << " iterations, in "
            << bad_double << " of them some subset was used twice and another not at all"
            << (bad_double ? "  <-- DEVIATION" : "") << '\n';
  kinds += bad_double ? 1 : 0;
  return kinds;
}

/**************************************************************************************
 P5: BackProjectorByBin::back_project(proj_data, subset_num, num_subsets) with subset_num out of range
     P6: forward/back projecting TOF ProjData subset by subset
***************************************************************************************/
static int
probe_projector_subsets()
{
  int kinds = 0;
  const SymChoice sym = { false, true, true, true };
  {
    std::cout << "P5: back_project(proj_data, subset_num=3, num_subsets=2) (forward_project() refuses this)\n";
    shared_ptr<ProjData> data = make_data(make_nontof_pdi(16));
    shared_ptr<target_type> image_sptr = make_image(*data);
    shared_ptr<Log> log(new Log);
    RecordingBackProjector b(log, sym);
    b.set_up(data->get_proj_data_info_sptr(), image_sptr);
    b.start_accumulating_in_new_target();
    bool threw = false;
    try
      {
        b.back_project(*data, 3, 2);
      }
    catch (std::exception&)
      {
        threw = true;
      }
    std::cout << "  exception: " << threw << ", viewgrams back projected: " << log->back.size()
              << (!threw ? "  <-- DEVIATION (accepted silently, processes part of subset 1)" : "") << '\n';
    kinds += threw ? 0 : 1;
    RecordingForwardProjector f(log, sym);
    f.set_up(data->get_proj_data_info_sptr(), image_sptr);
    f.set_input(*image_sptr);
    threw = false;
    try
      {
        f.forward_project(*data, 3, 2);
      }
    catch (std::exception&)
      {
        threw = true;
      }
    std::cout << "  (forward_project with the same arguments: exception: " << threw << ")\n";
  }
  {
    std::cout << "P6: forward_project/back_project(ProjData, subset_num, num_subsets) on TOF data (11 TOF bins), 5 subsets of 12 "
                 "views\n";
    shared_ptr<ProjData> data = make_data(make_tof_pdi(5));
    shared_ptr<target_type> image_sptr = make_image(*data);
    shared_ptr<Log> log(new Log);
    RecordingBackProjector b(log, sym);
    RecordingForwardProjector f(log, sym);
    b.set_up(data->get_proj_data_info_sptr(), image_sptr);
    f.set_up(data->get_proj_data_info_sptr(), image_sptr);
    f.set_input(*image_sptr);
    b.start_accumulating_in_new_target();
    for (int s = 0; s < 5; ++s)
      {
        f.forward_project(*data, s, 5, /*zero=*/false);
        b.back_project(*data, s, 5);
      }
    int dev = check_exactly_once(log->fwd, *data->get_proj_data_info_sptr(), "forward");
    dev += check_exactly_once(log->back, *data->get_proj_data_info_sptr(), "back   ");
    kinds += dev ? 1 : 0;
  }
  return kinds;
}

int
main()
{
  Verbosity::set(0);
  int kinds = 0;
  kinds += probe_partition_and_balance();
  kinds += probe_balance_before_set_up();
  kinds += probe_stale_max_segment();
  kinds += probe_subset_schedule();
  kinds += probe_projector_subsets();
  std::cout << "number of kinds of deviation observed: " << kinds << '\n';
  return kinds;
}
