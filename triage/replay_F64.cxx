// F64: PLSPrior::compute_gradient is not the derivative of compute_value at border voxels, nor with a spatially varying kappa
#include "stir/recon_buildblock/PLSPrior.h"
#include "stir/VoxelsOnCartesianGrid.h"
#include "stir/IndexRange3D.h"
#include "stir/shared_ptr.h"
#include "stir/Succeeded.h"
#include <boost/random/mersenne_twister.hpp>
#include <boost/random/uniform_01.hpp>
#include <iostream>
#include <cmath>
using namespace stir;
typedef DiscretisedDensity<3, float> image_t;
static boost::mt19937 generator(boost::uint32_t(4321));
static boost::uniform_01<boost::mt19937> random01(generator);

static shared_ptr<image_t>
make_image(const IndexRange3D& range, const float offset = 0.1F)
{
  shared_ptr<image_t> im(new VoxelsOnCartesianGrid<float>(range, CartesianCoordinate3D<float>(0, 0, 0), CartesianCoordinate3D<float>(2.5F, 3.F, 2.F)));
  for (auto iter = im->begin_all(); iter != im->end_all(); ++iter)
    *iter = static_cast<float>(offset + random01());
  return im;
}

// returns max |gradient - numerical derivative| / max |numerical derivative| over all voxels, and over the interior
static void
mismatch(PLSPrior<float>& prior, const image_t& image, double& all, double& interior)
{
  shared_ptr<image_t> grad(image.get_empty_copy());
  grad->fill(123.F); // the gradient has to overwrite whatever is there
  prior.compute_gradient(*grad, image);
  shared_ptr<image_t> work(image.clone());
  const float h = 1e-2F;
  double maxnum = 0;
  all = interior = 0;
  for (int z = image.get_min_index(); z <= image.get_max_index(); ++z)
    for (int y = image[z].get_min_index(); y <= image[z].get_max_index(); ++y)
      for (int x = image[z][y].get_min_index(); x <= image[z][y].get_max_index(); ++x)
        {
          const float org = (*work)[z][y][x];
          (*work)[z][y][x] = org + h;
          const double hp = double((*work)[z][y][x]) - org;
          const double plus = prior.compute_value(*work);
          (*work)[z][y][x] = org - h;
          const double hm = org - double((*work)[z][y][x]);
          const double minus = prior.compute_value(*work);
          (*work)[z][y][x] = org;
          const double num = (plus - minus) / (hp + hm);
          maxnum = std::max(maxnum, std::fabs(num));
          const double d = std::fabs(num - (*grad)[z][y][x]);
          all = std::max(all, d);
          const bool border = z == image.get_min_index() || z == image.get_max_index() || y == image[z].get_min_index()
                              || y == image[z].get_max_index() || x == image[z][y].get_min_index() || x == image[z][y].get_max_index();
          if (!border)
            interior = std::max(interior, d);
        }
  all /= maxnum;
  interior /= maxnum;
}

int
main()
{
  int bad = 0;
  const IndexRange3D ranges[] = { IndexRange3D(0, 4, -3, 3, -3, 2), IndexRange3D(2, 5, 0, 5, 1, 6) };
  for (const auto& range : ranges)
    for (int only_2D = 0; only_2D <= 1; ++only_2D)
      for (int kappa_kind = 0; kappa_kind <= 2; ++kappa_kind)
        {
          shared_ptr<image_t> image = make_image(range);
          shared_ptr<image_t> anatomical = make_image(range);
          PLSPrior<float> prior(false, 1.3F);
          prior.set_only_2D(only_2D != 0);
          prior.set_anatomical_image_sptr(anatomical);
          if (kappa_kind == 1)
            {
              shared_ptr<image_t> kappa(image->get_empty_copy());
              kappa->fill(1.7F);
              prior.set_kappa_sptr(kappa);
            }
          else if (kappa_kind == 2)
            prior.set_kappa_sptr(make_image(range, 0.5F));
          prior.set_up(image);
          double all, interior;
          mismatch(prior, *image, all, interior);
          const bool ok = all < 5e-3;
          std::cout << (only_2D ? "2D" : "3D") << ", " << (kappa_kind == 0 ? "no kappa" : kappa_kind == 1 ? "uniform kappa" : "varying kappa")
                    << ", first indices " << range.get_min_index() << ": gradient vs numerical derivative of the value, relative max difference: all voxels "
                    << all << ", interior " << interior << (ok ? "" : "   <-- DEVIATION") << "\n";
          if (!ok)
            ++bad;
        }
  std::cout << (bad ? "DEVIATIONS " : "ok ") << bad << "\n";
  return bad;
}
