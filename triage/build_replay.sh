#!/bin/bash
# usage: build_replay.sh <replay.cxx> <output binary> [extra objects placed before the libraries]
# links a triage replay against the libraries in /repo/_build (same link line as src/recon_test/test_priors)
set -e
src=$1; out=$2; shift 2
B=/repo/_build
libs=$(awk '/^build src\/recon_test\/test_priors:/{f=1} f&&/LINK_LIBRARIES/{sub(/^ *LINK_LIBRARIES = /,"");print;exit}' $B/build.ninja)
cd $B
g++ -O1 -g -std=gnu++17 -I/repo/src/include -I$B/src/include -I/usr/include/hdf5/serial "$src" "$@" src/CMakeFiles/stir_registries.dir/*/*.o $libs -o "$out"
