// triage replay of candidate finding F6 (not a check)
#include "stir/OSMAPOSL/OSMAPOSLReconstruction.h"
#include "stir/DiscretisedDensity.h"
#include <iostream>
using namespace stir;
struct Probe : public OSMAPOSLReconstruction<DiscretisedDensity<3, float>>
{
  int probe(int subiter)
  {
    this->num_subsets = 4;
    this->randomise_subset_order = true;
    this->subiteration_num = subiter; // as after "start at subiteration number := <subiter>"
    return this->get_subset_num();
  }
};
int main(int argc, char** argv)
{
  Probe p;
  const int s = argc > 1 ? atoi(argv[1]) : 2;
  std::cout << "asking for the subset of sub-iteration " << s << " (4 subsets, randomised order)\n";
  const int r = p.probe(s);
  std::cout << "subset " << r << "\n";
  return (r >= 0 && r < 4) ? 0 : 1;
}
