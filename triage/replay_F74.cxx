// F74: ArrayFilter2D/3DUsingConvolution::is_trivial() looked at the outermost dimension of the kernel only:
// a 1x3 kernel {.25, 1, .25} (or 1x1x3, 1x3x1) was treated as the identity
#include "stir/ArrayFilter2DUsingConvolution.h"
#include "stir/ArrayFilter3DUsingConvolution.h"
#include "stir/Array.h"
#include "stir/IndexRange2D.h"
#include "stir/IndexRange3D.h"
#include <iostream>
#include <cmath>
using namespace stir;
int
main()
{
  int bad = 0;
  {
    Array<2, float> kernel(IndexRange2D(0, 0, -1, 1));
    kernel[0][-1] = .25F; kernel[0][0] = 1.F; kernel[0][1] = .25F;
    ArrayFilter2DUsingConvolution<float> filter(kernel);
    Array<2, float> in(IndexRange2D(0, 2, 0, 4)), out(IndexRange2D(0, 2, 0, 4));
    in.fill(0.F); in[1][2] = 4.F;
    filter(out, in);
    std::cout << "2D, kernel 1x3 {.25,1,.25}: is_trivial() " << filter.is_trivial() << ", impulse 4 at [1][2] gives row " << out[1][1] << " " << out[1][2] << " " << out[1][3] << " (1 4 1 expected)\n";
    if (filter.is_trivial() || std::fabs(out[1][1] - 1.F) > 1e-6 || std::fabs(out[1][3] - 1.F) > 1e-6)
      ++bad;
  }
  {
    Array<3, float> kernel(IndexRange3D(0, 0, -1, 1, 0, 0));
    kernel[0][-1][0] = .5F; kernel[0][0][0] = 1.F; kernel[0][1][0] = .5F;
    ArrayFilter3DUsingConvolution<float> filter(kernel);
    Array<3, float> in(IndexRange3D(0, 1, 0, 4, 0, 1)), out(IndexRange3D(0, 1, 0, 4, 0, 1));
    in.fill(0.F); in[0][2][1] = 2.F;
    filter(out, in);
    std::cout << "3D, kernel 1x3x1 {.5,1,.5}: is_trivial() " << filter.is_trivial() << ", impulse 2 at [0][2][1] gives column " << out[0][1][1] << " " << out[0][2][1] << " " << out[0][3][1] << " (1 2 1 expected)\n";
    if (filter.is_trivial() || std::fabs(out[0][1][1] - 1.F) > 1e-6 || std::fabs(out[0][3][1] - 1.F) > 1e-6)
      ++bad;
  }
  {
    // the genuine identity still is trivial
    Array<2, float> kernel(IndexRange2D(0, 0, 0, 0));
    kernel[0][0] = 1.F;
    ArrayFilter2DUsingConvolution<float> filter(kernel);
    std::cout << "2D, kernel 1x1 {1}: is_trivial() " << filter.is_trivial() << "\n";
    if (!filter.is_trivial())
      ++bad;
  }
  std::cout << (bad ? "DEVIATIONS " : "ok ") << bad << "\n";
  return bad;
}
