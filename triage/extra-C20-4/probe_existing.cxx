/*
  Probes of the UNMODIFIED STIR code against the component-based-normalisation property.
  Prints what it observes, exit code = number of deviations seen.
*/
#include "stir/ML_norm.h"
#include "stir/recon_buildblock/ML_estimate_component_based_normalisation.h"
#include "stir/Scanner.h"
#include "stir/ProjDataInfo.h"
#include "stir/ProjDataInMemory.h"
#include "stir/ExamInfo.h"
#include "stir/IndexRange2D.h"
#include "stir/Bin.h"
#include <random>
#include <iostream>
#include <cmath>
#include <algorithm>
#include <exception>

using namespace stir;
static std::mt19937 gen(4711);

static shared_ptr<ProjDataInfo>
make_pdi(const int num_rings, const int num_dets, const int ax_per_block, const int trans_per_block, const int num_tang)
{
  shared_ptr<Scanner> scanner(new Scanner(Scanner::User_defined_scanner,
                                          "probe_scanner",
                                          num_dets,
                                          num_rings,
                                          num_dets / 2,
                                          num_dets / 2,
                                          200.F,
                                          5.F,
                                          4.F,
                                          2.F,
                                          0.F,
                                          1,
                                          1,
                                          ax_per_block,
                                          trans_per_block,
                                          1,
                                          1,
                                          1));
  return ProjDataInfo::construct_proj_data_info(scanner, 1, num_rings - 1, num_dets / 2, num_tang, false);
}

template <class F>
static void
for_all_pairs(const FanProjData& f, F func)
{
  for (int ra = f.get_min_ra(); ra <= f.get_max_ra(); ++ra)
    for (int a = f.get_min_a(); a <= f.get_max_a(); ++a)
      for (int rb = std::max(ra, f.get_min_rb(ra)); rb <= f.get_max_rb(ra); ++rb)
        for (int b = f.get_min_b(a); b <= f.get_max_b(a); ++b)
          func(ra, a, rb, b);
}

//! A: even number of tangential positions: the bins at min_tangential_pos_num do not survive the round trip
static int
probe_even_tangential()
{
  std::cout << "\n== A: proj data -> fan data -> proj data with an EVEN number of tangential positions (16)\n";
  auto pdi = make_pdi(4, 32, 2, 4, 16);
  ProjDataInMemory org(std::make_shared<ExamInfo>(), pdi);
  {
    std::uniform_real_distribution<float> u(1.F, 9.F);
    for (auto iter = org.begin(); iter != org.end(); ++iter)
      *iter = u(gen);
  }
  FanProjData fan;
  make_fan_data_remove_gaps(fan, org);
  ProjDataInMemory back(org);
  back.fill(-1.F);
  set_fan_data_add_gaps(back, fan, 5.F);
  long wrong = 0, wrong_at_min_tang = 0, total = 0;
  float example_org = 0, example_back = 0;
  for (int seg = org.get_min_segment_num(); seg <= org.get_max_segment_num(); ++seg)
    for (int ax = org.get_min_axial_pos_num(seg); ax <= org.get_max_axial_pos_num(seg); ++ax)
      for (int v = org.get_min_view_num(); v <= org.get_max_view_num(); ++v)
        for (int t = org.get_min_tangential_pos_num(); t <= org.get_max_tangential_pos_num(); ++t)
          {
            Bin bin(seg, v, ax, t);
            const float o = org.get_bin_value(bin);
            const float b = back.get_bin_value(bin);
            ++total;
            if (o != b)
              {
                ++wrong;
                if (t == org.get_min_tangential_pos_num())
                  ++wrong_at_min_tang;
                example_org = o;
                example_back = b;
              }
          }
  std::cout << "   tangential range " << org.get_min_tangential_pos_num() << ".." << org.get_max_tangential_pos_num() << ", "
            << total << " bins, " << wrong << " differ after the round trip, of which " << wrong_at_min_tang
            << " at tangential_pos_num==min (e.g. original " << example_org << " came back as " << example_back
            << "; neither the data nor the requested gap value 5)\n";
  return wrong ? 1 : 0;
}

//! B: apply_geo_norm does not give an entry the factor of its own class, and geo factors are not a fixed point
static int
probe_geo()
{
  std::cout << "\n== B: 3D geo factors: apply_geo_norm versus make_geo_data/iterate_geo_norm\n";
  int deviations = 0;
  const int R = 4, N = 32, nac = 2, ntc = 4, fan_size = 15;
  GeoData3D g(nac, ntc / 2, R, N);
  std::uniform_real_distribution<float> u(0.5F, 1.5F);
  for (int ra = 0; ra < nac; ++ra)
    for (int a = 0; a < ntc / 2; ++a)
      for (int rb = ra; rb < R; ++rb)
        for (int b = g.get_min_b(a); b <= g.get_max_b(a); ++b)
          g(ra, a, rb, b % N) = u(gen);

  FanProjData ones(R, N, R - 1, fan_size);
  ones.fill(1.F);
  FanProjData applied = ones;
  apply_geo_norm(applied, g, true);
  {
    long n = 0, bad = 0;
    int ex[4] = { 0, 0, 0, 0 };
    for (int ra = 0; ra < nac; ++ra)
      for (int a = 0; a < ntc / 2; ++a)
        for (int rb = ra; rb <= applied.get_max_rb(ra); ++rb)
          for (int b = applied.get_min_b(a); b <= applied.get_max_b(a); ++b)
            {
              ++n;
              if (applied(ra, a, rb, b % N) != g(ra, a, rb, b % N))
                {
                  if (!bad)
                    {
                      ex[0] = ra, ex[1] = a, ex[2] = rb, ex[3] = b % N;
                    }
                  ++bad;
                }
            }
    std::cout << "   B1: fan of ones, apply_geo_norm(g): of the " << n
              << " entries that ARE the representatives of the geo classes (ra<" << nac << ", a<" << ntc / 2 << "), " << bad
              << " did not get g(ra,a,rb,b)";
    if (bad)
      std::cout << " (first: (" << ex[0] << "," << ex[1] << "," << ex[2] << "," << ex[3] << ") got "
                << applied(ex[0], ex[1], ex[2], ex[3]) << " instead of " << g(ex[0], ex[1], ex[2], ex[3]) << ")";
    std::cout << "\n";
    if (bad)
      ++deviations;
  }
  {
    // data generated exactly from a model with geo factors as apply_geo_norm applies them
    FanProjData model(R, N, R - 1, fan_size);
    std::uniform_real_distribution<float> um(20.F, 60.F);
    for_all_pairs(model, [&](int ra, int a, int rb, int b) {
      const float v = um(gen);
      model(ra, a, rb, b % N) = v;
      model(rb, b % N, ra, a) = v;
    });
    FanProjData data = model;
    apply_geo_norm(data, g, true);
    GeoData3D measured_geo(nac, ntc / 2, R, N), norm_geo(nac, ntc / 2, R, N);
    make_geo_data(measured_geo, data);
    iterate_geo_norm(norm_geo, measured_geo, model);
    FanProjData est = model;
    apply_geo_norm(est, norm_geo, true);
    double max_rel = 0;
    for_all_pairs(est, [&](int ra, int a, int rb, int b) {
      max_rel = std::max(max_rel, std::fabs(double(est(ra, a, rb, b % N)) / data(ra, a, rb, b % N) - 1.));
    });
    std::cout << "   B2: data = model*geo (via apply_geo_norm, random geo factors); one iterate_geo_norm from that data and model;\n"
                 "       model*new_geo differs from the data by up to "
              << max_rel * 100 << "% (should be ~0 if the geo factors were a fixed point)\n";
    if (max_rel > 1e-3)
      ++deviations;

    // same with the geo factors that came out of the ML step (so they have whatever symmetry make_geo_data imposes)
    FanProjData data2 = model;
    apply_geo_norm(data2, norm_geo, true);
    GeoData3D measured_geo2(nac, ntc / 2, R, N), norm_geo2(nac, ntc / 2, R, N);
    make_geo_data(measured_geo2, data2);
    iterate_geo_norm(norm_geo2, measured_geo2, model);
    FanProjData est2 = model;
    apply_geo_norm(est2, norm_geo2, true);
    double max_rel2 = 0;
    for_all_pairs(est2, [&](int ra, int a, int rb, int b) {
      max_rel2 = std::max(max_rel2, std::fabs(double(est2(ra, a, rb, b % N)) / data2(ra, a, rb, b % N) - 1.));
    });
    std::cout << "   B3: same, but with geo factors that are themselves the output of iterate_geo_norm: differs by up to "
              << max_rel2 * 100 << "%\n";
    if (max_rel2 > 1e-3)
      ++deviations;
  }
  return deviations;
}

//! C: do_KL=true
static int
probe_do_KL()
{
  std::cout << "\n== C: ML_estimate_component_based_normalisation with do_KL=true\n";
  auto pdi = make_pdi(4, 32, 2, 4, 15);
  ProjDataInMemory model(std::make_shared<ExamInfo>(), pdi);
  model.fill(30.F);
  ProjDataInMemory measured(model);
  for (auto iter = measured.begin(); iter != measured.end(); ++iter)
    {
      std::poisson_distribution<int> p(*iter);
      *iter = static_cast<float>(p(gen));
    }
  try
    {
      ML_estimate_component_based_normalisation("/tmp/wt/C20-4/SEED/extra/probe_out", measured, model, 2, 1, false, false, false,
                                                /*do_KL*/ true, false);
      std::cout << "   finished normally\n";
      return 0;
    }
  catch (std::exception& e)
    {
      std::cout << "   threw an exception of type std::exception: what() = \"" << e.what() << "\"\n";
      return 1;
    }
  catch (...)
    {
      std::cout << "   threw an unknown exception\n";
      return 1;
    }
}

//! D: block factors when a fan reaches into the detector's own block (even number of transaxial blocks)
static int
probe_block_same_block()
{
  std::cout << "\n== D: apply_block_norm with a fan that reaches the block of the detector itself (4 transaxial blocks)\n";
  const int R = 2, N = 16, fan_size = 15;
  FanProjData fan(R, N, R - 1, fan_size);
  fan.fill(1.F);
  BlockData3D blocks(1, 4, 0, 3);
  blocks.fill(2.F);
  apply_block_norm(fan, blocks, true);
  long n = 0, bad = 0;
  float ex = 0;
  for_all_pairs(fan, [&](int ra, int a, int rb, int b) {
    ++n;
    const float v = fan(ra, a, rb, b % N);
    if (v != 2.F)
      {
        ++bad;
        ex = v;
      }
  });
  std::cout << "   all block factors are 2, fan data all 1: after apply_block_norm " << bad << " of " << n
            << " entries are not 2 (e.g. " << ex << ")\n";
  return bad ? 1 : 0;
}

int
main()
{
  int deviations = 0;
  deviations += probe_even_tangential();
  deviations += probe_geo();
  deviations += probe_block_same_block();
  deviations += probe_do_KL();
  std::cout << "\nnumber of deviations: " << deviations << "\n";
  return deviations;
}
