// replay of candidate finding F18 (C11): elements newly exposed by growing a numeric array are zero - also for the rows of a
// multi-dimensional array that was shrunk and grown again (history: fill, shrink the outer dimension, regrow it)
#include "stir/Array.h"
#include "stir/IndexRange2D.h"
#include "stir/IndexRange3D.h"
#include <iostream>
using namespace stir;
int
main()
{
  int bad = 0;
  {
    Array<2, float> a(IndexRange2D(0, 2, 0, 2));
    a.fill(5.F);
    a.resize(IndexRange2D(0, 0, 0, 2)); // shrink to one row
    a.resize(IndexRange2D(0, 2, 0, 2)); // grow again: rows 1 and 2 are newly exposed
    std::cout << "2D resize/resize: a[1][1] = " << a[1][1] << ", a[2][0] = " << a[2][0] << " (expected 0), a[0][1] = " << a[0][1]
              << " (expected 5)\n";
    if (a[1][1] != 0 || a[2][0] != 0 || a[0][1] != 5)
      ++bad;
  }
  {
    Array<2, float> a(IndexRange2D(0, 2, 0, 2));
    a.fill(5.F);
    a.resize(IndexRange2D(0, 0, 0, 2));
    a.grow(IndexRange2D(0, 2, 0, 2));
    std::cout << "2D resize/grow  : a[1][1] = " << a[1][1] << " (expected 0)\n";
    if (a[1][1] != 0)
      ++bad;
  }
  {
    Array<3, float> a(IndexRange3D(0, 1, 0, 1, 0, 1));
    a.fill(7.F);
    a.resize(IndexRange3D(1, 1, 0, 1, 0, 1)); // drop plane 0
    a.resize(IndexRange3D(0, 1, 0, 1, 0, 1)); // re-expose it
    std::cout << "3D resize/resize: a[0][1][1] = " << a[0][1][1] << " (expected 0), a[1][1][1] = " << a[1][1][1] << " (expected 7)\n";
    if (a[0][1][1] != 0 || a[1][1][1] != 7)
      ++bad;
  }
  return bad ? 1 : 0;
}
