// Triage aid (NOT a registered check): concrete replay of candidate findings F1, F2, F3 of DESIGN.md section 1.
// Build: g++ -std=gnu++17 -O1 -g -DNDEBUG -fsanitize=address -I/repo/src/include -I/repo/_build/src/include -I/usr/include/hdf5/serial
//        replay_F1_F2_F3.cxx -o /tmp/replay/f1 <link line of src/test/test_VectorWithOffset from /repo/_build/build.ninja>
// Run:   f1 f1 | f1 f2 | f1 f3   (f2 writes /tmp/replay/f2data.{hs,s}; create /tmp/replay first and delete it afterwards)

#include "stir/VectorWithOffset.h"
#include "stir/ProjDataInMemory.h"
#include "stir/ProjDataInterfile.h"
#include "stir/ProjDataInfo.h"
#include "stir/ExamInfo.h"
#include "stir/Scanner.h"
#include "stir/Viewgram.h"
#include "stir/Bin.h"
#include <iostream>
#include <fstream>
using namespace stir;
int main(int argc, char** argv)
{
  const std::string which = argc > 1 ? argv[1] : "f1";
  if (which == "f1")
    {
      VectorWithOffset<int> a(0, 3), b(0, 5);
      a.fill(1); b.fill(2);
      try { a += b; std::cout << "F1: no error raised for ranges [0,3] += [0,5]\n"; }
      catch (...) { std::cout << "F1: error raised (guard ok)\n"; }
      return 0;
    }
  shared_ptr<Scanner> scanner_sptr(new Scanner(Scanner::E953));
  shared_ptr<ProjDataInfo> pdi(ProjDataInfo::ProjDataInfoCTI(scanner_sptr, 1, 2, 8, 16, false));
  shared_ptr<ExamInfo> ei(new ExamInfo);
  if (which == "f3")
    {
      ProjDataInMemory pd(ei, pdi);
      // fill each bin with a code identifying it
      for (int s = pd.get_min_segment_num(); s <= pd.get_max_segment_num(); ++s)
        for (int v = pd.get_min_view_num(); v <= pd.get_max_view_num(); ++v)
          {
            Viewgram<float> vg = pd.get_empty_viewgram(v, s);
            vg.fill(1000.f * s + v);
            pd.set_viewgram(vg);
          }
      Bin bin(0, pd.get_max_view_num() + 1, pd.get_min_axial_pos_num(0), 0);
      try
        {
          const float val = pd.get_bin_value(bin);
          std::cout << "F3: get_bin_value(view=max+1) returned " << val << " without error\n";
        }
      catch (...) { std::cout << "F3: error raised (guard ok)\n"; }
      Bin bin2(0, 0, pd.get_min_axial_pos_num(0), pd.get_max_tangential_pos_num() + 3);
      try
        {
          const float val = pd.get_bin_value(bin2);
          std::cout << "F3: get_bin_value(tang=max+3) returned " << val << " without error\n";
        }
      catch (...) { std::cout << "F3: error raised (guard ok)\n"; }
    }
  if (which == "f2")
    {
      ProjDataInterfile pd(ei, pdi, "/tmp/replay/f2data", std::ios::in | std::ios::out | std::ios::trunc);
      pd.fill(0.f);
      Bin bin(0, 1, pd.get_min_axial_pos_num(0), 0);
      bin.set_bin_value(42.f);
      pd.set_bin_value(bin);
      // independent reader of the raw file, writer still open
      std::ifstream in("/tmp/replay/f2data.s", std::ios::binary);
      in.seekg(0, std::ios::end);
      const auto len = in.tellg();
      std::vector<float> buf(len / sizeof(float));
      in.seekg(0);
      in.read(reinterpret_cast<char*>(buf.data()), len);
      bool found = false;
      for (float f : buf) if (f == 42.f) found = true;
      std::cout << "F2: after set_bin_value, independent reader " << (found ? "sees" : "does NOT see") << " the value (file length " << len << ")\n";
      Viewgram<float> vg = pd.get_empty_viewgram(2, 0);
      vg.fill(43.f);
      pd.set_viewgram(vg);
      std::ifstream in2("/tmp/replay/f2data.s", std::ios::binary);
      in2.seekg(0, std::ios::end);
      const auto len2 = in2.tellg();
      std::vector<float> buf2(len2 / sizeof(float));
      in2.seekg(0);
      in2.read(reinterpret_cast<char*>(buf2.data()), len2);
      found = false;
      for (float f : buf2) if (f == 43.f) found = true;
      std::cout << "F2: after set_viewgram, independent reader " << (found ? "sees" : "does NOT see") << " the value\n";
    }
  return 0;
}
