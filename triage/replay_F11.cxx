// replay of candidate finding F11 (C04): the on-the-fly ray-tracing forward projector, segment 0 (2D code path), image with two planes
// per axial position, tangential position 0, a view that is not a multiple of 45 degrees:
// forward projecting an axial SUB-range must give, inside that range, the same values as projecting the full range.
#include "stir/recon_buildblock/ForwardProjectorByBinUsingRayTracing.h"
#include "stir/ProjDataInfo.h"
#include "stir/Scanner.h"
#include "stir/VoxelsOnCartesianGrid.h"
#include "stir/RelatedViewgrams.h"
#include "stir/ExamInfo.h"
#include "stir/ProjDataInMemory.h"
#include <iostream>
#include <cmath>
using namespace stir;
int main()
{
  shared_ptr<Scanner> scanner(new Scanner(Scanner::E966));
  shared_ptr<ProjDataInfo> pdi(ProjDataInfo::ProjDataInfoCTI(scanner, /*span*/ 1, /*max_delta*/ 0, /*views*/ 288, /*tang*/ 32, /*arccorr*/ false));
  shared_ptr<VoxelsOnCartesianGrid<float>> image(new VoxelsOnCartesianGrid<float>(*pdi));
  // a non-uniform image
  for (int z = image->get_min_z(); z <= image->get_max_z(); ++z)
    for (int y = image->get_min_y(); y <= image->get_max_y(); ++y)
      for (int x = image->get_min_x(); x <= image->get_max_x(); ++x)
        (*image)[z][y][x] = (x * x + y * y < 100) ? 1.F + 0.3F * z + 0.01F * x : 0.F;
  ForwardProjectorByBinUsingRayTracing fp;
  fp.set_up(pdi, image);
  fp.set_input(*image);
  ProjDataInMemory pd(shared_ptr<ExamInfo>(new ExamInfo), pdi);
  shared_ptr<DataSymmetriesForViewSegmentNumbers> symm(fp.get_symmetries_used()->clone());
  int bad = 0, checked = 0;
  for (int view = 0; view <= 26; ++view)
    {
      ViewSegmentNumbers vs(view, 0);
      if (!symm->is_basic(vs))
        continue;
      RelatedViewgrams<float> full = pd.get_empty_related_viewgrams(vs, symm);
      fp.forward_project(full);
      const int a = full.get_min_axial_pos_num() + 3, b = full.get_max_axial_pos_num() - 4;
      RelatedViewgrams<float> sub = pd.get_empty_related_viewgrams(vs, symm);
      fp.forward_project(sub, a, b);
      RelatedViewgrams<float>::const_iterator fi = full.begin();
      for (RelatedViewgrams<float>::const_iterator si = sub.begin(); si != sub.end(); ++si, ++fi)
        for (int ax = a; ax <= b; ++ax)
          for (int t = si->get_min_tangential_pos_num(); t <= si->get_max_tangential_pos_num(); ++t)
            {
              ++checked;
              const float x = (*si)[ax][t], y = (*fi)[ax][t];
              if (std::fabs(x - y) > 1e-4F * std::max(1.F, std::fabs(y)))
                {
                  if (bad < 12)
                    std::cout << "view " << si->get_view_num() << " seg " << si->get_segment_num() << " ax " << ax << " (sub-range " << a << ".." << b << ") tang " << t
                              << ": sub-range projection " << x << " != full projection " << y << "\n";
                  ++bad;
                }
            }
    }
  std::cout << checked << " bins compared, " << bad << " differ\n";
  return bad ? 1 : 0;
}
