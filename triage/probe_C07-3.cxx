/*
  Probe for observations in the UNMODIFIED code (not related to the seeded change).

  (a) The quotient y/(A lambda) is capped at 10000 in divide_and_truncate()
      (buildblock/recon_array_functions.cxx), so for a start image that is much too low
      the first full-data EM update does NOT satisfy sum_v s_v lambda_v = sum_b y_b.

  (b) OSMAPOSLReconstruction::set_up() (enforce_initial_positivity, default on) lifts exact
      zeros of the start image to min_positive*1e-6. In an uninterrupted run a voxel that
      becomes exactly 0 in one subset (all its bins in that subset have 0 counts) stays 0
      forever; in a run resumed from the saved image it is lifted to a tiny positive value
      and updated by the other subsets, so the resumed images are not identical.

  Always exits 0; just prints what it sees.
*/
#include "stir/OSMAPOSL/OSMAPOSLReconstruction.h"
#include "stir/recon_buildblock/PoissonLogLikelihoodWithLinearModelForMeanAndProjData.h"
#include "stir/recon_buildblock/ProjMatrixByBinUsingRayTracing.h"
#include "stir/recon_buildblock/ProjectorByBinPairUsingProjMatrixByBin.h"
#include "stir/recon_buildblock/ForwardProjectorByBinUsingProjMatrixByBin.h"
#include "stir/ProjDataInMemory.h"
#include "stir/ProjDataInfo.h"
#include "stir/Scanner.h"
#include "stir/ExamInfo.h"
#include "stir/VoxelsOnCartesianGrid.h"
#include "stir/Viewgram.h"
#include "stir/Verbosity.h"
#include "stir/stream.h"
#include "stir/error.h"
#include "stir/IO/read_from_file.h"
#include <algorithm>
#include "stir/Succeeded.h"
#include "stir/shared_ptr.h"
#include <iostream>
#include <cstdlib>
#include <cmath>

using namespace stir;
typedef DiscretisedDensity<3, float> target_type;

static shared_ptr<OSMAPOSLReconstruction<target_type>>
make_recon(const shared_ptr<ProjDataInMemory>& proj_data_sptr, int num_subsets, int num_subiterations, int start_subiteration_num)
{
  shared_ptr<PoissonLogLikelihoodWithLinearModelForMeanAndProjData<target_type>> obj_sptr(
      new PoissonLogLikelihoodWithLinearModelForMeanAndProjData<target_type>);
  shared_ptr<ProjMatrixByBin> PM_sptr(new ProjMatrixByBinUsingRayTracing);
  shared_ptr<ProjectorByBinPair> pair_sptr(new ProjectorByBinPairUsingProjMatrixByBin(PM_sptr));
  obj_sptr->set_proj_data_sptr(proj_data_sptr);
  obj_sptr->set_projector_pair_sptr(pair_sptr);
  obj_sptr->set_use_subset_sensitivities(true);
  shared_ptr<OSMAPOSLReconstruction<target_type>> recon_sptr(new OSMAPOSLReconstruction<target_type>);
  recon_sptr->set_objective_function_sptr(obj_sptr);
  recon_sptr->set_input_data(proj_data_sptr);
  recon_sptr->set_num_subsets(num_subsets);
  recon_sptr->set_num_subiterations(num_subiterations);
  recon_sptr->set_start_subiteration_num(start_subiteration_num);
  recon_sptr->set_disable_output(true);
  recon_sptr->set_output_filename_prefix("probe");
  return recon_sptr;
}

static double
total(const ProjData& p)
{
  double t = 0;
  for (int seg = p.get_min_segment_num(); seg <= p.get_max_segment_num(); ++seg)
    {
      const SegmentByView<float> s = p.get_segment_by_view(seg);
      for (SegmentByView<float>::const_full_iterator it = s.begin_all_const(); it != s.end_all_const(); ++it)
        t += *it;
    }
  return t;
}

int
main()
{
  Verbosity::set(0);
#ifdef DEMO_STIR_CONFIG_DIR
  // needed by ExamInfo/Radionuclide (ctest sets this in the environment)
  setenv("STIR_CONFIG_DIR", DEMO_STIR_CONFIG_DIR, /*overwrite=*/0);
#endif
  shared_ptr<Scanner> scanner_sptr(new Scanner(Scanner::E953));
  scanner_sptr->set_num_rings(2);
  shared_ptr<ProjDataInfo> pdi_sptr(ProjDataInfo::ProjDataInfoCTI(scanner_sptr, 1, 0, 24, 24));
  shared_ptr<ExamInfo> exam_info_sptr(new ExamInfo);
  exam_info_sptr->imaging_modality = ImagingModality::PT;
  shared_ptr<ProjDataInMemory> proj_data_sptr(new ProjDataInMemory(exam_info_sptr, pdi_sptr));

  shared_ptr<VoxelsOnCartesianGrid<float>> true_sptr(
      new VoxelsOnCartesianGrid<float>(exam_info_sptr, *pdi_sptr, 0.93F, CartesianCoordinate3D<float>(0, 0, 0), CartesianCoordinate3D<int>(-1, 21, 21)));
  true_sptr->fill(1.F);
  {
    shared_ptr<ProjMatrixByBin> PM_sptr(new ProjMatrixByBinUsingRayTracing);
    ForwardProjectorByBinUsingProjMatrixByBin fwd(PM_sptr);
    fwd.set_up(pdi_sptr, true_sptr);
    fwd.set_input(*true_sptr);
    fwd.forward_project(*proj_data_sptr);
  }

  // ---------------- (a) quotient cap
  for (const float start_value : { 1.F, 1.e-3F, 1.e-5F })
    {
      shared_ptr<target_type> image_sptr(true_sptr->get_empty_copy());
      image_sptr->fill(start_value);
      shared_ptr<OSMAPOSLReconstruction<target_type>> recon_sptr = make_recon(proj_data_sptr, 1, 1, 1);
      if (recon_sptr->set_up(image_sptr) != Succeeded::yes || recon_sptr->reconstruct(image_sptr) != Succeeded::yes)
        return 2;
      const target_type& sens
          = dynamic_cast<PoissonLogLikelihoodWithLinearModelForMeanAndProjData<target_type>&>(*recon_sptr->get_objective_function_sptr())
                .get_sensitivity();
      double weighted = 0;
      target_type::const_full_iterator is = sens.begin_all_const();
      for (target_type::const_full_iterator it = image_sptr->begin_all_const(); it != image_sptr->end_all_const(); ++it, ++is)
        weighted += double(*it) * double(*is);
      std::cout << "(a) start image " << start_value << ": after 1 full-data EM update  sum(s*lambda) = " << weighted
                << "   sum(y) = " << total(*proj_data_sptr) << "   ratio " << weighted / total(*proj_data_sptr) << "\n";
    }

  // ---------------- (b) zeros are lifted when resuming
  {
    // zero the counts in a central strip of the even views (= subset 0 of 2)
    for (int view = 0; view < pdi_sptr->get_num_views(); view += 2)
      {
        Viewgram<float> v = proj_data_sptr->get_viewgram(view, 0);
        for (int ax = v.get_min_axial_pos_num(); ax <= v.get_max_axial_pos_num(); ++ax)
          for (int t = -3; t <= 3; ++t)
            v[ax][t] = 0.F;
        proj_data_sptr->set_viewgram(v);
      }
    const int K = 2; // (after the next subset-0 update the voxels are zeroed again in both runs)
    shared_ptr<target_type> after1_sptr(true_sptr->get_empty_copy());
    after1_sptr->fill(1.F);
    {
      shared_ptr<OSMAPOSLReconstruction<target_type>> r = make_recon(proj_data_sptr, 2, 1, 1);
      if (r->set_up(after1_sptr) != Succeeded::yes || r->reconstruct(after1_sptr) != Succeeded::yes)
        return 2;
    }
    shared_ptr<target_type> full_sptr(true_sptr->get_empty_copy());
    full_sptr->fill(1.F);
    shared_ptr<OSMAPOSLReconstruction<target_type>> rfull = make_recon(proj_data_sptr, 2, K, 1);
    if (rfull->set_up(full_sptr) != Succeeded::yes || rfull->reconstruct(full_sptr) != Succeeded::yes)
      return 2;
    shared_ptr<target_type> resumed_sptr(after1_sptr->clone());
    shared_ptr<OSMAPOSLReconstruction<target_type>> rres = make_recon(proj_data_sptr, 2, K, 2);
    if (rres->set_up(resumed_sptr) != Succeeded::yes || rres->reconstruct(resumed_sptr) != Succeeded::yes)
      return 2;

    const target_type& sens
        = dynamic_cast<PoissonLogLikelihoodWithLinearModelForMeanAndProjData<target_type>&>(*rfull->get_objective_function_sptr())
              .get_sensitivity();
    int num_zero_after1 = 0, num_differ = 0;
    double max_resumed_where_zero = 0;
    target_type::const_full_iterator i1 = after1_sptr->begin_all_const();
    target_type::const_full_iterator ifull = full_sptr->begin_all_const();
    target_type::const_full_iterator ires = resumed_sptr->begin_all_const();
    target_type::const_full_iterator is = sens.begin_all_const();
    for (; ifull != full_sptr->end_all_const(); ++i1, ++ifull, ++ires, ++is)
      {
        if (*is > 0 && *i1 == 0)
          ++num_zero_after1;
        if (*is > 0 && *ifull == 0 && *ires > 0)
          {
            ++num_differ;
            max_resumed_where_zero = std::max(max_resumed_where_zero, double(*ires));
          }
      }
    std::cout << "(b) voxels (inside the FOV) that are exactly 0 after sub-iteration 1: " << num_zero_after1 << "\n"
              << "    voxels that are 0 after " << K << " sub-iterations uninterrupted but > 0 when resumed at sub-iteration 2: "
              << num_differ << " (largest resumed value " << max_resumed_where_zero << ")\n";
  }
  // ---------------- (c) is a saved image bit-identical to the image in memory?
  {
    shared_ptr<target_type> image_sptr(true_sptr->get_empty_copy());
    image_sptr->fill(1.F);
    shared_ptr<OSMAPOSLReconstruction<target_type>> r = make_recon(proj_data_sptr, 2, 3, 1);
    r->set_disable_output(false);
    r->set_save_interval(3);
    r->set_output_filename_prefix("probe_saved");
    if (r->set_up(image_sptr) != Succeeded::yes || r->reconstruct(image_sptr) != Succeeded::yes)
      return 2;
    shared_ptr<target_type> read_sptr(read_from_file<target_type>("probe_saved_3.hv"));
    double max_diff = 0, max_val = 0;
    target_type::const_full_iterator ia = image_sptr->begin_all_const();
    target_type::const_full_iterator ib = read_sptr->begin_all_const();
    for (; ia != image_sptr->end_all_const(); ++ia, ++ib)
      {
        max_diff = std::max(max_diff, double(std::fabs(*ia - *ib)));
        max_val = std::max(max_val, double(*ia));
      }
    std::cout << "(c) saved image vs image in memory: max abs diff " << max_diff << " (image max " << max_val << ")\n";
    const VoxelsOnCartesianGrid<float>& vm = dynamic_cast<const VoxelsOnCartesianGrid<float>&>(*image_sptr);
    const VoxelsOnCartesianGrid<float>& vf = dynamic_cast<const VoxelsOnCartesianGrid<float>&>(*read_sptr);
    std::cout.precision(9);
    std::cout << "    geometry in memory: voxel size " << vm.get_voxel_size() << " origin " << vm.get_origin() << "\n"
              << "    geometry read back from the Interfile header (6 significant digits): voxel size " << vf.get_voxel_size()
              << " origin " << vf.get_origin() << "\n";
  }
  // ---------------- (d) resume from the in-memory image vs from the saved file
  {
    auto run = [&](shared_ptr<target_type> img, int K, int start, bool save) {
      shared_ptr<OSMAPOSLReconstruction<target_type>> r = make_recon(proj_data_sptr, 2, K, start);
      if (save)
        {
          r->set_disable_output(false);
          r->set_save_interval(K);
          r->set_output_filename_prefix("probe_d");
        }
      if (r->set_up(img) != Succeeded::yes || r->reconstruct(img) != Succeeded::yes)
        error("recon failed");
    };
    auto maxdiff = [](const target_type& a, const target_type& b) {
      double d = 0;
      target_type::const_full_iterator ia = a.begin_all_const(), ib = b.begin_all_const();
      for (; ia != a.end_all_const(); ++ia, ++ib)
        d = std::max(d, double(std::fabs(*ia - *ib)));
      return d;
    };
    shared_ptr<target_type> full_sptr(true_sptr->get_empty_copy());
    full_sptr->fill(1.F);
    run(full_sptr, 4, 1, false);
    shared_ptr<target_type> after2_sptr(true_sptr->get_empty_copy());
    after2_sptr->fill(1.F);
    run(after2_sptr, 2, 1, true);
    shared_ptr<target_type> from_mem_sptr(after2_sptr->clone());
    run(from_mem_sptr, 4, 3, false);
    shared_ptr<target_type> from_file_sptr(read_from_file<target_type>("probe_d_2.hv"));
    std::cout << "(d) image read from file vs in memory before resuming: max abs diff " << maxdiff(*after2_sptr, *from_file_sptr)
              << "\n";
    run(from_file_sptr, 4, 3, false);
    std::cout << "    after sub-iteration 4: uninterrupted vs resumed-from-memory max abs diff " << maxdiff(*full_sptr, *from_mem_sptr)
              << ", uninterrupted vs resumed-from-file " << maxdiff(*full_sptr, *from_file_sptr) << " (image max "
              << full_sptr->find_max() << ")\n";
  }
  return 0;
}
