// F85: `total number of data sets := -1` in a Multi header went unchecked into vector::resize: std::length_error escaped
#include "stir/MultipleDataSetHeader.h"
#include <iostream>
#include <sstream>
#include <stdexcept>
using namespace stir;
int
main()
{
  MultipleDataSetHeader header;
  std::istringstream in("Multi :=\ntotal number of data sets := -1\nEnd :=\n");
  int bad = 0;
  try
    {
      const bool ok = header.parse(in);
      std::cout << "parse returned " << ok << "\n";
      ++bad;
    }
  catch (std::length_error& e)
    {
      std::cout << "std::length_error escaped: " << e.what() << "\n";
      ++bad;
    }
  catch (std::exception& e)
    {
      std::cout << "rejected through error(): " << e.what() << "\n";
    }
  std::cout << (bad ? "DEVIATIONS " : "ok ") << bad << "\n";
  return bad;
}
