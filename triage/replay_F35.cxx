// replay of candidate finding F35 (C02): projection data stored as scaled integers: writing the data with its
// header and reading the pair back must give equal values (the scale factor goes through the header text)
#include "stir/ProjDataFromStream.h"
#include "stir/ProjDataInfo.h"
#include "stir/ProjData.h"
#include "stir/Scanner.h"
#include "stir/ExamInfo.h"
#include "stir/Viewgram.h"
#include "stir/IO/interfile.h"
#include <fstream>
#include <iostream>
#include <cmath>
using namespace stir;
int main()
{
  shared_ptr<Scanner> scanner(new Scanner(Scanner::E953));
  shared_ptr<ProjDataInfo> pdi(ProjDataInfo::ProjDataInfoCTI(scanner, 1, 2, 8, 16, false));
  int bad = 0;
  const float scale = 123.456789F; // 9 significant digits needed
  {
    shared_ptr<ExamInfo> ei(new ExamInfo);
    ei->imaging_modality = ImagingModality::PT;
    shared_ptr<std::iostream> s(new std::fstream("replay_F35.s", std::ios::in | std::ios::out | std::ios::trunc | std::ios::binary));
    ProjDataFromStream pd(ei, pdi, s, std::streamoff(0), ProjDataFromStream::Segment_View_AxialPos_TangPos, NumericType::INT,
                          ByteOrder::native, scale);
    for (int seg = pd.get_min_segment_num(); seg <= pd.get_max_segment_num(); ++seg)
      for (int v = pd.get_min_view_num(); v <= pd.get_max_view_num(); ++v)
        {
          Viewgram<float> vg = pd.get_empty_viewgram(v, seg);
          vg.fill(scale * 2000000.F); // stored number 2000000
          pd.set_viewgram(vg);
        }
    write_basic_interfile_PDFS_header("replay_F35.hs", "replay_F35.s", pd);
    const float written = pd.get_viewgram(3, 0)[2][1];
    shared_ptr<ProjData> back = ProjData::read_from_file("replay_F35.hs");
    const float read = back->get_viewgram(3, 0)[2][1];
    std::cout.precision(10);
    std::cout << "value in the writer " << written << ", value read back through the header " << read << " (difference "
              << read - written << " = " << (read - written) / scale << " steps of the stored integer)\n";
    if (read != written)
      ++bad;
  }
  return bad;
}
