// probe_existing.cxx : explores SSRB on the UNMODIFIED library.
// Prints what it observes, exit code = number of deviations seen.
#include "ssrb_check.h"
#include <vector>
#include <sstream>

using namespace stir;
using namespace ssrbcheck;

static int deviations = 0;
static long cases_run = 0;
static double counts_checked = 0;

struct InGeom
{
  std::string name;
  shared_ptr<ProjDataInfo> pdi;
};

static void
run_all(const std::string& scanner_name, const shared_ptr<Scanner>& scanner, const std::vector<InGeom>& geoms, const bool tof)
{
  for (const auto& g : geoms)
    {
      const int in_views = g.pdi->get_num_views();
      const int in_max_seg = g.pdi->get_max_segment_num();
      for (int nseg : { 1, 3, 5 })
        for (int nviews = 1; nviews <= in_views; ++nviews)
          {
            if (in_views % nviews)
              continue;
            for (int trim : { 0, 1, 3 })
              for (int maxseg = -1; maxseg <= in_max_seg; ++maxseg)
                for (int tofc : { 1, 3, 5 })
                  {
                    if (!tof && tofc != 1)
                      continue;
                    // legality: output segments must exist
                    const int m = maxseg < 0 ? in_max_seg : maxseg;
                    if (m - nseg / 2 < 0)
                      continue;
                    if (tof)
                      {
                        const int T = scanner->get_max_num_timing_poss();
                        const int newmash = g.pdi->get_tof_mash_factor() * tofc;
                        if (newmash > T || (T / newmash) % 2 == 0 || T % newmash != 0)
                          continue;
                      }
                    std::ostringstream cfg;
                    cfg << scanner_name << " | in=" << g.name << " | nseg " << nseg << " nviews " << nviews << " trim " << trim
                        << " maxseg " << maxseg << " tofc " << tofc;
                    shared_ptr<ProjDataInfo> out_pdi;
                    try
                      {
                        out_pdi.reset(SSRB(*g.pdi, nseg, nviews, trim, maxseg, tofc));
                      }
                    catch (std::exception& e)
                      {
                        std::cout << "REFUSED " << cfg.str() << " : " << e.what() << "\n";
                        continue;
                      }
                    const Result r = check(g.pdi, out_pdi, 0, 42);
                    ++cases_run;
                    counts_checked += r.total_expected;
                    const bool nothing_trimmed = trim == 0 && (maxseg < 0 || maxseg == in_max_seg)
                                                 && (in_max_seg - nseg / 2) % nseg == 0;
                    bool bad = r.threw || r.num_wrong_bins > 0 || std::fabs(r.total_out - r.total_expected) > 1e-3;
                    if (nothing_trimmed && !tof && std::fabs(r.total_out - r.total_in) > 1e-3)
                      bad = true;
                    if (bad)
                      {
                        ++deviations;
                        std::cout << "DEVIATION " << cfg.str() << "\n   in : " << describe(*g.pdi)
                                  << "\n   out: " << describe(*out_pdi) << "\n   wrong bins " << r.num_wrong_bins << " in "
                                  << r.total_in << " expected " << r.total_expected << " out " << r.total_out
                                  << (r.threw ? " THREW " : " ") << r.first_msg << "\n";
                      }
                  }
          }
    }
}

int
main(int argc, char** argv)
{
  Verbosity::set(0);

  if (argc > 1 && std::string(argv[1]) == "oob")
    {
      // Extra probe E (separate because it reads outside an array in the library):
      // num_segments_to_combine larger than the number of input segments
      shared_ptr<Scanner> sc = make_scanner(16, 6, 4.F, 9);
      shared_ptr<ProjDataInfo> in(ProjDataInfo::ProjDataInfoCTI(sc, 1, 1, 8, 9, false)); // segments -1..1
      std::cout << "[E] input " << describe(*in) << ", SSRB with num_segments_to_combine=5\n";
      try
        {
          shared_ptr<ProjDataInfo> out(SSRB(*in, 5, 1, 0, -1, 1));
          std::cout << "  accepted; output " << describe(*out) << "\n";
          return 1;
        }
      catch (std::exception& e)
        {
          std::cout << "  refused: " << e.what() << "\n";
          return 0;
        }
    }


  {
    // non-TOF, 16 detectors per ring, 6 rings
    shared_ptr<Scanner> sc = make_scanner(16, 6, 3.27F, 9);
    std::vector<InGeom> geoms;
    geoms.push_back({ "span1 full", shared_ptr<ProjDataInfo>(ProjDataInfo::ProjDataInfoCTI(sc, 1, 5, 8, 9, false)) });
    geoms.push_back({ "span1 maxdelta4 tang8", shared_ptr<ProjDataInfo>(ProjDataInfo::ProjDataInfoCTI(sc, 1, 4, 8, 8, false)) });
    geoms.push_back({ "span3 maxdelta4 views4", shared_ptr<ProjDataInfo>(ProjDataInfo::ProjDataInfoCTI(sc, 3, 4, 4, 7, false)) });
    geoms.push_back({ "span3 maxdelta5 (short last seg)", shared_ptr<ProjDataInfo>(ProjDataInfo::ProjDataInfoCTI(sc, 3, 5, 8, 9, false)) });
    geoms.push_back({ "span2 maxdelta5 (even span)", shared_ptr<ProjDataInfo>(ProjDataInfo::ProjDataInfoCTI(sc, 2, 5, 8, 9, false)) });
    geoms.push_back({ "GE mixed maxdelta5", shared_ptr<ProjDataInfo>(ProjDataInfo::ProjDataInfoGE(sc, 5, 8, 9, false)) });
    run_all("D16 N6", sc, geoms, false);
  }
  {
    // non-TOF, 12 detectors per ring, 9 rings (odd)
    shared_ptr<Scanner> sc = make_scanner(12, 9, 4.F, 7);
    std::vector<InGeom> geoms;
    geoms.push_back({ "span1 full", shared_ptr<ProjDataInfo>(ProjDataInfo::ProjDataInfoCTI(sc, 1, 8, 6, 7, false)) });
    geoms.push_back({ "span5 maxdelta7", shared_ptr<ProjDataInfo>(ProjDataInfo::ProjDataInfoCTI(sc, 5, 7, 6, 6, false)) });
    geoms.push_back({ "GE mixed maxdelta8", shared_ptr<ProjDataInfo>(ProjDataInfo::ProjDataInfoGE(sc, 8, 6, 7, false)) });
    run_all("D12 N9", sc, geoms, false);
  }
  {
    // TOF, 12 detectors per ring, 4 rings, 15 TOF bins
    shared_ptr<Scanner> sc = make_scanner(12, 4, 3.27F, 7, 15, 100.F);
    std::vector<InGeom> geoms;
    geoms.push_back({ "span1 full tofmash1", shared_ptr<ProjDataInfo>(ProjDataInfo::ProjDataInfoCTI(sc, 1, 3, 6, 7, false, 1)) });
    geoms.push_back({ "span1 full tofmash3 views3", shared_ptr<ProjDataInfo>(ProjDataInfo::ProjDataInfoCTI(sc, 1, 3, 3, 6, false, 3)) });
    geoms.push_back({ "span3 maxdelta1 tofmash1", shared_ptr<ProjDataInfo>(ProjDataInfo::ProjDataInfoCTI(sc, 3, 1, 6, 7, false, 1)) });
    run_all("D12 N4 T15", sc, geoms, true);
  }


  // ---------------------------------------------------------------------------------------------
  // Extra probe A: axial positions (mm) that a geometry reports for the bin of a ring pair
  {
    std::cout << "\n[A] get_m() of the bin assigned to a ring pair versus the ring-pair's own mid-point\n";
    auto check_m = [&](const std::string& name, const shared_ptr<Scanner>& sc, const ProjDataInfo& pdi_any) {
      const ProjDataInfoCylindricalNoArcCorr& pdi = dynamic_cast<const ProjDataInfoCylindricalNoArcCorr&>(pdi_any);
      const int N = sc->get_num_rings();
      int bad = 0, outside = 0;
      std::string first;
      for (int r1 = 0; r1 < N; ++r1)
        for (int r2 = 0; r2 < N; ++r2)
          {
            Bin b;
            if (pdi.get_bin_for_det_pos_pair(b, DetectionPositionPair<>(DetectionPosition<>(0, r1, 0), DetectionPosition<>(sc->get_num_detectors_per_ring() / 2, r2, 0), 0)) == Succeeded::no)
              continue;
            if (!in_range(pdi, b))
              {
                ++outside;
                continue;
              }
            const float want = (r1 + r2 - (N - 1)) / 2.F * sc->get_ring_spacing();
            if (std::fabs(pdi.get_m(b) - want) > 1e-3)
              {
                if (!bad)
                  first = "rings (" + std::to_string(r1) + "," + std::to_string(r2) + ") -> seg " + std::to_string(b.segment_num())
                          + " ax " + std::to_string(b.axial_pos_num()) + ": get_m " + std::to_string(pdi.get_m(b)) + " mm, mid-point "
                          + std::to_string(want) + " mm";
                ++bad;
              }
          }
      // also: axial positions of the geometry that no ring pair can reach
      int phantom = 0;
      for (int seg = pdi.get_min_segment_num(); seg <= pdi.get_max_segment_num(); ++seg)
        for (int ax = pdi.get_min_axial_pos_num(seg); ax <= pdi.get_max_axial_pos_num(seg); ++ax)
          if (pdi.get_num_ring_pairs_for_segment_axial_pos_num(seg, ax) == 0)
            ++phantom;
      std::cout << "  " << name << ": " << describe(pdi) << "\n     ring pairs with wrong get_m: " << bad
                << ", ring pairs sent outside the axial range: " << outside << ", axial positions without any ring pair: " << phantom
                << (bad ? "\n     e.g. " + first : "") << "\n";
      if (bad || phantom)
        ++deviations;
    };
    shared_ptr<Scanner> sc = make_scanner(16, 8, 4.F, 9);
    {
      shared_ptr<ProjDataInfo> p(ProjDataInfo::ProjDataInfoCTI(sc, 3, 7, 8, 9, false));
      check_m("CTI span3 maxdelta7 (all segments span 3)", sc, *p);
    }
    {
      shared_ptr<ProjDataInfo> p(ProjDataInfo::ProjDataInfoCTI(sc, 3, 5, 8, 9, false));
      check_m("CTI span3 maxdelta5 (last segment is the single ring difference 5)", sc, *p);
      // and what SSRB makes of it
      shared_ptr<ProjDataInfo> o(SSRB(*p, 1, 2, 0, -1, 1));
      check_m("  SSRB(views/2) of the above", sc, *o);
    }
    {
      shared_ptr<ProjDataInfo> p(ProjDataInfo::ProjDataInfoCTI(sc, 2, 6, 8, 9, false));
      check_m("CTI span2 maxdelta6 (last segment is the single ring difference 6)", sc, *p);
    }
    {
      shared_ptr<ProjDataInfo> p(ProjDataInfo::ProjDataInfoCTI(sc, 2, 5, 8, 9, false));
      check_m("CTI span2 maxdelta5", sc, *p);
    }
  }

  // ---------------------------------------------------------------------------------------------
  // Extra probe B: long scanners (float tolerance of 1E-4 mm in the matching of axial positions)
  {
    std::cout << "\n[B] long scanners, span 1 -> 3 (random events)\n";
    for (int N : { 200, 400, 700 })
      for (float rs : { 3.27F, 2.85F })
        {
          shared_ptr<Scanner> sc = make_scanner(8, N, rs, 3);
          shared_ptr<ProjDataInfo> in(ProjDataInfo::ProjDataInfoCTI(sc, 1, 7, 4, 3, false));
          shared_ptr<ProjDataInfo> out(SSRB(*in, 3, 1, 0, -1, 1));
          const Result r = check(in, out, 300000, 7);
          std::cout << "  N " << N << " ring spacing " << rs << " (axial length " << N * rs << " mm): wrong bins " << r.num_wrong_bins
                    << " in " << r.total_in << " expected " << r.total_expected << " out " << r.total_out << " " << r.first_msg
                    << "\n";
          if (r.num_wrong_bins)
            ++deviations;
        }
  }

  // ---------------------------------------------------------------------------------------------
  // Extra probe C: TOF mashing factors that ProjDataInfo accepts but that do not nest
  {
    std::cout << "\n[C] TOF combining factors accepted by SSRB/ProjDataInfo that are even or do not divide the number of TOF bins\n";
    struct C
    {
      int T;
      int tofc;
    };
    for (C c : { C{ 13, 4 }, C{ 27, 5 }, C{ 15, 2 }, C{ 9, 2 }, C{ 15, 5 }, C{ 27, 9 } })
      {
        shared_ptr<Scanner> sc = make_scanner(8, 3, 4.F, 3, c.T, 100.F);
        shared_ptr<ProjDataInfo> in(ProjDataInfo::ProjDataInfoCTI(sc, 1, 2, 4, 3, false, 1));
        shared_ptr<ProjDataInfo> out;
        try
          {
            out.reset(SSRB(*in, 1, 1, 0, -1, c.tofc));
          }
        catch (std::exception& e)
          {
            std::cout << "  T " << c.T << " combine " << c.tofc << ": refused\n";
            continue;
          }
        const Result r = check(in, out, 0, 3, true);
        std::cout << "  T " << c.T << " combine " << c.tofc << " -> " << out->get_num_tof_poss() << " TOF bins: wrong bins "
                  << r.num_wrong_bins << " in " << r.total_in << " expected " << r.total_expected << " out " << r.total_out << " "
                  << r.first_msg << "\n";
        if (r.num_wrong_bins)
          ++deviations;
      }
  }

  // ---------------------------------------------------------------------------------------------
  // Extra probe D: azimuthal angle of the combined views
  {
    std::cout << "\n[D] azimuthal angle of combined views versus the mean of the angles of the views that were combined\n";
    shared_ptr<Scanner> sc = make_scanner(24, 3, 4.F, 9);
    for (int in_views : { 12, 6 })
      for (int nviews : { 2, 3 })
        {
          shared_ptr<ProjDataInfo> in(ProjDataInfo::ProjDataInfoCTI(sc, 1, 2, in_views, 9, false));
          shared_ptr<ProjDataInfo> out(SSRB(*in, 1, nviews, 0, -1, 1));
          double maxdiff = 0;
          for (int v = 0; v < out->get_num_views(); ++v)
            {
              double mean = 0;
              for (int k = 0; k < nviews; ++k)
                mean += in->get_phi(Bin(0, v * nviews + k, 0, 0));
              mean /= nviews;
              maxdiff = std::max(maxdiff, std::fabs(mean - out->get_phi(Bin(0, v, 0, 0))));
            }
          std::cout << "  in views " << in_views << " combine " << nviews << ": max |phi_out - mean phi_in| = " << maxdiff << " rad\n";
          if (maxdiff > 1e-4)
            ++deviations;
        }
  }

  std::cout << "\nconfigurations checked: " << cases_run << ", counts compared: " << counts_checked << "\n";
  std::cout << "number of deviations: " << deviations << "\n";
  return deviations > 255 ? 255 : deviations;
}
