// Shared helper for demo.cxx and probe_existing.cxx
// Checks: histogram(det pairs -> fine geometry) then SSRB  ==  histogram(det pairs -> SSRB output geometry)
#ifndef SSRB_CHECK_H
#define SSRB_CHECK_H
#include "stir/Scanner.h"
#include "stir/ProjDataInfo.h"
#include "stir/ProjDataInfoCylindricalNoArcCorr.h"
#include "stir/ProjDataInMemory.h"
#include "stir/ExamInfo.h"
#include "stir/SSRB.h"
#include "stir/Bin.h"
#include "stir/Sinogram.h"
#include "stir/DetectionPositionPair.h"
#include "stir/Succeeded.h"
#include "stir/Verbosity.h"
#include "stir/shared_ptr.h"
#include <map>
#include <vector>
#include <functional>
#include <tuple>
#include <random>
#include <iostream>
#include <string>
#include <cmath>

namespace ssrbcheck
{
using namespace stir;

inline shared_ptr<Scanner>
make_scanner(int num_dets, int num_rings, float ring_spacing, int max_tang, int tof_bins = -1, float tof_bin_size = -1.F)
{
  // one crystal per block/bucket keeps the block/bucket consistency checks happy for any size
  shared_ptr<Scanner> s(new Scanner(Scanner::User_defined_scanner,
                                    "gen",
                                    num_dets,
                                    num_rings,
                                    max_tang,
                                    max_tang,
                                    300.F,
                                    5.F,
                                    ring_spacing,
                                    2.F,
                                    0.F,
                                    1,
                                    1,
                                    1,
                                    1,
                                    1,
                                    1,
                                    1,
                                    -1.F,
                                    -1.F,
                                    static_cast<short>(tof_bins),
                                    tof_bin_size,
                                    tof_bins > 0 ? 400.F : -1.F));
  return s;
}

inline bool
in_range(const ProjDataInfo& pdi, const Bin& b)
{
  if (b.segment_num() < pdi.get_min_segment_num() || b.segment_num() > pdi.get_max_segment_num())
    return false;
  if (b.axial_pos_num() < pdi.get_min_axial_pos_num(b.segment_num())
      || b.axial_pos_num() > pdi.get_max_axial_pos_num(b.segment_num()))
    return false;
  if (b.view_num() < pdi.get_min_view_num() || b.view_num() > pdi.get_max_view_num())
    return false;
  if (b.tangential_pos_num() < pdi.get_min_tangential_pos_num() || b.tangential_pos_num() > pdi.get_max_tangential_pos_num())
    return false;
  if (b.timing_pos_num() < pdi.get_min_tof_pos_num() || b.timing_pos_num() > pdi.get_max_tof_pos_num())
    return false;
  return true;
}

typedef std::tuple<int, int, int, int, int> Key; // seg, tof, ax, view, tang
inline Key
key(const Bin& b)
{
  return Key(b.segment_num(), b.timing_pos_num(), b.axial_pos_num(), b.view_num(), b.tangential_pos_num());
}

struct Result
{
  long num_wrong_bins = 0;      // output bins that differ from direct histogramming
  double total_in = 0;          // counts stored in fine data
  double total_expected = 0;    // counts the output geometry accepts
  double total_out = 0;         // counts found after SSRB
  bool threw = false;
  std::string first_msg;
};

/* events: if num_random<=0 every detector pair (and every unmashed TOF bin) is used once with a pseudo-random integer weight,
   otherwise num_random random detector pairs.
   make_out creates the output geometry from the fine one (normally by calling the ProjDataInfo version of SSRB).
   If make_out_first, this is done before anything is histogrammed, otherwise after the fine histogramming
   (i.e. the order "histogram finely, then rebin"). */
inline Result
check_with_order(const shared_ptr<const ProjDataInfo>& in_pdi_sptr,
                 const std::function<shared_ptr<ProjDataInfo>(const ProjDataInfo&)>& make_out,
                 const bool make_out_first,
                 const long num_random,
                 const unsigned seed,
                 const bool verbose = false)
{
  Result res;
  const ProjDataInfoCylindricalNoArcCorr& in_pdi = dynamic_cast<const ProjDataInfoCylindricalNoArcCorr&>(*in_pdi_sptr);
  const Scanner& scanner = *in_pdi.get_scanner_ptr();
  const int D = scanner.get_num_detectors_per_ring();
  const int N = scanner.get_num_rings();
  const int T = in_pdi.is_tof_data() ? scanner.get_max_num_timing_poss() : 1;
  const int min_t = -(T / 2);

  shared_ptr<ExamInfo> exam_sptr(new ExamInfo);
  exam_sptr->imaging_modality = ImagingModality::PT;
  std::mt19937 gen(seed);

  struct Event
  {
    DetectionPositionPair<> dp;
    float w;
    bool stored;
  };
  std::vector<Event> events;
  auto add_event = [&](int d1, int r1, int d2, int r2, int t, float w) {
    if (d1 != d2)
      events.push_back(Event{ DetectionPositionPair<>(DetectionPosition<>(d1, r1, 0), DetectionPosition<>(d2, r2, 0), t), w, false });
  };
  if (num_random <= 0)
    {
      for (int r1 = 0; r1 < N; ++r1)
        for (int r2 = 0; r2 < N; ++r2)
          for (int d1 = 0; d1 < D; ++d1)
            for (int d2 = 0; d2 < D; ++d2)
              for (int t = min_t; t < min_t + T; ++t)
                add_event(d1, r1, d2, r2, t, static_cast<float>(1 + gen() % 7));
    }
  else
    {
      for (long i = 0; i < num_random; ++i)
        {
          const int d1 = gen() % D, r1 = gen() % N, d2 = gen() % D, r2 = gen() % N;
          const int t = min_t + static_cast<int>(gen() % T);
          add_event(d1, r1, d2, r2, t, static_cast<float>(1 + gen() % 7));
        }
    }

  shared_ptr<const ProjDataInfo> out_pdi_sptr;
  if (make_out_first)
    out_pdi_sptr = make_out(in_pdi);

  // 1. histogram at the fine sampling
  ProjDataInMemory in_data(exam_sptr, in_pdi_sptr);
  for (auto& e : events)
    {
      Bin b_in;
      if (in_pdi.get_bin_for_det_pos_pair(b_in, e.dp) == Succeeded::no || !in_range(in_pdi, b_in))
        continue;
      b_in.set_bin_value(in_data.get_bin_value(b_in) + e.w);
      in_data.set_bin_value(b_in);
      res.total_in += e.w;
      e.stored = true;
    }

  if (!make_out_first)
    out_pdi_sptr = make_out(in_pdi);
  const ProjDataInfoCylindricalNoArcCorr& out_pdi = dynamic_cast<const ProjDataInfoCylindricalNoArcCorr&>(*out_pdi_sptr);

  // 2. histogram the same events directly at the coarse sampling
  std::map<Key, double> expected;
  for (const auto& e : events)
    {
      if (!e.stored)
        continue;
      Bin b_out;
      if (out_pdi.get_bin_for_det_pos_pair(b_out, e.dp) == Succeeded::no || !in_range(out_pdi, b_out))
        continue;
      expected[key(b_out)] += e.w;
      res.total_expected += e.w;
    }

  // 3. rebin the fine data
  ProjDataInMemory out_data(exam_sptr, out_pdi_sptr);
  try
    {
      SSRB(out_data, in_data, /*do_norm=*/false);
    }
  catch (std::exception& e)
    {
      res.threw = true;
      res.first_msg = e.what();
      return res;
    }
  catch (...)
    {
      res.threw = true;
      res.first_msg = "unknown exception";
      return res;
    }

  for (int seg = out_pdi.get_min_segment_num(); seg <= out_pdi.get_max_segment_num(); ++seg)
    for (int tof = out_pdi.get_min_tof_pos_num(); tof <= out_pdi.get_max_tof_pos_num(); ++tof)
      for (int ax = out_pdi.get_min_axial_pos_num(seg); ax <= out_pdi.get_max_axial_pos_num(seg); ++ax)
        {
          const Sinogram<float> sino = out_data.get_sinogram(ax, seg, false, tof);
          for (int v = out_pdi.get_min_view_num(); v <= out_pdi.get_max_view_num(); ++v)
            for (int tp = out_pdi.get_min_tangential_pos_num(); tp <= out_pdi.get_max_tangential_pos_num(); ++tp)
              {
                const double got = sino[v][tp];
                res.total_out += got;
                const auto it = expected.find(Key(seg, tof, ax, v, tp));
                const double want = it == expected.end() ? 0. : it->second;
                if (std::fabs(got - want) > 1e-3)
                  {
                    if (res.num_wrong_bins == 0)
                      {
                        res.first_msg = "first differing output bin: seg " + std::to_string(seg) + " tof " + std::to_string(tof)
                                        + " ax " + std::to_string(ax) + " view " + std::to_string(v) + " tang "
                                        + std::to_string(tp) + ": SSRB gives " + std::to_string(got)
                                        + ", direct histogramming gives " + std::to_string(want);
                      }
                    if (verbose && res.num_wrong_bins < 10)
                      std::cout << "    seg " << seg << " tof " << tof << " ax " << ax << " view " << v << " tang " << tp
                                << ": SSRB " << got << " direct " << want << "\n";
                    ++res.num_wrong_bins;
                  }
              }
        }
  return res;
}

//! output geometry already made by the caller
inline Result
check(const shared_ptr<const ProjDataInfo>& in_pdi_sptr,
      const shared_ptr<const ProjDataInfo>& out_pdi_sptr,
      const long num_random,
      const unsigned seed,
      const bool verbose = false)
{
  return check_with_order(
      in_pdi_sptr,
      [&](const ProjDataInfo&) { return shared_ptr<ProjDataInfo>(out_pdi_sptr->clone()); },
      true,
      num_random,
      seed,
      verbose);
}

inline std::string
describe(const ProjDataInfo& pdi)
{
  const ProjDataInfoCylindrical& c = dynamic_cast<const ProjDataInfoCylindrical&>(pdi);
  std::string s = "segs " + std::to_string(pdi.get_min_segment_num()) + ".." + std::to_string(pdi.get_max_segment_num())
                  + " rd[";
  for (int seg = 0; seg <= pdi.get_max_segment_num(); ++seg)
    s += "(" + std::to_string(c.get_min_ring_difference(seg)) + "," + std::to_string(c.get_max_ring_difference(seg)) + ":"
         + std::to_string(pdi.get_num_axial_poss(seg)) + ")";
  s += "] views " + std::to_string(pdi.get_num_views()) + " tang " + std::to_string(pdi.get_min_tangential_pos_num()) + ".."
       + std::to_string(pdi.get_max_tangential_pos_num()) + " tof " + std::to_string(pdi.get_min_tof_pos_num()) + ".."
       + std::to_string(pdi.get_max_tof_pos_num()) + " (mash " + std::to_string(pdi.get_tof_mash_factor()) + ")";
  return s;
}
} // namespace ssrbcheck
#endif
