// F65 (known finding): PLSPrior declares is_convex() == true but implements neither compute_Hessian nor accumulate_Hessian_times_input
#include "stir/recon_buildblock/PLSPrior.h"
#include "stir/VoxelsOnCartesianGrid.h"
#include "stir/IndexRange3D.h"
#include "stir/Succeeded.h"
#include <iostream>
using namespace stir;
int
main()
{
  typedef DiscretisedDensity<3, float> image_t;
  shared_ptr<image_t> image(new VoxelsOnCartesianGrid<float>(
      IndexRange3D(0, 3, -2, 2, -2, 2), CartesianCoordinate3D<float>(0, 0, 0), CartesianCoordinate3D<float>(2.5F, 3.F, 2.F)));
  image->fill(1.F);
  (*image)[1][0][0] = 2.F;
  PLSPrior<float> prior(false, 1.F);
  prior.set_anatomical_image_sptr(image);
  prior.set_up(image);
  shared_ptr<image_t> out(image->get_empty_copy());
  int bad = 0;
  std::cout << "is_convex(): " << prior.is_convex() << "\n";
  try
    {
      prior.compute_Hessian(*out, make_coordinate(1, 0, 0), *image);
      std::cout << "compute_Hessian works\n";
    }
  catch (std::exception& e)
    {
      std::cout << "compute_Hessian threw: " << e.what() << "\n";
      ++bad;
    }
  try
    {
      prior.accumulate_Hessian_times_input(*out, *image, *image);
      std::cout << "accumulate_Hessian_times_input works\n";
    }
  catch (std::exception& e)
    {
      std::cout << "accumulate_Hessian_times_input threw: " << e.what() << "\n";
      ++bad;
    }
  return bad;
}
