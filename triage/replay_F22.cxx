// probe of UNMODIFIED behaviour: truncated last segment consisting of a single ring difference
#include "stir/ProjDataInfo.h"
#include "stir/ProjDataInfoCylindricalNoArcCorr.h"
#include "stir/Scanner.h"
#include "stir/Succeeded.h"
#include <iostream>
#include <cstdlib>
using namespace stir;
int main(int argc, char** argv)
{
  const int span = argc > 1 ? atoi(argv[1]) : 3;
  const int max_delta = argc > 2 ? atoi(argv[2]) : 2;
  shared_ptr<Scanner> scanner_sptr(new Scanner(Scanner::E953));
  shared_ptr<ProjDataInfo> pdi_sptr(ProjDataInfo::construct_proj_data_info(scanner_sptr, span, max_delta, 192, 32, false));
  const ProjDataInfoCylindricalNoArcCorr& pdi = dynamic_cast<const ProjDataInfoCylindricalNoArcCorr&>(*pdi_sptr);
  const int N = scanner_sptr->get_num_rings();
  int bad = 0;
  for (int r1 = 0; r1 < N; ++r1)
    for (int r2 = 0; r2 < N; ++r2)
      {
        int s, a;
        if (pdi.get_segment_axial_pos_num_for_ring_pair(s, a, r1, r2) != Succeeded::yes)
          continue;
        if (a < pdi.get_min_axial_pos_num(s) || a > pdi.get_max_axial_pos_num(s))
          { std::cout << "ring pair (" << r1 << "," << r2 << ") -> seg " << s << " ax " << a << " OUT OF AXIAL RANGE\n"; ++bad; continue; }
        const ProjDataInfoCylindrical::RingNumPairs& rp = pdi.get_all_ring_pairs_for_segment_axial_pos_num(s, a);
        bool found = false;
        for (auto p : rp) if (p.first == r1 && p.second == r2) found = true;
        if (!found)
          { if (++bad < 8) std::cout << "ring pair (" << r1 << "," << r2 << ") -> seg " << s << " ax " << a << " but that bin lists " << rp.size() << " pairs, not this one\n"; }
      }
  std::cout << "span " << span << " max_delta " << max_delta << ": " << bad << " ring pairs assigned to a bin that does not list them\n";
  for (int s = pdi.get_min_segment_num(); s <= pdi.get_max_segment_num(); ++s)
    std::cout << " seg " << s << " rd [" << pdi.get_min_ring_difference(s) << "," << pdi.get_max_ring_difference(s) << "] num_ax " << pdi.get_num_axial_poss(s) << "\n";
  return bad != 0;
}
