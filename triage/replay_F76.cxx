// F76: SSRB matched input and output sinograms with an absolute tolerance of 1e-4 mm on single-precision axial coordinates:
// on scanners longer than about 1 m some input sinograms found no output sinogram and their counts were lost
#include "extra-C15-4/ssrb_check.h"
#include <iostream>
using namespace stir;
using namespace ssrbcheck;
int
main()
{
  int deviations = 0;
  for (int N : { 200, 400, 700 })
    for (float rs : { 3.27F, 2.85F })
      {
        shared_ptr<Scanner> sc = make_scanner(8, N, rs, 3);
        shared_ptr<ProjDataInfo> in(ProjDataInfo::ProjDataInfoCTI(sc, 1, 7, 4, 3, false));
        shared_ptr<ProjDataInfo> out(SSRB(*in, 3, 1, 0, -1, 1));
        const Result r = check(in, out, 300000, 7);
        std::cout << N << " rings, ring spacing " << rs << " mm (axial length " << N * rs << " mm): counts in " << r.total_in << ", after SSRB " << r.total_out
                  << " (expected " << r.total_expected << "), bins that differ from direct histogramming " << r.num_wrong_bins << "\n";
        if (r.num_wrong_bins)
          ++deviations;
      }
  std::cout << (deviations ? "DEVIATIONS " : "ok ") << deviations << "\n";
  return deviations;
}
