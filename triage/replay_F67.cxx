// F67: projection data written with their Interfile header lost the scan start time and the calibration factor of the exam information
#include "stir/ProjDataInterfile.h"
#include "stir/ProjDataInfo.h"
#include "stir/ExamInfo.h"
#include "stir/Scanner.h"
#include "stir/Succeeded.h"
#include <iostream>
using namespace stir;
int
main()
{
  shared_ptr<Scanner> scanner(new Scanner(Scanner::E953));
  shared_ptr<ProjDataInfo> pdi(ProjDataInfo::construct_proj_data_info(scanner, 1, 2, 8, 16, false));
  shared_ptr<ExamInfo> exam(new ExamInfo);
  exam->imaging_modality = ImagingModality::PT;
  exam->start_time_in_secs_since_1970 = 1600000000.;
  exam->set_calibration_factor(2.5F);
  {
    ProjDataInterfile pd(exam, pdi, "/tmp/tri/replay_F67.hs", std::ios::in | std::ios::out | std::ios::trunc);
    pd.fill(1.F);
  }
  shared_ptr<ProjData> back = ProjData::read_from_file("/tmp/tri/replay_F67.hs");
  const ExamInfo& e = back->get_exam_info();
  int bad = 0;
  std::cout.precision(12);
  std::cout << "start time written " << exam->start_time_in_secs_since_1970 << ", read back " << e.start_time_in_secs_since_1970 << "\n";
  if (e.start_time_in_secs_since_1970 != exam->start_time_in_secs_since_1970)
    ++bad;
  std::cout << "calibration factor written " << exam->get_calibration_factor() << ", read back " << e.get_calibration_factor() << "\n";
  if (e.get_calibration_factor() != exam->get_calibration_factor())
    ++bad;
  // (ExamInfo::operator== is not used here: a header without radionuclide reads back with the default radionuclide of the modality)
  std::cout << (bad ? "DEVIATIONS " : "ok ") << bad << "\n";
  return bad;
}
