// replay of candidate finding F13 (C05): with a prior, the penalised Hessian-times-vector must equal the unpenalised one minus the
// prior's share:  accumulate_sub_Hessian_times_input(out, x, v, s)  ==  ..._without_penalty(out, x, v, s) - prior.Hessian(x) v / num_subsets
#include "stir/recon_buildblock/PoissonLogLikelihoodWithLinearModelForMeanAndProjData.h"
#include "stir/recon_buildblock/ProjMatrixByBinUsingRayTracing.h"
#include "stir/recon_buildblock/ProjectorByBinPairUsingProjMatrixByBin.h"
#include "stir/recon_buildblock/QuadraticPrior.h"
#include "stir/ProjDataInMemory.h"
#include "stir/ProjDataInfo.h"
#include "stir/Scanner.h"
#include "stir/VoxelsOnCartesianGrid.h"
#include "stir/SegmentByView.h"
#include <cmath>
#include <iostream>
using namespace stir;
typedef DiscretisedDensity<3, float> target_type;
int main()
{
  shared_ptr<Scanner> scanner_sptr(new Scanner(Scanner::E953));
  scanner_sptr->set_num_rings(5);
  shared_ptr<ProjDataInfo> pdi(ProjDataInfo::ProjDataInfoCTI(scanner_sptr, 3, 4, 16, 16));
  shared_ptr<ExamInfo> exam_info_sptr(new ExamInfo(ImagingModality::PT));
  shared_ptr<ProjData> proj_data_sptr(new ProjDataInMemory(exam_info_sptr, pdi));
  for (int seg = proj_data_sptr->get_min_segment_num(); seg <= proj_data_sptr->get_max_segment_num(); ++seg)
    {
      SegmentByView<float> segment = proj_data_sptr->get_empty_segment_by_view(seg);
      float value = 0;
      for (auto iter = segment.begin_all(); iter != segment.end_all(); ++iter)
        {
          value = float(fabs((seg + .1) * value - 5));
          *iter = value;
        }
      proj_data_sptr->set_segment(segment);
    }
  shared_ptr<target_type> x(new VoxelsOnCartesianGrid<float>(exam_info_sptr, *pdi, 1.F, CartesianCoordinate3D<float>(0, 0, 0)));
  shared_ptr<target_type> v(x->get_empty_copy());
  {
    float t = 0.3F;
    for (auto i = x->begin_all(); i != x->end_all(); ++i)
      {
        t = std::fmod(t * 1.7F + 0.31F, 1.F);
        *i = 0.5F + t;
      }
    for (auto i = v->begin_all(); i != v->end_all(); ++i)
      {
        t = std::fmod(t * 1.3F + 0.17F, 1.F);
        *i = 0.1F + t;
      }
  }
  PoissonLogLikelihoodWithLinearModelForMeanAndProjData<target_type> obj;
  obj.set_proj_data_sptr(proj_data_sptr);
  shared_ptr<ProjMatrixByBin> pm(new ProjMatrixByBinUsingRayTracing());
  shared_ptr<ProjectorByBinPair> pp(new ProjectorByBinPairUsingProjMatrixByBin(pm));
  obj.set_projector_pair_sptr(pp);
  obj.set_num_subsets(2);
  shared_ptr<GeneralisedPrior<target_type>> prior(new QuadraticPrior<float>(false, 2.F));
  obj.set_prior_sptr(prior);
  obj.set_up(x);
  int bad = 0;
  for (int s = 0; s < 2; ++s)
    {
      shared_ptr<target_type> with(x->get_empty_copy()), without(x->get_empty_copy()), pr(x->get_empty_copy());
      obj.accumulate_sub_Hessian_times_input(*with, *x, *v, s);
      obj.accumulate_sub_Hessian_times_input_without_penalty(*without, *x, *v, s);
      prior->accumulate_Hessian_times_input(*pr, *x, *v);
      double maxdiff = 0, scale = 0;
      auto w = with->begin_all();
      auto wo = without->begin_all();
      auto p = pr->begin_all();
      for (; w != with->end_all(); ++w, ++wo, ++p)
        {
          const double expect = *wo - *p / 2;
          maxdiff = std::max(maxdiff, std::fabs(*w - expect));
          scale = std::max(scale, std::fabs(expect));
        }
      std::cout << "subset " << s << ": max |penalised - (unpenalised - prior share)| = " << maxdiff << " (scale " << scale << ")\n";
      if (maxdiff > 1e-3 * scale)
        ++bad;
    }
  return bad ? 1 : 0;
}
