// Probe of the UNMODIFIED library for cases, covered by the property, that it gets wrong.
// Prints what it observes; exit code = number of deviations seen.
#include "explicit_poisson.h"
#include <functional>

using namespace seed;

static shared_ptr<ObjFun>
make_obj(const shared_ptr<ProjData>& y, const shared_ptr<ProjData>& add, const shared_ptr<BinNormalisation>& norm, int num_subsets, bool use_subset_sens)
{
  shared_ptr<ObjFun> obj(new ObjFun);
  obj->set_proj_data_sptr(y);
  obj->set_use_subset_sensitivities(use_subset_sens);
  shared_ptr<ProjMatrixByBin> pm(new ProjMatrixByBinUsingRayTracing());
  shared_ptr<ProjectorByBinPair> pp(new ProjectorByBinPairUsingProjMatrixByBin(pm));
  obj->set_projector_pair_sptr(pp);
  if (add)
    obj->set_additive_proj_data_sptr(add);
  if (norm)
    obj->set_normalisation_sptr(norm);
  obj->set_num_subsets(num_subsets);
  return obj;
}

int
main()
{
  Verbosity::set(0);
  std::mt19937 gen(4242);
  int deviations = 0;
  shared_ptr<ExamInfo> exam_info_sptr(new ExamInfo(ImagingModality::PT));

  // ------------------------------------------------------------------ non-TOF
  {
    shared_ptr<ProjDataInfo> pdi = make_proj_data_info(false);
    shared_ptr<Image> lambda = make_image(exam_info_sptr, *pdi, gen);
    shared_ptr<Image> v = make_image(exam_info_sptr, *pdi, gen);
    shared_ptr<ProjDataInMemory> y(new ProjDataInMemory(exam_info_sptr, pdi));
    fill_random(*y, gen, 0.F, 20.F, true);
    shared_ptr<ProjDataInMemory> add(new ProjDataInMemory(exam_info_sptr, pdi));
    fill_random(*add, gen, 0.2F, 1.F);
    shared_ptr<ProjDataInMemory> eff(new ProjDataInMemory(exam_info_sptr, pdi));
    fill_random(*eff, gen, 0.5F, 1.5F);
    shared_ptr<BinNormalisation> norm(new BinNormalisationFromProjData(reciprocal(*eff)));
    const ExplicitModel model(pdi, lambda);

    // ---- E1: zero_seg0_end_planes and the Hessian
    {
      std::printf("\nE1: zero_seg0_end_planes=true: value/gradient/sensitivity leave out the end-planes of segment 0; does the "
                  "Hessian product?\n");
      shared_ptr<ObjFun> obj = make_obj(y, add, norm, 2, true);
      obj->set_zero_seg0_end_planes(true);
      if (obj->set_up(lambda) != Succeeded::yes)
        return 100;
      const int max_seg = obj->get_max_segment_num_to_process();
      auto ref_zero = model.compute(to_vec(*lambda), to_vec(*v), *y, eff.get(), add.get(), max_seg, 1000, true);
      auto ref_nozero = model.compute(to_vec(*lambda), to_vec(*v), *y, eff.get(), add.get(), max_seg, 1000, false);
      Checker c;
      c.check_scalar(obj->compute_objective_function_without_penalty(*lambda), ref_zero.value, "value (text-book without end-planes)");
      shared_ptr<Image> g(lambda->get_empty_copy());
      obj->compute_gradient_without_penalty(*g, *lambda);
      c.check_vec(to_vec(*g), ref_zero.gradient, "gradient (text-book without end-planes)");
      c.check_vec(to_vec(obj->get_sensitivity()), ref_zero.sensitivity, "sensitivity (text-book without end-planes)");
      shared_ptr<Image> h(lambda->get_empty_copy());
      obj->accumulate_Hessian_times_input_without_penalty(*h, *lambda, *v);
      c.check_vec(to_vec(*h), ref_zero.Hv, "Hessian times v (text-book without end-planes)");
      std::printf("       for information: Hessian times v against the text-book WITH end-planes: rel.diff = %.3g\n",
                  rel_diff(to_vec(*h), ref_nozero.Hv));
      // finite difference of the library's own gradient
      {
        shared_ptr<Image> lam2(lambda->clone());
        const float eps = 1e-2F;
        auto vi = v->begin_all_const();
        for (auto it = lam2->begin_all(); it != lam2->end_all(); ++it, ++vi)
          *it += eps * *vi;
        shared_ptr<Image> g2(lambda->get_empty_copy());
        obj->compute_gradient_without_penalty(*g2, *lam2);
        *g2 -= *g;
        *g2 /= eps;
        std::printf("       for information: (gradient(lambda+eps v)-gradient(lambda))/eps against the library's Hessian times "
                    "v: rel.diff = %.3g; against the text-book without end-planes: %.3g\n",
                    rel_diff(to_vec(*g2), to_vec(*h)),
                    rel_diff(to_vec(*g2), ref_zero.Hv));
      }
      deviations += c.failures;
    }

    // ---- E3: use_subset_sensitivities=false and 'gradient plus sensitivity'
    {
      std::printf("\nE3: use_subset_sensitivities=false, 4 (balanced) subsets: is 'gradient plus sensitivity' minus gradient the "
                  "subset sensitivity that the object reports?\n");
      shared_ptr<ObjFun> obj = make_obj(y, add, norm, 4, false);
      if (obj->set_up(lambda) != Succeeded::yes)
        return 100;
      Checker c;
      for (int s = 0; s < 4; ++s)
        {
          shared_ptr<Image> g(lambda->get_empty_copy()), gps(lambda->get_empty_copy());
          obj->compute_sub_gradient_without_penalty(*g, *lambda, s);
          obj->compute_sub_gradient_without_penalty_plus_sensitivity(*gps, *lambda, s);
          *gps -= *g;
          c.check_vec(to_vec(*gps),
                      to_vec(obj->get_subset_sensitivity(s)),
                      "subset " + std::to_string(s) + ": (gradient plus sensitivity) - gradient == get_subset_sensitivity()");
        }
      deviations += c.failures > 0 ? 1 : 0;
    }

    // ---- E4: default max_segment_num_to_process is resolved once
    {
      std::printf("\nE4: max_segment_num_to_process left at its default (-1 = all segments); data replaced by data with more "
                  "segments; set_up again\n");
      shared_ptr<ProjDataInfo> pdi_small(pdi->clone());
      pdi_small->reduce_segment_range(0, 0);
      shared_ptr<ProjDataInMemory> y_small(new ProjDataInMemory(exam_info_sptr, pdi_small));
      fill_random(*y_small, gen, 0.F, 20.F, true);
      shared_ptr<ObjFun> obj = make_obj(y_small, shared_ptr<ProjData>(), shared_ptr<BinNormalisation>(), 1, true);
      if (obj->set_up(lambda) != Succeeded::yes)
        return 100;
      std::printf("   after set_up with segment-0-only data: max_segment_num_to_process = %d\n",
                  obj->get_max_segment_num_to_process());
      obj->set_proj_data_sptr(y);
      if (obj->set_up(lambda) != Succeeded::yes)
        return 100;
      std::printf("   after set_proj_data_sptr(data with segments %d..%d) and set_up: max_segment_num_to_process = %d\n",
                  y->get_min_segment_num(),
                  y->get_max_segment_num(),
                  obj->get_max_segment_num_to_process());
      auto ref_all = model.compute(to_vec(*lambda), to_vec(*v), *y, 0, 0, y->get_max_segment_num(), 1000, false);
      Checker c;
      c.check_scalar(obj->compute_objective_function_without_penalty(*lambda), ref_all.value, "value uses all segments of the new data");
      c.check_vec(to_vec(obj->get_sensitivity()), ref_all.sensitivity, "sensitivity uses all segments of the new data");
      deviations += c.failures > 0 ? 1 : 0;
    }
  }

  // ------------------------------------------------------------------ TOF
  {
    shared_ptr<ProjDataInfo> pdi = make_proj_data_info(true);
    shared_ptr<Image> lambda = make_image(exam_info_sptr, *pdi, gen);
    shared_ptr<Image> v = make_image(exam_info_sptr, *pdi, gen);
    shared_ptr<ProjDataInMemory> y(new ProjDataInMemory(exam_info_sptr, pdi));
    fill_random(*y, gen, 0.F, 20.F, true);
    shared_ptr<ProjDataInMemory> add(new ProjDataInMemory(exam_info_sptr, pdi));
    fill_random(*add, gen, 0.2F, 1.F);
    const ExplicitModel model(pdi, lambda);
    std::printf("\nTOF geometry: TOF positions %d..%d\n", pdi->get_min_tof_pos_num(), pdi->get_max_tof_pos_num());

    // ---- E2: max_timing_pos_num_to_process
    {
      std::printf("\nE2: set_max_timing_pos_num_to_process(0) on data with 5 TOF positions\n");
      shared_ptr<ObjFun> obj = make_obj(y, add, shared_ptr<BinNormalisation>(), 2, true);
      obj->set_max_timing_pos_num_to_process(0);
      std::printf("   before set_up: get_max_timing_pos_num_to_process() = %d\n", obj->get_max_timing_pos_num_to_process());
      if (obj->set_up(lambda) != Succeeded::yes)
        return 100;
      std::printf("   after  set_up: get_max_timing_pos_num_to_process() = %d\n", obj->get_max_timing_pos_num_to_process());
      const int max_seg = obj->get_max_segment_num_to_process();
      auto ref0 = model.compute(to_vec(*lambda), to_vec(*v), *y, 0, add.get(), max_seg, 0, false);
      auto refall = model.compute(to_vec(*lambda), to_vec(*v), *y, 0, add.get(), max_seg, 1000, false);
      Checker c;
      const double val = obj->compute_objective_function_without_penalty(*lambda);
      c.check_scalar(val, ref0.value, "value == text-book over TOF position 0 only");
      std::printf("       for information: against the text-book over all TOF positions: rel.diff = %.3g\n",
                  std::fabs(val - refall.value) / std::fabs(refall.value));
      shared_ptr<Image> h(lambda->get_empty_copy());
      obj->accumulate_Hessian_times_input_without_penalty(*h, *lambda, *v);
      c.check_vec(to_vec(*h), ref0.Hv, "Hessian times v == text-book over TOF position 0 only");
      std::printf("       for information: against the text-book over all TOF positions: rel.diff = %.3g\n",
                  rel_diff(to_vec(*h), refall.Hv));
      deviations += c.failures > 0 ? 1 : 0;
    }

    // ---- E5: TOF data with (default) non-TOF sensitivities
    {
      std::printf("\nE5: TOF data: sensitivity with 'use time-of-flight sensitivities' off (default) against P^T 1 summed over "
                  "the TOF positions\n");
      shared_ptr<ObjFun> obj = make_obj(y, add, shared_ptr<BinNormalisation>(), 2, true);
      if (obj->set_up(lambda) != Succeeded::yes)
        return 100;
      auto refall = model.compute(
          to_vec(*lambda), to_vec(*v), *y, 0, add.get(), obj->get_max_segment_num_to_process(), 1000, false);
      Checker c;
      c.check_vec(to_vec(obj->get_sensitivity()), refall.sensitivity, "non-TOF sensitivity == sum over TOF positions of P^T 1");
      shared_ptr<Image> gsum(lambda->get_empty_copy()), gpssum(lambda->get_empty_copy());
      for (int s = 0; s < 2; ++s)
        {
          shared_ptr<Image> g(lambda->get_empty_copy()), gps(lambda->get_empty_copy());
          obj->compute_sub_gradient_without_penalty(*g, *lambda, s);
          obj->compute_sub_gradient_without_penalty_plus_sensitivity(*gps, *lambda, s);
          *gsum += *g;
          *gpssum += *gps;
        }
      *gpssum -= *gsum;
      c.check_vec(to_vec(*gpssum), to_vec(obj->get_sensitivity()), "('gradient plus sensitivity' - gradient) == get_sensitivity()");
      deviations += c.failures > 0 ? 1 : 0;
    }
  }

  std::printf("\n%d deviation(s) seen\n", deviations);
  return deviations;
}
