// Helper for SEED/demo.cxx and SEED/extra/probe_existing.cxx
//
// Builds the system matrix P explicitly (row by row, from a ProjMatrixByBinUsingRayTracing
// of our own) for a small scanner, and evaluates the text-book Poisson log-likelihood
// quantities in double precision:
//    ybar = n (P lambda + a)
//    L    = sum_b y_b log(ybar_b) - ybar_b
//    grad = P^T ( y/(P lambda + a) - n )
//    sens = P^T n
//    H v  = - P^T ( y (P v) / (P lambda + a)^2 )
#ifndef SEED_EXPLICIT_POISSON_H
#define SEED_EXPLICIT_POISSON_H

#include "stir/recon_buildblock/PoissonLogLikelihoodWithLinearModelForMeanAndProjData.h"
#include "stir/recon_buildblock/ProjMatrixByBinUsingRayTracing.h"
#include "stir/recon_buildblock/ProjMatrixElemsForOneBin.h"
#include "stir/recon_buildblock/ProjectorByBinPairUsingProjMatrixByBin.h"
#include "stir/recon_buildblock/BinNormalisationFromProjData.h"
#include "stir/recon_buildblock/TrivialBinNormalisation.h"
#include "stir/VoxelsOnCartesianGrid.h"
#include "stir/ProjDataInMemory.h"
#include "stir/ProjDataInfo.h"
#include "stir/ExamInfo.h"
#include "stir/Scanner.h"
#include "stir/Viewgram.h"
#include "stir/Bin.h"
#include "stir/IndexRange.h"
#include "stir/Succeeded.h"
#include "stir/Verbosity.h"
#include "stir/shared_ptr.h"
#include <vector>
#include <cmath>
#include <cstdio>
#include <string>
#include <algorithm>
#include <iostream>
#include <random>

namespace seed
{
using namespace stir;
typedef DiscretisedDensity<3, float> Image;
typedef PoissonLogLikelihoodWithLinearModelForMeanAndProjData<Image> ObjFun;

struct Row
{
  int seg, view, ax, tang, tof;
  bool seg0_end_plane;
  std::vector<std::pair<int, float>> elems; // (linear voxel index in begin_all() order, P_bj)
};

inline std::vector<double>
to_vec(const Image& im)
{
  return std::vector<double>(im.begin_all_const(), im.end_all_const());
}

//! small non-TOF (E953, 5 rings) or TOF (Discovery690, 4 rings, 5 TOF bins) geometry, as in the STIR test
inline shared_ptr<ProjDataInfo>
make_proj_data_info(const bool tof)
{
  shared_ptr<ProjDataInfo> pdi;
  if (tof)
    {
      shared_ptr<Scanner> scanner_sptr(new Scanner(Scanner::Discovery690));
      scanner_sptr->set_num_rings(4);
      pdi = std::move(ProjDataInfo::construct_proj_data_info(scanner_sptr, 3, 2, 16, 16, false, 11));
    }
  else
    {
      shared_ptr<Scanner> scanner_sptr(new Scanner(Scanner::E953));
      scanner_sptr->set_num_rings(5);
      pdi.reset(ProjDataInfo::ProjDataInfoCTI(scanner_sptr, 3, 4, 16, 16));
    }
  return pdi;
}

inline shared_ptr<Image>
make_image(const shared_ptr<const ExamInfo>& exam_info_sptr, const ProjDataInfo& pdi, std::mt19937& gen)
{
  shared_ptr<Image> im(new VoxelsOnCartesianGrid<float>(exam_info_sptr, pdi, 1.F, CartesianCoordinate3D<float>(0, 0, 0)));
  // make odd-sized in x,y (as the STIR test does)
  BasicCoordinate<3, int> min_ind, max_ind;
  if (im->get_regular_range(min_ind, max_ind))
    {
      for (int d = 2; d <= 3; ++d)
        {
          min_ind[d] = std::min(min_ind[d], -max_ind[d]);
          max_ind[d] = std::max(-min_ind[d], max_ind[d]);
        }
      im->grow(IndexRange<3>(min_ind, max_ind));
    }
  std::uniform_real_distribution<float> u(0.5F, 1.5F);
  for (auto it = im->begin_all(); it != im->end_all(); ++it)
    *it = u(gen);
  return im;
}

//! fill with uniform random numbers in [lo,hi], optionally rounded (Poisson-like counts)
inline void
fill_random(ProjData& pd, std::mt19937& gen, const float lo, const float hi, const bool round_it = false)
{
  std::uniform_real_distribution<float> u(lo, hi);
  for (int k = pd.get_min_tof_pos_num(); k <= pd.get_max_tof_pos_num(); ++k)
    for (int seg = pd.get_min_segment_num(); seg <= pd.get_max_segment_num(); ++seg)
      for (int view = pd.get_min_view_num(); view <= pd.get_max_view_num(); ++view)
        {
          Viewgram<float> v = pd.get_empty_viewgram(view, seg, false, k);
          for (auto it = v.begin_all(); it != v.end_all(); ++it)
            *it = round_it ? std::floor(u(gen) + .5F) : u(gen);
          pd.set_viewgram(v);
        }
}

//! returns 1/x (norm factors <-> efficiencies)
inline shared_ptr<ProjDataInMemory>
reciprocal(const ProjDataInMemory& in)
{
  shared_ptr<ProjDataInMemory> out(new ProjDataInMemory(in));
  for (auto it = out->begin_all(); it != out->end_all(); ++it)
    *it = 1.F / *it;
  return out;
}

class ExplicitModel
{
public:
  shared_ptr<const ProjDataInfo> pdi_sptr;
  std::vector<Row> rows;
  int num_voxels;

  ExplicitModel(const shared_ptr<const ProjDataInfo>& pdi, const shared_ptr<const Image>& image_sptr)
      : pdi_sptr(pdi)
  {
    // image with the linear index of every voxel (in begin_all() order)
    shared_ptr<Image> idx(image_sptr->get_empty_copy());
    int n = 0;
    for (auto it = idx->begin_all(); it != idx->end_all(); ++it)
      *it = static_cast<float>(n++);
    num_voxels = n;

    ProjMatrixByBinUsingRayTracing pm;
    pm.set_up(pdi, image_sptr);
    for (int k = pdi->get_min_tof_pos_num(); k <= pdi->get_max_tof_pos_num(); ++k)
      for (int seg = pdi->get_min_segment_num(); seg <= pdi->get_max_segment_num(); ++seg)
        for (int view = pdi->get_min_view_num(); view <= pdi->get_max_view_num(); ++view)
          for (int ax = pdi->get_min_axial_pos_num(seg); ax <= pdi->get_max_axial_pos_num(seg); ++ax)
            for (int tang = pdi->get_min_tangential_pos_num(); tang <= pdi->get_max_tangential_pos_num(); ++tang)
              {
                Row r;
                r.seg = seg;
                r.view = view;
                r.ax = ax;
                r.tang = tang;
                r.tof = k;
                r.seg0_end_plane = seg == 0 && (ax == pdi->get_min_axial_pos_num(0) || ax == pdi->get_max_axial_pos_num(0));
                ProjMatrixElemsForOneBin elems;
                pm.get_proj_matrix_elems_for_one_bin(elems, Bin(seg, view, ax, tang, k));
                for (auto e = elems.begin(); e != elems.end(); ++e)
                  {
                    const int z = e->coord1(), yy = e->coord2(), x = e->coord3();
                    // the matrix can have elements outside the image (STIR's projectors skip those)
                    if (z < idx->get_min_index() || z > idx->get_max_index() || yy < (*idx)[z].get_min_index()
                        || yy > (*idx)[z].get_max_index() || x < (*idx)[z][yy].get_min_index()
                        || x > (*idx)[z][yy].get_max_index())
                      continue;
                    r.elems.push_back(std::make_pair(static_cast<int>((*idx)[z][yy][x] + .5F), e->get_value()));
                  }
                rows.push_back(r);
              }
  }

  //! data value for the bin of a row; if \a pd is non-TOF, the same value is used for all TOF bins
  static float value_at(const ProjData& pd, const Row& r, std::vector<Viewgram<float>>& cache, int& cached_key)
  {
    const int tof = pd.get_num_tof_poss() > 1 ? r.tof : 0;
    const int key = ((tof + 64) * 64 + (r.seg + 32)) * 1024 + r.view;
    if (key != cached_key)
      {
        cache.clear();
        cache.push_back(pd.get_viewgram(r.view, r.seg, false, tof));
        cached_key = key;
      }
    return cache[0][r.ax][r.tang];
  }

  struct Result
  {
    double value;
    std::vector<double> gradient, sensitivity, Hv;
  };

  /*! \a eff : efficiencies n (0 pointer: all 1), \a add : additive term a (0: none).
      Bins are used if |segment|<=max_seg, |tof|<=max_tof, and (if zero_seg0_end_planes) not in an end-plane of segment 0.
      For the sensitivity \a sens_max_tof is used (non-TOF sensitivities are the sum over all TOF bins). */
  Result compute(const std::vector<double>& lambda,
                 const std::vector<double>& v,
                 const ProjData& y,
                 const ProjData* eff,
                 const ProjData* add,
                 const int max_seg,
                 const int max_tof,
                 const bool zero_seg0_end_planes) const
  {
    Result res;
    res.value = 0;
    res.gradient.assign(num_voxels, 0.);
    res.sensitivity.assign(num_voxels, 0.);
    res.Hv.assign(num_voxels, 0.);
    std::vector<Viewgram<float>> cy, ce, ca;
    int ky = -1, ke = -1, ka = -1;
    for (const Row& r : rows)
      {
        if (std::abs(r.seg) > max_seg || std::abs(r.tof) > max_tof)
          continue;
        if (zero_seg0_end_planes && r.seg0_end_plane)
          continue;
        const double yb = value_at(y, r, cy, ky);
        const double nb = eff ? value_at(*eff, r, ce, ke) : 1.;
        const double ab = add ? value_at(*add, r, ca, ka) : 0.;
        double fwd = 0, fwd_v = 0;
        for (const auto& e : r.elems)
          {
            fwd += e.second * lambda[e.first];
            fwd_v += e.second * v[e.first];
          }
        const double ybar0 = fwd + ab;
        const double ybar = nb * ybar0;
        for (const auto& e : r.elems)
          res.sensitivity[e.first] += e.second * nb;
        if (ybar <= 0)
          continue;
        res.value += (yb > 0 ? yb * std::log(ybar) : 0.) - ybar;
        for (const auto& e : r.elems)
          {
            res.gradient[e.first] += e.second * (yb / ybar0 - nb);
            res.Hv[e.first] -= e.second * yb * fwd_v / (ybar0 * ybar0);
          }
      }
    return res;
  }
};

inline double
max_abs(const std::vector<double>& a)
{
  double m = 0;
  for (double x : a)
    m = std::max(m, std::fabs(x));
  return m;
}

//! max |a-b| / max |b|
inline double
rel_diff(const std::vector<double>& a, const std::vector<double>& b)
{
  double d = 0;
  for (std::size_t i = 0; i < a.size(); ++i)
    d = std::max(d, std::fabs(a[i] - b[i]));
  const double m = max_abs(b);
  return m > 0 ? d / m : d;
}

struct Checker
{
  int failures = 0;
  double tol = 1e-4;
  void check_small(const double rel, const std::string& what)
  {
    const bool ok = rel <= tol && rel == rel;
    std::printf("  %-4s %-86s rel.diff = %.3g\n", ok ? "ok" : "FAIL", what.c_str(), rel);
    if (!ok)
      ++failures;
  }
  void check_vec(const std::vector<double>& got, const std::vector<double>& expected, const std::string& what)
  {
    check_small(rel_diff(got, expected), what);
  }
  void check_scalar(const double got, const double expected, const std::string& what)
  {
    check_small(std::fabs(got - expected) / std::max(std::fabs(expected), 1e-30), what);
  }
};

} // namespace seed
#endif
