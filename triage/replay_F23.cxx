// replay of candidate finding F23 (C13): undo() must multiply every bin by the efficiency that get_bin_efficiency() reports (apply()
// divides by it).  BinNormalisationSPECT::apply/undo use get_uncalibrated_bin_efficiency(bin) TIMES a second, in-line computation of the
// same uniformity and decay factors (and ignore the calibration factor get_bin_efficiency divides by).
#include "stir/recon_buildblock/BinNormalisationSPECT.h"
#include "stir/ProjDataInterfile.h"
#include "stir/ProjDataInfo.h"
#include "stir/Scanner.h"
#include "stir/ExamInfo.h"
#include "stir/RelatedViewgrams.h"
#include "stir/recon_buildblock/TrivialDataSymmetriesForBins.h"
#include "stir/TimeFrameDefinitions.h"
#include <cmath>
#include <iostream>
#include <sstream>
using namespace stir;
int
main()
{
  shared_ptr<Scanner> scanner(new Scanner(Scanner::E953));
  scanner->set_num_rings(2);
  shared_ptr<ProjDataInfo> pdi(ProjDataInfo::ProjDataInfoCTI(scanner, 1, 0, 12, 511 / 16 * 2 + 1, true));
  shared_ptr<ExamInfo> exam(new ExamInfo(ImagingModality::PT)); // the PET header writer records the time frame (the SPECT one does not)
  {
    std::vector<std::pair<double, double>> frames(1, std::make_pair(0., 3600.));
    exam->set_time_frame_definitions(TimeFrameDefinitions(frames));
  }
  {
    ProjDataInterfile pd(exam, pdi, "replay_F23_data.hs", std::ios::out);
    pd.fill(1.F);
  }
  BinNormalisationSPECT norm;
  {
    std::istringstream par("Bin Normalisation SPECT:=\n"
                           "projdata filename := replay_F23_data.hs\n"
                           "use decay correction := 1\n"
                           "half life := 3600\n"
                           "num detector heads := 3\n"
                           "measured calibration factor := 2\n"
                           "End Bin Normalisation SPECT:=\n");
    if (!norm.parse(par))
      {
        std::cerr << "parsing failed\n";
        return 2;
      }
  }
  if (norm.set_up(exam, pdi) != Succeeded::yes)
    return 2;
  shared_ptr<DataSymmetriesForViewSegmentNumbers> symm(new TrivialDataSymmetriesForBins(pdi));
  double worst = 0;
  for (int view = 0; view < pdi->get_num_views(); ++view)
    {
      RelatedViewgrams<float> vg = pdi->get_empty_related_viewgrams(ViewSegmentNumbers(view, 0), symm);
      vg.fill(1.F);
      norm.undo(vg);
      const Bin bin(0, view, 0, 0);
      const double got = (*vg.begin())[0][0], eff = norm.get_bin_efficiency(bin);
      if (view % 4 == 1)
        std::cout << "view " << view << ": undo multiplies a bin by " << got << ", get_bin_efficiency reports " << eff << "\n";
      worst = std::max(worst, std::fabs(got - eff) / std::fabs(eff));
    }
  std::cout << "largest relative difference between the factor undo() applies and get_bin_efficiency(): " << worst << "\n";
  return worst > 1e-4 ? 1 : 0;
}
