// replay of candidate finding F21 (C16): after replacing the attenuation image by one with another voxel size and calling set_up()
// again, the simulated scatter must equal the result of a freshly configured simulation with that image.
// With the default settings (zoom factors and sizes of the scatter-point image = -1 = "choose them from the image and the template"),
// the first set_up() stores the factors it chose for the FIRST image in the settings themselves; set_up() for the second image
// re-uses them instead of choosing again.
#include "stir/scatter/SingleScatterSimulation.h"
#include "stir/ProjDataInfoCylindricalNoArcCorr.h"
#include "stir/ProjDataInMemory.h"
#include "stir/Scanner.h"
#include "stir/VoxelsOnCartesianGrid.h"
#include "stir/Shape/EllipsoidalCylinder.h"
#include "stir/SegmentByView.h"
#include "stir/IndexRange3D.h"
#include <cmath>
#include <iostream>
using namespace stir;

struct Setup
{
  shared_ptr<Scanner> scanner;
  shared_ptr<ProjDataInfo> pdi;
  shared_ptr<VoxelsOnCartesianGrid<float>> water, act;
};

static shared_ptr<ExamInfo>
exam(float lo, float hi)
{
  shared_ptr<ExamInfo> e(new ExamInfo);
  e->set_low_energy_thres(lo);
  e->set_high_energy_thres(hi);
  e->imaging_modality = ImagingModality::PT;
  return e;
}

static void
configure(SingleScatterSimulation& sss, const Setup& s, const ExamInfo& e)
{
  sss.set_exam_info(e);
  sss.set_density_image_sptr(s.water);
  sss.set_activity_image_sptr(s.act);
  sss.set_randomly_place_scatter_points(false);
  sss.set_template_proj_data_info(*s.pdi);
  sss.downsample_scanner(4, 32);
  // scatter-point image: left at the defaults, i.e. chosen by set_up()
}

static shared_ptr<ProjDataInMemory>
run(SingleScatterSimulation& sss)
{
  shared_ptr<ProjDataInMemory> out(new ProjDataInMemory(sss.get_exam_info_sptr(), sss.get_template_proj_data_info_sptr()));
  sss.set_output_proj_data_sptr(out);
  if (sss.set_up() != Succeeded::yes || sss.process_data() != Succeeded::yes)
    {
      std::cerr << "simulation failed\n";
      exit(2);
    }
  return out;
}

int
main()
{
  Setup s;
  s.scanner.reset(new Scanner(Scanner::E931));
  if (!s.scanner->has_energy_information())
    {
      s.scanner->set_reference_energy(511);
      s.scanner->set_energy_resolution(0.34f);
    }
  s.pdi.reset(ProjDataInfo::ProjDataInfoCTI(
      s.scanner, 1, 0, s.scanner->get_num_detectors_per_ring() / 2, s.scanner->get_max_num_non_arccorrected_bins(), false));
  shared_ptr<ExamInfo> e1 = exam(450, 650), e2 = exam(350, 650);
  shared_ptr<VoxelsOnCartesianGrid<float>> tmpl(new VoxelsOnCartesianGrid<float>(e1, *s.pdi));
  CartesianCoordinate3D<int> min_ind, max_ind;
  tmpl->get_regular_range(min_ind, max_ind);
  CartesianCoordinate3D<float> centre(
      (tmpl->get_physical_coordinates_for_indices(min_ind) + tmpl->get_physical_coordinates_for_indices(max_ind)) / 2.F);
  EllipsoidalCylinder phantom(50.F, 50.F, 50.F, centre);
  CartesianCoordinate3D<int> num_samples(2, 2, 2);
  s.water.reset(tmpl->clone());
  phantom.construct_volume(*s.water, num_samples);
  *s.water *= 9.687E-02F;
  s.act.reset(tmpl->clone());
  phantom.construct_volume(*s.act, num_samples);

  // a second attenuation/activity image pair: the same object on a grid with 1.5 times larger voxels in x and y
  shared_ptr<VoxelsOnCartesianGrid<float>> water2, act2;
  {
    CartesianCoordinate3D<float> vs = s.water->get_voxel_size();
    vs.x() *= 1.5F;
    vs.y() *= 1.5F;
    const int nx = s.water->get_x_size() * 2 / 3 / 2 * 2 + 1;
    shared_ptr<VoxelsOnCartesianGrid<float>> t2(new VoxelsOnCartesianGrid<float>(
        e1, IndexRange3D(0, s.water->get_z_size() - 1, -(nx / 2), nx / 2, -(nx / 2), nx / 2), s.water->get_origin(), vs));
    water2.reset(t2->clone());
    phantom.construct_volume(*water2, num_samples);
    *water2 *= 9.687E-02F;
    act2.reset(t2->clone());
    phantom.construct_volume(*act2, num_samples);
  }
  // re-used object: first image pair, run; then the second image pair, set_up, run
  SingleScatterSimulation reused;
  configure(reused, s, *e1);
  run(reused);
  reused.set_density_image_sptr(water2);
  reused.set_activity_image_sptr(act2);
  shared_ptr<ProjDataInMemory> a = run(reused);
  // fresh object with the second image pair
  Setup s2 = s;
  s2.water = water2;
  s2.act = act2;
  SingleScatterSimulation fresh;
  configure(fresh, s2, *e1);
  shared_ptr<ProjDataInMemory> b = run(fresh);
  std::cout << "number of voxels of the scatter-point image, re-used: " << reused.get_attenuation_image_for_scatter_points().size_all()
            << "  fresh: " << fresh.get_attenuation_image_for_scatter_points().size_all() << "\n";

  const SegmentByView<float> sa = a->get_segment_by_view(0), sb = b->get_segment_by_view(0);
  double maxdiff = 0, scale = 0;
  auto ia = sa.begin_all();
  for (auto ib = sb.begin_all(); ib != sb.end_all(); ++ia, ++ib)
    {
      maxdiff = std::max(maxdiff, std::fabs(double(*ia) - *ib));
      scale = std::max(scale, std::fabs(double(*ib)));
    }
  std::cout << "attenuation image replaced by one with 1.5x larger x/y voxels, set_up, process_data: max |re-used - fresh| = " << maxdiff
            << " (scale " << scale << ")\n";
  return maxdiff > 1e-3 * scale ? 1 : 0;
}
