#!/bin/bash
# runs every registered thorough check and prints its exit code and last line
cd "$(dirname "$0")/.."
[ -x tools/stirfacts/stirfacts ] || make -C tools/stirfacts >/dev/null 2>&1
for p in $(python3 -c "import json;print(' '.join(c['property_id'] for c in json.load(open('MANIFEST.json'))['checks']))"); do
  out=$(./check $p --tier thorough 2>&1); code=$?
  echo "$p exit=$code $(echo "$out" | tail -1)"
  echo "$out" | grep -E "ANALYSIS-BROKEN|VIOLATION" | head -5
done
