#!/usr/bin/env python3-vt
"""Automatic behaviour-preserving variants of every function a rule module looks at (robustness of the rules against
refactors that do not change behaviour; DESIGN.md 4.4).

usage: autoequiv.py <PROP> [--transform rename|preinc|noop|parens|unconst|braces|ltplus|eqswap|compound] [--bisect]

  rename : every local variable and parameter of every analysed function body gets a new name (whole-word replacement inside
           the function's line range, never after '.', '->' or '::'; names that coincide with a member/callee name used in the
           same function are left alone)
  noop   : a no-op statement is inserted as first statement of every analysed function body
  preinc : `x++` -> `++x` in for-loop increments (textual `; x++)` -> `; ++x)`)

The variant files are scratch copies analysed through the extractor's --map option; /repo is never modified. A variant that does
not parse is a defect of this generator, not of a rule: with --bisect the functions are then transformed one at a time.
Expected: exit 0 (SILENT).  exit 1 = FALSE ALARM of a rule; exit 2 = shape not recognised (tolerated by the both-ways self-test but
reported here so that the recogniser can be widened).
"""
import json
import os
import re
import shutil
import subprocess
import sys
import tempfile

HERE = os.path.dirname(os.path.dirname(os.path.abspath(__file__)))
KEYWORDS = set("this int float double bool char long short unsigned signed const auto return if else for while do".split())


def collect(prop):
    dump = tempfile.mktemp(prefix="funcs-", suffix=".jsonl")
    env = dict(os.environ, VERIF_DUMP_FUNCS=dump)
    subprocess.run([os.path.join(HERE, "check"), prop], capture_output=True, text=True, cwd=HERE, env=env)
    fns = {}
    if os.path.exists(dump):
        for l in open(dump):
            d = json.loads(l)
            if not d["file"].startswith("/repo/"):
                continue
            k = (d["file"], d["line"], d["endline"])
            if k in fns:
                fns[k]["locals"] = sorted(set(fns[k]["locals"]) | set(d["locals"]))
                fns[k]["other"] = sorted(set(fns[k]["other"]) | set(d["other"]))
            else:
                fns[k] = d
        os.unlink(dump)
    return list(fns.values())


def t_rename(lines, fn):
    names = [n for n in fn["locals"] if n not in fn["other"] and n not in KEYWORDS and re.fullmatch(r"[A-Za-z_]\w*", n)]
    if not names:
        return 0
    pat = re.compile(r"(?<![\w.>:])(?<!->)(%s)(?!\w)(?!\s*::)" % "|".join(re.escape(n) for n in sorted(names, key=len, reverse=True)))
    cnt = 0
    for i in range(fn["line"] - 1, min(fn["endline"], len(lines))):
        l = lines[i]
        if l.lstrip().startswith("#") and "pragma" not in l:
            continue
        # leave string literals and comments alone (roughly): split on quotes
        parts = re.split(r'("(?:[^"\\]|\\.)*")', l)
        for j in range(0, len(parts), 2):
            code = parts[j]
            c = code.find("//")
            tail = ""
            if c >= 0:
                code, tail = code[:c], code[c:]
            code, k = pat.subn(lambda m: m.group(1) + "_q", code)
            cnt += k
            parts[j] = code + tail
            if tail:
                break
        lines[i] = "".join(parts)
    return cnt


def t_noop(lines, fn):
    # first '{' at or after the function's first line that ends a line (function body start)
    for i in range(fn["line"] - 1, min(fn["endline"], len(lines))):
        if lines[i].rstrip().endswith("{") and not lines[i].lstrip().startswith(("namespace", "//")):
            lines[i] = lines[i].rstrip("\n") + " { int verif_noop_q = 0; (void)verif_noop_q; }\n"
            return 1
        if lines[i].rstrip().endswith(";"):
            return 0
    return 0


def t_preinc(lines, fn):
    cnt = 0
    for i in range(fn["line"] - 1, min(fn["endline"], len(lines))):
        new, k = re.subn(r";\s*(\w+)\+\+\s*\)", r"; ++\1)", lines[i])
        lines[i] = new
        cnt += k
    return cnt


def t_parens(lines, fn):
    """redundant parentheses: `return E;` -> `return (E);` and `x = E;` -> `x = (E);` for one-line statements"""
    cnt = 0
    for i in range(fn["line"] - 1, min(fn["endline"], len(lines))):
        l = lines[i]
        if l.lstrip().startswith(("#", "//")) or '"' in l:
            continue
        m = re.match(r"^(\s*return\s+)([^;{}]+);(\s*(//.*)?)$", l.rstrip("\n"))
        if m and m.group(2).strip() and not m.group(2).strip().startswith("{"):
            lines[i] = "%s(%s);%s\n" % (m.group(1), m.group(2), m.group(3))
            cnt += 1
            continue
        m = re.match(r"^(\s*(?:const\s+)?(?:int|float|double|bool|unsigned)\s+\w+\s*=\s*)([^;{}]+);(\s*(//.*)?)$", l.rstrip("\n"))
        if m and "(" in m.group(2) and m.group(2).count("(") == m.group(2).count(")"):
            lines[i] = "%s(%s);%s\n" % (m.group(1), m.group(2), m.group(3))
            cnt += 1
    return cnt


def t_unconst(lines, fn):
    """`const int x = ...` -> `int x = ...` for locals of builtin type (skips the function's own signature lines)"""
    cnt = 0
    depth_seen = False
    for i in range(fn["line"] - 1, min(fn["endline"], len(lines))):
        l = lines[i]
        if not depth_seen:
            if "{" in l:
                depth_seen = True
            continue
        m = re.match(r"^(\s*)const\s+((?:unsigned\s+)?(?:int|float|double|bool|long)\s+\w+\s*(=|\())", l)
        if m and "static" not in l:
            lines[i] = m.group(1) + l[m.end(1) + len("const") :].lstrip()
            lines[i] = m.group(1) + lines[i] if not lines[i].startswith(m.group(1)) else lines[i]
            cnt += 1
    return cnt


def _balanced(t):
    return t.count("(") == t.count(")")


def t_braces(lines, fn):
    """`if (c)\n  stmt;` -> `if (c)\n  { stmt; }` for single-line bodies of if/for/while/else (no-op for the compiler)"""
    cnt = 0
    i = fn["line"] - 1
    end = min(fn["endline"], len(lines))
    while i < end - 1:
        l, nxt = lines[i], lines[i + 1]
        m = re.match(r"^(\s*)(?:(?:if|for|while)\s*\(.*\)|else)\s*$", l.rstrip("\n"))
        if m and _balanced(l) and not l.lstrip().startswith(("#", "//")) and '"' not in nxt and "//" not in nxt:
            body = nxt.rstrip("\n")
            mb = re.match(r"^(\s+)([^{};#][^{};]*;)\s*$", body)
            if mb and len(mb.group(1)) > len(m.group(1)) and _balanced(body) and not mb.group(2).lstrip().startswith(("if", "for", "while", "else", "do", "case", "default")):
                lines[i + 1] = "%s{ %s }\n" % (mb.group(1), mb.group(2))
                cnt += 1
                i += 2
                continue
        i += 1
    return cnt


def t_ltplus(lines, fn):
    """for-loop bound `i <= E;` -> `i < E + 1;` when E is a simple expression (integer loops): the realistic respelling of an inclusive bound"""
    cnt = 0
    for i in range(fn["line"] - 1, min(fn["endline"], len(lines))):
        l = lines[i]
        if "for (" not in l or '"' in l:
            continue
        new, k = re.subn(r"(for \(int \w+ = [^;]+; (\w+) <)= ([\w\.\->]+(?:\(\))?)(; (?:\+\+\2|\2\+\+)\))", r"\g<1>\3 + 1\4", l)
        if k:
            lines[i] = new
            cnt += k
    return cnt


def t_eqswap(lines, fn):
    """`X == 0` -> `0 == X` and `X != 0` -> `0 != X` (numeric literal on the right, X a simple operand) inside if/while conditions"""
    cnt = 0
    for i in range(fn["line"] - 1, min(fn["endline"], len(lines))):
        l = lines[i]
        if l.lstrip().startswith(("#", "//")) or '"' in l or "'" in l:
            continue
        if not re.search(r"\b(if|while)\s*\(", l):
            continue
        new, k = re.subn(r"(?<![\w\.\)\]>\*&!~+-])((?:this->)?[A-Za-z_]\w*(?:\(\))?) (==|!=) (-?\d+(?:\.\d*)?[fFuUlL]*)(?=\s*(?:\)|&&|\|\|))", r"\3 \2 \1", l)
        if k:
            lines[i] = new
            cnt += k
    return cnt


def t_compound(lines, fn):
    """`x += E;` -> `x = x + (E);` (also -=, *=) for locals of builtin arithmetic type declared in the same function"""
    cnt = 0
    lo, hi = fn["line"] - 1, min(fn["endline"], len(lines))
    body = "".join(lines[lo:hi])
    builtin = set(re.findall(r"\b(?:int|float|double|long|unsigned|std::size_t|size_t)\s+([A-Za-z_]\w*)\s*(?:=|;|\()", body))
    builtin -= set(re.findall(r"\b(?:int|float|double|long|unsigned)\s*[&\*]\s*([A-Za-z_]\w*)", body))
    if not builtin:
        return 0
    for i in range(lo, hi):
        l = lines[i]
        if l.lstrip().startswith(("#", "//")) or '"' in l or "for (" in l or "pragma" in l:
            continue
        m = re.match(r"^(\s*)([A-Za-z_]\w*) (\+|-|\*)= ([^;{}]+);(\s*(//.*)?)$", l.rstrip("\n"))
        if m and m.group(2) in builtin and m.group(4).count("(") == m.group(4).count(")"):
            lines[i] = "%s%s = %s %s (%s);%s\n" % (m.group(1), m.group(2), m.group(2), m.group(3), m.group(4), m.group(5))
            cnt += 1
    return cnt


def t_hoistcond(lines, fn):
    """`if (C)` -> `const bool h = (C); if (h)` for an if that is a statement of a compound block (the previous code line ends with
    `;`, `{` or `}`), on one line, with a condition free of assignments: the edit that hid a flag from the path explorer in seeds
    C05-6 and C07-5.  Functions with a switch are skipped (a declaration may not be jumped over by a case label)."""
    cnt = 0
    lo, hi = fn["line"] - 1, min(fn["endline"], len(lines))
    if any(re.search(r"\b(switch|case|default|goto)\b", lines[i]) for i in range(lo, hi)):
        return 0
    seen_body = False
    for i in range(lo, hi):
        l = lines[i]
        if not seen_body:
            if "{" in l:
                seen_body = True
            continue
        m = re.match(r"^(\s*)if \((.*)\)\s*$", l.rstrip("\n"))
        if not m or not _balanced(m.group(2)) or '"' in l or "//" in l:
            continue
        cond = m.group(2)
        if re.search(r"(?<![=!<>])=(?!=)", cond) or "constexpr" in l or "," in cond and "(" not in cond:
            continue
        # a bare object (smart pointer, stream) converts to bool only contextually: `const bool h = (p);` does not compile
        if not re.search(r"[<>!&|]|==", cond.replace("->", ".")):
            continue
        # previous code line
        j = i - 1
        while j >= lo and (not lines[j].strip() or lines[j].lstrip().startswith(("//", "#", "/*", "*"))):
            j -= 1
        if j < lo or lines[j].lstrip().startswith("#") or not lines[j].rstrip().endswith((";", "{", "}")):
            continue
        if any(lines[k].lstrip().startswith("#") for k in range(max(lo, i - 3), min(hi, i + 3))):
            continue
        # the if must not have an else-if partner that relies on textual position: fine, the declaration precedes the whole chain
        name = "verif_hc_%d" % (i + 1)
        lines[i] = "%sconst bool %s = (%s); if (%s)\n" % (m.group(1), name, cond, name)
        cnt += 1
    return cnt


TRANSFORMS = {"hoistcond": t_hoistcond, "rename": t_rename, "noop": t_noop, "preinc": t_preinc, "parens": t_parens, "unconst": t_unconst, "braces": t_braces, "ltplus": t_ltplus, "eqswap": t_eqswap, "compound": t_compound}


def variant(fns, transform, scratch):
    byfile = {}
    for f in fns:
        byfile.setdefault(f["file"], []).append(f)
    maps = []
    total = 0
    for file, fl in byfile.items():
        lines = open(file).readlines()
        n = 0
        # inner functions (lambdas, local classes) overlap outer ones: transform each line range once, outermost first
        done = []
        for f in sorted(fl, key=lambda f: (f["line"], -f["endline"])):
            if any(a <= f["line"] and f["endline"] <= b for a, b in done):
                continue
            # merge the names of nested functions into the outer one
            inner = [g for g in fl if f["line"] <= g["line"] and g["endline"] <= f["endline"]]
            merged = dict(f)
            merged["locals"] = sorted(set().union(*[set(g["locals"]) for g in inner]))
            merged["other"] = sorted(set().union(*[set(g["other"]) for g in inner]))
            n += TRANSFORMS[transform](lines, merged)
            done.append((f["line"], f["endline"]))
        if n:
            dst = os.path.join(scratch, os.path.relpath(file, "/repo"))
            os.makedirs(os.path.dirname(dst), exist_ok=True)
            with open(dst, "w") as o:
                o.writelines(lines)
            maps.append("%s=%s" % (file, dst))
            total += n
    return maps, total


def run(prop, maps):
    r = subprocess.run([os.path.join(HERE, "check"), prop, "--overlay", ",".join(maps)], capture_output=True, text=True, cwd=HERE)
    noparse = "unit did not parse" in r.stdout
    return r.returncode, noparse, r.stdout


def main():
    prop = sys.argv[1]
    transform = "rename"
    if "--transform" in sys.argv:
        transform = sys.argv[sys.argv.index("--transform") + 1]
    bisect = "--bisect" in sys.argv
    fns = collect(prop)
    scratch = tempfile.mkdtemp(prefix="stir-autoequiv-")
    try:
        maps, total = variant(fns, transform, scratch)
        code, noparse, out = run(prop, maps)
        tag = {0: "SILENT", 1: "FALSE-ALARM", 2: "UNRECOGNISED"}.get(code, "?")
        if noparse:
            tag = "VARIANT-DOES-NOT-PARSE"
        print("%s %s %s: %d functions, %d edits in %d files" % (tag, prop, transform, len(fns), total, len(maps)))
        if code != 0:
            print("\n".join(l for l in out.splitlines() if l.startswith(("  ", "ANALYSIS-BROKEN", "VIOLATION")))[:3000])
        if code != 0 and bisect:
            for f in sorted(fns, key=lambda f: (f["file"], f["line"])):
                shutil.rmtree(scratch, ignore_errors=True)
                os.makedirs(scratch)
                m1, t1 = variant([f], transform, scratch)
                if not t1:
                    continue
                c1, np1, o1 = run(prop, m1)
                if c1 != 0:
                    print("  -> %s %s:%d %s%s" % ({1: "FALSE-ALARM", 2: "UNRECOGNISED"}.get(c1), f["file"], f["line"], f["qn"], " (variant does not parse)" if np1 else ""))
                    if not np1:
                        print("\n".join("       " + l for l in o1.splitlines() if l.startswith(("  ", "ANALYSIS-BROKEN")))[:1500])
        return 0 if code == 0 else 1
    finally:
        shutil.rmtree(scratch, ignore_errors=True)


if __name__ == "__main__":
    sys.exit(main())
