// stirfacts: libTooling extractor for the STIR static-verification framework.
//
// It is deliberately dumb: it resolves names/callees/types with clang's semantic analysis and serialises
//   * a typed AST + clang::CFG for every function definition whose qualified name matches one of the
//     --fn regexes (templates: the pattern and every instantiation present in the unit),
//   * class facts (bases, fields, methods) for every record matching --rec,
//   * enum definitions matching --enum,
//   * with --calls: a compact call/field-effect summary for EVERY function definition located under --root
// as one JSON file.  All reasoning happens in the Python rule engine.
//
// usage: stirfacts --out F.json [--fn RE]... [--rec RE]... [--enum RE]... [--calls] [--root /repo/src]
//                  [--map /repo/src/x.cxx=/scratch/x.cxx]... -- <clang args incl. source file>

#include "clang/AST/ASTConsumer.h"
#include "clang/AST/ASTContext.h"
#include "clang/AST/RecursiveASTVisitor.h"
#include "clang/AST/StmtOpenMP.h"
#include "clang/AST/OpenMPClause.h"
#include "clang/AST/ExprCXX.h"
#include "clang/AST/ExprOpenMP.h"
#include "clang/AST/ParentMapContext.h"
#include "clang/Analysis/CFG.h"
#include "clang/Basic/SourceManager.h"
#include "clang/Frontend/CompilerInstance.h"
#include "clang/Frontend/FrontendAction.h"
#include "clang/Tooling/Tooling.h"
#include "clang/Tooling/CompilationDatabase.h"
#include "llvm/Support/JSON.h"
#include "llvm/Support/MemoryBuffer.h"
#include "llvm/Support/Regex.h"
#include "llvm/Support/raw_ostream.h"
#include <map>
#include <set>
#include <string>
#include <vector>

using namespace clang;
namespace json = llvm::json;

namespace {

struct Options
{
  std::vector<std::string> fn_res, rec_res, enum_res, file_res;
  bool calls = false;
  std::string root = "/repo/src";
  std::string out;
  std::vector<std::pair<std::string, std::string>> maps; // virtual path -> file providing the content
};
Options G;

struct Matchers
{
  std::vector<llvm::Regex> fn, rec, en, files;
  void build()
  {
    for (auto& s : G.fn_res)
      fn.emplace_back("^(" + s + ")$");
    for (auto& s : G.rec_res)
      rec.emplace_back("^(" + s + ")$");
    for (auto& s : G.enum_res)
      en.emplace_back("^(" + s + ")$");
    for (auto& s : G.file_res)
      files.emplace_back("^(" + s + ")$");
  }
  static bool any(std::vector<llvm::Regex>& v, const std::string& s)
  {
    for (auto& r : v)
      if (r.match(s))
        return true;
    return false;
  }
};

// qualified name without template arguments
std::string plainQualifiedName(const NamedDecl* D)
{
  std::vector<std::string> parts;
  std::string self;
  if (D->getDeclName().isIdentifier())
    self = D->getName().str();
  else
    self = D->getDeclName().getAsString();
  parts.push_back(self);
  const DeclContext* DC = D->getDeclContext();
  while (DC)
    {
      if (const auto* ND = dyn_cast<NamespaceDecl>(DC))
        {
          if (!ND->isAnonymousNamespace() && !ND->isInline())
            parts.push_back(ND->getName().str());
          else if (ND->isAnonymousNamespace())
            parts.push_back("(anon)");
        }
      else if (const auto* RD = dyn_cast<RecordDecl>(DC))
        {
          if (RD->getIdentifier())
            parts.push_back(RD->getName().str());
          else
            parts.push_back("(anonrec)");
        }
      else if (const auto* FD = dyn_cast<FunctionDecl>(DC))
        {
          parts.push_back(FD->getDeclName().getAsString());
        }
      DC = DC->getParent();
    }
  std::string r;
  for (auto it = parts.rbegin(); it != parts.rend(); ++it)
    {
      if (!r.empty())
        r += "::";
      r += *it;
    }
  return r;
}

class Dumper
{
public:
  ASTContext& Ctx;
  SourceManager& SM;
  PrintingPolicy PP;
  std::map<const Decl*, int> declIds;
  // per function
  std::map<const Stmt*, int> stmtIds;
  int nextStmt = 0;

  explicit Dumper(ASTContext& C)
      : Ctx(C),
        SM(C.getSourceManager()),
        PP(C.getLangOpts())
  {
    PP.SuppressTagKeyword = true;
    PP.Bool = true;
    PP.SuppressUnwrittenScope = true;
  }

  int declId(const Decl* D)
  {
    D = D->getCanonicalDecl();
    auto it = declIds.find(D);
    if (it != declIds.end())
      return it->second;
    int id = (int)declIds.size() + 1;
    declIds[D] = id;
    return id;
  }

  std::string typeStr(QualType T) { return T.isNull() ? std::string("?") : T.getAsString(PP); }

  std::string fileOf(SourceLocation L)
  {
    if (L.isInvalid())
      return "";
    L = SM.getExpansionLoc(L);
    return SM.getFilename(L).str();
  }
  int lineOf(SourceLocation L)
  {
    if (L.isInvalid())
      return 0;
    return (int)SM.getExpansionLineNumber(L);
  }

  json::Object fnRef(const FunctionDecl* FD)
  {
    json::Object o;
    o["qn"] = plainQualifiedName(FD);
    std::string sig;
    for (unsigned i = 0; i < FD->getNumParams(); ++i)
      {
        if (i)
          sig += ",";
        sig += typeStr(FD->getParamDecl(i)->getType());
      }
    o["sig"] = sig;
    o["ret"] = typeStr(FD->getReturnType());
    if (const auto* MD = dyn_cast<CXXMethodDecl>(FD))
      {
        o["cls"] = plainQualifiedName(MD->getParent());
        if (MD->isVirtual())
          o["virtual"] = true;
        if (MD->isConst())
          o["const"] = true;
        if (MD->isStatic())
          o["static"] = true;
      }
    if (FD->isNoReturn())
      o["noreturn"] = true;
    return o;
  }

  static const Stmt* skip(const Stmt* S)
  {
    while (S)
      {
        if (const auto* E = dyn_cast<ImplicitCastExpr>(S))
          S = E->getSubExpr();
        else if (const auto* E = dyn_cast<ParenExpr>(S))
          S = E->getSubExpr();
        else if (const auto* E = dyn_cast<ExprWithCleanups>(S))
          S = E->getSubExpr();
        else if (const auto* E = dyn_cast<MaterializeTemporaryExpr>(S))
          S = E->getSubExpr();
        else if (const auto* E = dyn_cast<CXXBindTemporaryExpr>(S))
          S = E->getSubExpr();
        else if (const auto* E = dyn_cast<ConstantExpr>(S))
          S = E->getSubExpr();
        else if (const auto* E = dyn_cast<SubstNonTypeTemplateParmExpr>(S))
          S = E->getReplacement();
        else if (const auto* E = dyn_cast<CXXDefaultArgExpr>(S))
          S = E->getExpr();
        else if (const auto* E = dyn_cast<CXXDefaultInitExpr>(S))
          S = E->getExpr();
        else
          break;
      }
    return S;
  }

  int idOf(const Stmt* S)
  {
    auto it = stmtIds.find(S);
    if (it != stmtIds.end())
      return it->second;
    return -1;
  }

  // assign ids: wrappers share the id of what they wrap
  int assignId(const Stmt* S, const Stmt* core)
  {
    int id = nextStmt++;
    const Stmt* W = S;
    while (W && W != core)
      {
        stmtIds[W] = id;
        // step one wrapper
        const Stmt* N = nullptr;
        if (const auto* E = dyn_cast<ImplicitCastExpr>(W))
          N = E->getSubExpr();
        else if (const auto* E = dyn_cast<ParenExpr>(W))
          N = E->getSubExpr();
        else if (const auto* E = dyn_cast<ExprWithCleanups>(W))
          N = E->getSubExpr();
        else if (const auto* E = dyn_cast<MaterializeTemporaryExpr>(W))
          N = E->getSubExpr();
        else if (const auto* E = dyn_cast<CXXBindTemporaryExpr>(W))
          N = E->getSubExpr();
        else if (const auto* E = dyn_cast<ConstantExpr>(W))
          N = E->getSubExpr();
        else if (const auto* E = dyn_cast<SubstNonTypeTemplateParmExpr>(W))
          N = E->getReplacement();
        else if (const auto* E = dyn_cast<CXXDefaultArgExpr>(W))
          N = E->getExpr();
        else if (const auto* E = dyn_cast<CXXDefaultInitExpr>(W))
          N = E->getExpr();
        W = N;
      }
    stmtIds[core] = id;
    return id;
  }

  void declRefInfo(json::Object& o, const ValueDecl* VD)
  {
    if (VD->getDeclName().isIdentifier())
      o["n"] = VD->getName().str();
    else
      o["n"] = VD->getDeclName().getAsString();
    if (isa<ParmVarDecl>(VD))
      {
        o["dk"] = "param";
        o["d"] = declId(VD);
      }
    else if (const auto* V = dyn_cast<VarDecl>(VD))
      {
        if (V->isLocalVarDecl())
          {
            o["dk"] = V->isStaticLocal() ? "staticlocal" : "local";
            o["d"] = declId(VD);
          }
        else
          {
            o["dk"] = V->isStaticDataMember() ? "staticmember" : "global";
            o["qn"] = plainQualifiedName(VD);
          }
        // constant value, when clang can evaluate it
        if (V->getType().isConstQualified() && V->getType()->isIntegralOrEnumerationType() && V->hasInit() &&
            !V->getInit()->isValueDependent())
          {
            if (const APValue* AV = V->evaluateValue())
              if (AV->isInt())
                o["cv"] = AV->getInt().getExtValue();
          }
      }
    else if (const auto* F = dyn_cast<FieldDecl>(VD))
      {
        o["dk"] = "field";
        o["qn"] = plainQualifiedName(F);
      }
    else if (const auto* EC = dyn_cast<EnumConstantDecl>(VD))
      {
        o["dk"] = "enumconst";
        o["qn"] = plainQualifiedName(EC);
        o["cv"] = EC->getInitVal().getExtValue();
      }
    else if (const auto* FD = dyn_cast<FunctionDecl>(VD))
      {
        o["dk"] = "function";
        o["fn"] = fnRef(FD);
      }
    else if (isa<BindingDecl>(VD))
      {
        o["dk"] = "binding";
        o["d"] = declId(VD);
      }
    else
      {
        o["dk"] = "other";
        o["qn"] = plainQualifiedName(VD);
      }
  }

  json::Value varDecl(const VarDecl* V)
  {
    json::Object o;
    o["k"] = "VarDecl";
    o["i"] = nextStmt++;
    o["n"] = V->getName().str();
    o["d"] = declId(V);
    o["t"] = typeStr(V->getType());
    o["l"] = lineOf(V->getLocation());
    if (V->isStaticLocal())
      o["static"] = true;
    json::Array ch;
    if (V->hasInit())
      ch.push_back(stmt(V->getInit()));
    o["c"] = std::move(ch);
    return json::Value(std::move(o));
  }

  json::Value stmt(const Stmt* S0)
  {
    if (!S0)
      {
        json::Object o;
        o["k"] = "Null";
        o["i"] = nextStmt++;
        return json::Value(std::move(o));
      }
    const Stmt* S = skip(S0);
    if (!S)
      {
        json::Object o;
        o["k"] = "Null";
        o["i"] = nextStmt++;
        return json::Value(std::move(o));
      }
    json::Object o;
    int id = assignId(S0, S);
    o["i"] = id;
    o["k"] = S->getStmtClassName();
    o["l"] = lineOf(S->getBeginLoc());
    // an argument the caller did not write (default argument of the callee): the expression lives in the callee's declaration
    for (const Stmt* W = S0; W && W != S;)
      {
        if (isa<CXXDefaultArgExpr>(W))
          {
            o["defarg"] = true;
            break;
          }
        const Stmt* N = nullptr;
        if (const auto* E = dyn_cast<ImplicitCastExpr>(W))
          N = E->getSubExpr();
        else if (const auto* E = dyn_cast<ParenExpr>(W))
          N = E->getSubExpr();
        else if (const auto* E = dyn_cast<ExprWithCleanups>(W))
          N = E->getSubExpr();
        else if (const auto* E = dyn_cast<MaterializeTemporaryExpr>(W))
          N = E->getSubExpr();
        else if (const auto* E = dyn_cast<CXXBindTemporaryExpr>(W))
          N = E->getSubExpr();
        else if (const auto* E = dyn_cast<ConstantExpr>(W))
          N = E->getSubExpr();
        W = N;
      }
    json::Array ch;
    bool defaultChildren = true;

    if (const auto* E = dyn_cast<Expr>(S))
      {
        o["t"] = typeStr(E->getType());
      }

    if (const auto* E = dyn_cast<DeclRefExpr>(S))
      {
        declRefInfo(o, E->getDecl());
      }
    else if (const auto* E = dyn_cast<MemberExpr>(S))
      {
        const ValueDecl* MD = E->getMemberDecl();
        if (MD->getDeclName().isIdentifier())
          o["n"] = MD->getName().str();
        else
          o["n"] = MD->getDeclName().getAsString();
        o["qn"] = plainQualifiedName(MD);
        o["arrow"] = E->isArrow();
        if (const auto* FDm = dyn_cast<FieldDecl>(MD))
          {
            o["mk"] = "field";
            // const integral member with an in-class initialiser: record the constant
            if (FDm->getType().isConstQualified() && FDm->getType()->isIntegralOrEnumerationType() && FDm->hasInClassInitializer()
                && FDm->getInClassInitializer() && !FDm->getInClassInitializer()->isValueDependent())
              {
                Expr::EvalResult R;
                if (FDm->getInClassInitializer()->EvaluateAsInt(R, Ctx))
                  o["cv"] = R.Val.getInt().getExtValue();
              }
          }
        else if (isa<CXXMethodDecl>(MD))
          o["mk"] = "method";
        else if (isa<VarDecl>(MD))
          o["mk"] = "staticmember";
        else
          o["mk"] = "other";
      }
    else if (isa<CXXThisExpr>(S))
      {
      }
    else if (const auto* E = dyn_cast<IntegerLiteral>(S))
      {
        o["v"] = E->getValue().getLimitedValue();
      }
    else if (const auto* E = dyn_cast<FloatingLiteral>(S))
      {
        o["v"] = E->getValueAsApproximateDouble();
      }
    else if (const auto* E = dyn_cast<CXXBoolLiteralExpr>(S))
      {
        o["v"] = E->getValue();
      }
    else if (const auto* E = dyn_cast<clang::StringLiteral>(S))
      {
        if (E->getCharByteWidth() == 1)
          o["v"] = E->getString().str();
      }
    else if (const auto* E = dyn_cast<CharacterLiteral>(S))
      {
        o["v"] = (int64_t)E->getValue();
      }
    else if (const auto* E = dyn_cast<UnaryOperator>(S))
      {
        o["op"] = UnaryOperator::getOpcodeStr(E->getOpcode()).str();
        if (E->isPostfix())
          o["postfix"] = true;
      }
    else if (const auto* E = dyn_cast<BinaryOperator>(S))
      {
        o["op"] = E->getOpcodeStr().str();
      }
    else if (const auto* E = dyn_cast<CXXOperatorCallExpr>(S))
      {
        o["op"] = getOperatorSpelling(E->getOperator());
        if (const FunctionDecl* FD = E->getDirectCallee())
          o["fn"] = fnRef(FD);
        // children: args only (arg0 is the object for member operators)
        defaultChildren = false;
        for (const Expr* A : E->arguments())
          ch.push_back(stmt(A));
      }
    else if (const auto* E = dyn_cast<CXXMemberCallExpr>(S))
      {
        if (const CXXMethodDecl* MD = E->getMethodDecl())
          o["fn"] = fnRef(MD);
        // children: [object, args...]
        defaultChildren = false;
        const Expr* callee = E->getCallee()->IgnoreParenImpCasts();
        if (const auto* ME = dyn_cast<MemberExpr>(callee))
          {
            ch.push_back(stmt(ME->getBase()));
            o["arrow"] = ME->isArrow();
            if (ME->hasQualifier())
              o["qualified"] = true;
            stmtIds[ME] = id;
          }
        else
          {
            ch.push_back(stmt(callee)); // pointer-to-member call etc.
            o["indirect"] = true;
          }
        for (const Expr* A : E->arguments())
          ch.push_back(stmt(A));
        o["objcall"] = true;
      }
    else if (const auto* E = dyn_cast<CallExpr>(S))
      {
        defaultChildren = false;
        if (const FunctionDecl* FD = E->getDirectCallee())
          {
            o["fn"] = fnRef(FD);
            stmtIds[E->getCallee()] = id;
            stmtIds[E->getCallee()->IgnoreParenImpCasts()] = id;
          }
        else
          {
            // unresolved / indirect: keep callee expression as child 0
            o["indirect"] = true;
            ch.push_back(stmt(E->getCallee()));
          }
        for (const Expr* A : E->arguments())
          ch.push_back(stmt(A));
      }
    else if (const auto* E = dyn_cast<CXXConstructExpr>(S))
      {
        o["fn"] = fnRef(E->getConstructor());
        if (E->isElidable())
          o["elidable"] = true;
      }
    else if (const auto* E = dyn_cast<CXXNewExpr>(S))
      {
        o["at"] = typeStr(E->getAllocatedType());
        if (E->isArray())
          o["array"] = true;
      }
    else if (const auto* E = dyn_cast<ExplicitCastExpr>(S))
      {
        o["k"] = "Cast";
        o["ck"] = E->getStmtClassName();
      }
    else if (const auto* E = dyn_cast<CXXDependentScopeMemberExpr>(S))
      {
        o["n"] = E->getMember().getAsString();
        o["arrow"] = E->isArrow();
        defaultChildren = false;
        if (!E->isImplicitAccess())
          ch.push_back(stmt(E->getBase()));
      }
    else if (const auto* E = dyn_cast<UnresolvedMemberExpr>(S))
      {
        o["n"] = E->getMemberName().getAsString();
        defaultChildren = false;
        if (!E->isImplicitAccess())
          ch.push_back(stmt(E->getBase()));
      }
    else if (const auto* E = dyn_cast<UnresolvedLookupExpr>(S))
      {
        o["n"] = E->getName().getAsString();
      }
    else if (const auto* E = dyn_cast<DependentScopeDeclRefExpr>(S))
      {
        o["n"] = E->getDeclName().getAsString();
      }
    else if (const auto* E = dyn_cast<CXXUnresolvedConstructExpr>(S))
      {
        o["at"] = typeStr(E->getTypeAsWritten());
      }
    else if (const auto* E = dyn_cast<CXXTemporaryObjectExpr>(S))
      {
        (void)E;
      }
    else if (const auto* D = dyn_cast<DeclStmt>(S))
      {
        defaultChildren = false;
        for (const Decl* d : D->decls())
          {
            if (const auto* V = dyn_cast<VarDecl>(d))
              ch.push_back(varDecl(V));
          }
      }
    else if (const auto* I = dyn_cast<IfStmt>(S))
      {
        defaultChildren = false;
        // children: [cond, then, else?]; init / condvar prepended as "init"
        if (I->getInit())
          o["init"] = stmt(I->getInit());
        if (I->getConditionVariableDeclStmt())
          o["condvar"] = stmt(I->getConditionVariableDeclStmt());
        ch.push_back(stmt(I->getCond()));
        ch.push_back(stmt(I->getThen()));
        if (I->getElse())
          ch.push_back(stmt(I->getElse()));
      }
    else if (const auto* F = dyn_cast<ForStmt>(S))
      {
        defaultChildren = false;
        ch.push_back(stmt(F->getInit()));
        ch.push_back(stmt(F->getCond()));
        ch.push_back(stmt(F->getInc()));
        ch.push_back(stmt(F->getBody()));
      }
    else if (const auto* W = dyn_cast<WhileStmt>(S))
      {
        defaultChildren = false;
        ch.push_back(stmt(W->getCond()));
        ch.push_back(stmt(W->getBody()));
      }
    else if (const auto* W = dyn_cast<DoStmt>(S))
      {
        defaultChildren = false;
        ch.push_back(stmt(W->getBody()));
        ch.push_back(stmt(W->getCond()));
      }
    else if (const auto* R = dyn_cast<CXXForRangeStmt>(S))
      {
        defaultChildren = false;
        ch.push_back(varDecl(R->getLoopVariable()));
        ch.push_back(stmt(R->getRangeInit()));
        ch.push_back(stmt(R->getBody()));
      }
    else if (const auto* SW = dyn_cast<SwitchStmt>(S))
      {
        defaultChildren = false;
        ch.push_back(stmt(SW->getCond()));
        ch.push_back(stmt(SW->getBody()));
      }
    else if (const auto* C = dyn_cast<CaseStmt>(S))
      {
        defaultChildren = false;
        ch.push_back(stmt(C->getLHS()));
        Expr::EvalResult R;
        if (C->getLHS() && !C->getLHS()->isValueDependent() && C->getLHS()->EvaluateAsInt(R, Ctx))
          o["cv"] = R.Val.getInt().getExtValue();
        ch.push_back(stmt(C->getSubStmt()));
      }
    else if (const auto* C = dyn_cast<CXXCatchStmt>(S))
      {
        defaultChildren = false;
        if (C->getExceptionDecl())
          o["ct"] = typeStr(C->getCaughtType());
        ch.push_back(stmt(C->getHandlerBlock()));
      }
    else if (const auto* L = dyn_cast<LambdaExpr>(S))
      {
        defaultChildren = false;
        json::Array caps;
        for (const auto& cap : L->captures())
          {
            json::Object c;
            if (cap.capturesVariable())
              {
                c["n"] = cap.getCapturedVar()->getName().str();
                c["d"] = declId(cap.getCapturedVar());
              }
            else if (cap.capturesThis())
              c["n"] = "this";
            c["byref"] = cap.getCaptureKind() == LCK_ByRef;
            caps.push_back(std::move(c));
          }
        o["captures"] = std::move(caps);
        json::Array ps;
        if (const CXXMethodDecl* CM = L->getCallOperator())
          for (const ParmVarDecl* P : CM->parameters())
            {
              json::Object p;
              p["n"] = P->getName().str();
              p["d"] = declId(P);
              p["t"] = typeStr(P->getType());
              ps.push_back(std::move(p));
            }
        o["params"] = std::move(ps);
        ch.push_back(stmt(L->getBody()));
      }
    else if (const auto* D = dyn_cast<OMPExecutableDirective>(S))
      {
        defaultChildren = false;
        o["k"] = "OMP";
        o["omp"] = getOpenMPDirectiveName(D->getDirectiveKind()).str();
        if (const auto* CR = dyn_cast<OMPCriticalDirective>(D))
          o["name"] = CR->getDirectiveName().getAsString();
        json::Array clauses;
        for (const OMPClause* C : D->clauses())
          {
            if (!C)
              continue;
            json::Object c;
            c["ck"] = getOpenMPClauseName(C->getClauseKind()).str();
            json::Array vars;
            auto addVars = [&](auto* VC) {
              for (const Expr* VE : VC->varlists())
                {
                  const Expr* V = VE->IgnoreParenImpCasts();
                  json::Object vo;
                  if (const auto* DR = dyn_cast<DeclRefExpr>(V))
                    {
                      vo["n"] = DR->getDecl()->getName().str();
                      vo["d"] = declId(DR->getDecl());
                    }
                  else if (const auto* ME = dyn_cast<MemberExpr>(V))
                    vo["n"] = ME->getMemberDecl()->getName().str();
                  vars.push_back(std::move(vo));
                }
            };
            if (const auto* VC = dyn_cast<OMPSharedClause>(C))
              addVars(VC);
            else if (const auto* VC = dyn_cast<OMPPrivateClause>(C))
              addVars(VC);
            else if (const auto* VC = dyn_cast<OMPFirstprivateClause>(C))
              addVars(VC);
            else if (const auto* VC = dyn_cast<OMPLastprivateClause>(C))
              addVars(VC);
            else if (const auto* VC = dyn_cast<OMPReductionClause>(C))
              {
                addVars(VC);
                c["redop"] = VC->getNameInfo().getAsString();
              }
            else if (const auto* CC = dyn_cast<OMPCollapseClause>(C))
              {
                Expr::EvalResult R;
                if (CC->getNumForLoops() && CC->getNumForLoops()->EvaluateAsInt(R, Ctx))
                  c["n"] = R.Val.getInt().getExtValue();
              }
            else if (const auto* SC = dyn_cast<OMPScheduleClause>(C))
              c["sched"] = getOpenMPSimpleClauseTypeName(llvm::omp::OMPC_schedule, SC->getScheduleKind());
            else if (const auto* DC = dyn_cast<OMPDefaultClause>(C))
              c["default"] = (int)DC->getDefaultKind();
            c["vars"] = std::move(vars);
            clauses.push_back(std::move(c));
          }
        o["clauses"] = std::move(clauses);
        if (D->hasAssociatedStmt() && !D->isStandaloneDirective())
          {
            const Stmt* Raw = D->getRawStmt();
            // register captured wrappers so CFG element lookups work
            ch.push_back(stmt(Raw));
          }
      }
    else if (const auto* CS = dyn_cast<CapturedStmt>(S))
      {
        defaultChildren = false;
        ch.push_back(stmt(CS->getCapturedStmt()));
      }
    else if (const auto* IL = dyn_cast<InitListExpr>(S))
      {
        (void)IL;
      }
    else if (const auto* SE = dyn_cast<UnaryExprOrTypeTraitExpr>(S))
      {
        o["op"] = getTraitSpelling(SE->getKind());
        if (SE->isArgumentType())
          o["at"] = typeStr(SE->getArgumentType());
        Expr::EvalResult R;
        if (!SE->isValueDependent() && SE->EvaluateAsInt(R, Ctx))
          o["cv"] = R.Val.getInt().getExtValue();
      }

    if (defaultChildren)
      {
        for (const Stmt* C : S->children())
          ch.push_back(stmt(C));
      }
    if (!ch.empty())
      o["c"] = std::move(ch);
    return json::Value(std::move(o));
  }

  json::Value cfg(const FunctionDecl* FD)
  {
    CFG::BuildOptions BO;
    BO.setAllAlwaysAdd();
    BO.AddImplicitDtors = false;
    BO.AddTemporaryDtors = false;
    BO.AddEHEdges = false;
    BO.AddInitializers = true;
    BO.PruneTriviallyFalseEdges = false;
    std::unique_ptr<CFG> G = CFG::buildCFG(FD, FD->getBody(), &Ctx, BO);
    if (!G)
      return json::Value(nullptr);
    json::Object o;
    o["entry"] = (int)G->getEntry().getBlockID();
    o["exit"] = (int)G->getExit().getBlockID();
    json::Array blocks;
    for (const CFGBlock* B : *G)
      {
        json::Object b;
        b["id"] = (int)B->getBlockID();
        json::Array el;
        for (const CFGElement& E : *B)
          {
            if (auto CS = E.getAs<CFGStmt>())
              {
                int id = idOf(CS->getStmt());
                if (id >= 0)
                  el.push_back(id);
              }
            else if (auto CI = E.getAs<CFGInitializer>())
              {
                const CXXCtorInitializer* I = CI->getInitializer();
                int id = idOf(I->getInit());
                json::Object io;
                io["init"] = id;
                if (I->isAnyMemberInitializer())
                  io["field"] = I->getAnyMember()->getName().str();
                el.push_back(std::move(io));
              }
          }
        b["e"] = std::move(el);
        json::Array su;
        for (auto I = B->succ_begin(); I != B->succ_end(); ++I)
          {
            if (const CFGBlock* SB = I->getReachableBlock())
              su.push_back((int)SB->getBlockID());
            else if (const CFGBlock* PB = I->getPossiblyUnreachableBlock())
              su.push_back((int)PB->getBlockID());
            else
              su.push_back(nullptr);
          }
        b["s"] = std::move(su);
        if (const Stmt* T = B->getTerminatorStmt())
          {
            b["tk"] = T->getStmtClassName();
            int tid = idOf(T);
            if (tid >= 0)
              b["t"] = tid;
            if (const Stmt* C = B->getTerminatorCondition(false))
              {
                int cid = idOf(C);
                if (cid >= 0)
                  b["cond"] = cid;
              }
          }
        if (B->hasNoReturnElement())
          b["noreturn"] = true;
        blocks.push_back(std::move(b));
      }
    o["blocks"] = std::move(blocks);
    return json::Value(std::move(o));
  }

  std::string templateArgs(const FunctionDecl* FD)
  {
    std::string s;
    llvm::raw_string_ostream os(s);
    FD->getNameForDiagnostic(os, PP, true);
    return os.str();
  }

  json::Value function(const FunctionDecl* FD)
  {
    stmtIds.clear();
    nextStmt = 0;
    json::Object o = fnRef(FD);
    o["qnt"] = templateArgs(FD);
    o["file"] = fileOf(FD->getBody() ? FD->getBody()->getBeginLoc() : FD->getLocation());
    o["line"] = lineOf(FD->getBeginLoc());
    o["endline"] = lineOf(FD->getEndLoc());
    json::Array ps;
    for (const ParmVarDecl* P : FD->parameters())
      {
        json::Object p;
        p["n"] = P->getName().str();
        p["d"] = declId(P);
        p["t"] = typeStr(P->getType());
        ps.push_back(std::move(p));
      }
    o["params"] = std::move(ps);
    if (FD->isTemplateInstantiation())
      o["inst"] = true;
    if (FD->isDependentContext())
      o["dependent"] = true;
    if (isa<CXXConstructorDecl>(FD))
      o["ctor"] = true;
    if (isa<CXXDestructorDecl>(FD))
      o["dtor"] = true;
    if (const auto* MD = dyn_cast<CXXMethodDecl>(FD))
      {
        json::Array ov;
        for (const CXXMethodDecl* O : MD->overridden_methods())
          ov.push_back(plainQualifiedName(O));
        if (!ov.empty())
          o["overrides"] = std::move(ov);
        o["access"] = (int)MD->getAccess();
      }
    if (const auto* CD = dyn_cast<CXXConstructorDecl>(FD))
      {
        json::Array inits;
        for (const CXXCtorInitializer* I : CD->inits())
          {
            json::Object io;
            if (I->isAnyMemberInitializer())
              io["field"] = I->getAnyMember()->getName().str();
            else if (I->isBaseInitializer())
              io["base"] = typeStr(QualType(I->getBaseClass(), 0));
            else if (I->isDelegatingInitializer())
              io["delegating"] = true;
            io["written"] = I->isWritten();
            io["e"] = stmt(I->getInit());
            inits.push_back(std::move(io));
          }
        o["inits"] = std::move(inits);
      }
    o["body"] = stmt(FD->getBody());
    o["cfg"] = cfg(FD);
    return json::Value(std::move(o));
  }

  json::Value record(const CXXRecordDecl* RD)
  {
    json::Object o;
    o["qn"] = plainQualifiedName(RD);
    o["qnt"] = typeStr(Ctx.getRecordType(RD));
    o["file"] = fileOf(RD->getLocation());
    o["line"] = lineOf(RD->getLocation());
    if (RD->getDescribedClassTemplate())
      o["template"] = true;
    if (isa<ClassTemplateSpecializationDecl>(RD))
      o["spec"] = true;
    json::Array bases;
    for (const auto& B : RD->bases())
      {
        json::Object b;
        b["t"] = typeStr(B.getType());
        if (const CXXRecordDecl* BD = B.getType()->getAsCXXRecordDecl())
          b["qn"] = plainQualifiedName(BD);
        else if (const auto* TST = B.getType()->getAs<TemplateSpecializationType>())
          {
            if (const TemplateDecl* TD = TST->getTemplateName().getAsTemplateDecl())
              b["qn"] = plainQualifiedName(TD);
          }
        b["virtual"] = B.isVirtual();
        bases.push_back(std::move(b));
      }
    o["bases"] = std::move(bases);
    json::Array fields;
    for (const FieldDecl* F : RD->fields())
      {
        json::Object f;
        f["n"] = F->getName().str();
        f["t"] = typeStr(F->getType());
        f["mutable"] = F->isMutable();
        f["line"] = lineOf(F->getLocation());
        if (F->hasInClassInitializer())
          f["hasinit"] = true;
        fields.push_back(std::move(f));
      }
    o["fields"] = std::move(fields);
    json::Array methods;
    for (const CXXMethodDecl* M : RD->methods())
      {
        if (M->isImplicit())
          continue;
        json::Object m = fnRef(M);
        m["n"] = M->getDeclName().getAsString();
        if (M->isPure())
          m["pure"] = true;
        m["access"] = (int)M->getAccess();
        json::Array ov;
        for (const CXXMethodDecl* O : M->overridden_methods())
          ov.push_back(plainQualifiedName(O));
        if (!ov.empty())
          m["overrides"] = std::move(ov);
        const FunctionDecl* Def = nullptr;
        if (M->hasBody(Def))
          m["hasbody"] = true;
        methods.push_back(std::move(m));
      }
    o["methods"] = std::move(methods);
    return json::Value(std::move(o));
  }

  json::Value enumDecl(const EnumDecl* ED)
  {
    json::Object o;
    o["qn"] = plainQualifiedName(ED);
    o["file"] = fileOf(ED->getLocation());
    o["line"] = lineOf(ED->getLocation());
    json::Array es;
    for (const EnumConstantDecl* EC : ED->enumerators())
      {
        json::Object e;
        e["n"] = EC->getName().str();
        e["v"] = EC->getInitVal().getExtValue();
        es.push_back(std::move(e));
      }
    o["enumerators"] = std::move(es);
    return json::Value(std::move(o));
  }
};

// compact call / effect summary of one function (for the whole-program call graph)
class EffectVisitor : public RecursiveASTVisitor<EffectVisitor>
{
public:
  Dumper& D;
  json::Array calls;
  json::Array writes;
  std::vector<std::string> sync; // stack of sync contexts
  explicit EffectVisitor(Dumper& d)
      : D(d)
  {}

  std::string syncStr()
  {
    std::string s;
    for (auto& x : sync)
      {
        if (!s.empty())
          s += "|";
        s += x;
      }
    return s;
  }

  bool TraverseStmt(Stmt* S)
  {
    if (!S)
      return true;
    bool pushed = false;
    if (auto* OD = dyn_cast<OMPExecutableDirective>(S))
      {
        std::string k = getOpenMPDirectiveName(OD->getDirectiveKind()).str();
        if (auto* CR = dyn_cast<OMPCriticalDirective>(OD))
          k += ":" + CR->getDirectiveName().getAsString();
        sync.push_back(k);
        pushed = true;
      }
    bool r = RecursiveASTVisitor<EffectVisitor>::TraverseStmt(S);
    if (pushed)
      sync.pop_back();
    return r;
  }

  static std::string baseKind(const Expr* B)
  {
    B = B->IgnoreParenImpCasts();
    if (isa<CXXThisExpr>(B))
      return "this";
    if (const auto* DR = dyn_cast<DeclRefExpr>(B))
      {
        if (isa<ParmVarDecl>(DR->getDecl()))
          return "param:" + DR->getDecl()->getName().str();
        if (const auto* V = dyn_cast<VarDecl>(DR->getDecl()))
          return V->isLocalVarDecl() ? "local:" + V->getName().str() : "global:" + V->getName().str();
      }
    if (const auto* ME = dyn_cast<MemberExpr>(B))
      {
        if (isa<FieldDecl>(ME->getMemberDecl()))
          return "field:" + ME->getMemberDecl()->getName().str();
      }
    if (const auto* UO = dyn_cast<UnaryOperator>(B))
      if (UO->getOpcode() == UO_Deref)
        return "deref(" + baseKind(UO->getSubExpr()) + ")";
    if (const auto* OC = dyn_cast<CXXOperatorCallExpr>(B))
      if ((OC->getOperator() == OO_Star || OC->getOperator() == OO_Arrow || OC->getOperator() == OO_Subscript) &&
          OC->getNumArgs() >= 1)
        return "deref(" + baseKind(OC->getArg(0)) + ")";
    if (const auto* AS = dyn_cast<ArraySubscriptExpr>(B))
      return "elem(" + baseKind(AS->getBase()) + ")";
    return "expr";
  }

  void addCall(const FunctionDecl* FD, const Expr* obj, SourceLocation L)
  {
    json::Object c = D.fnRef(FD);
    c["l"] = D.lineOf(L);
    if (obj)
      c["obj"] = baseKind(obj);
    std::string s = syncStr();
    if (!s.empty())
      c["sync"] = s;
    calls.push_back(std::move(c));
  }

  bool VisitCallExpr(CallExpr* E)
  {
    const FunctionDecl* FD = E->getDirectCallee();
    if (!FD)
      return true;
    const Expr* obj = nullptr;
    if (auto* MC = dyn_cast<CXXMemberCallExpr>(E))
      obj = MC->getImplicitObjectArgument();
    else if (auto* OC = dyn_cast<CXXOperatorCallExpr>(E))
      {
        if (isa<CXXMethodDecl>(FD) && OC->getNumArgs() > 0)
          obj = OC->getArg(0);
      }
    addCall(FD, obj, E->getBeginLoc());
    return true;
  }
  bool VisitCXXConstructExpr(CXXConstructExpr* E)
  {
    addCall(E->getConstructor(), nullptr, E->getBeginLoc());
    return true;
  }

  void addWrite(const Expr* LHS, SourceLocation L)
  {
    LHS = LHS->IgnoreParenImpCasts();
    json::Object w;
    w["target"] = baseKind(LHS);
    if (const auto* ME = dyn_cast<MemberExpr>(LHS))
      w["base"] = baseKind(ME->getBase());
    w["l"] = D.lineOf(L);
    std::string s = syncStr();
    if (!s.empty())
      w["sync"] = s;
    writes.push_back(std::move(w));
  }
  bool VisitBinaryOperator(BinaryOperator* E)
  {
    if (E->isAssignmentOp())
      addWrite(E->getLHS(), E->getBeginLoc());
    return true;
  }
  bool VisitUnaryOperator(UnaryOperator* E)
  {
    if (E->isIncrementDecrementOp())
      addWrite(E->getSubExpr(), E->getBeginLoc());
    return true;
  }
};

class Consumer : public ASTConsumer, public RecursiveASTVisitor<Consumer>
{
public:
  Matchers M;
  std::unique_ptr<Dumper> D;
  json::Array functions, records, enums, summaries;
  std::set<std::string> seenFn, seenRec, seenEnum, seenSum;

  bool shouldVisitTemplateInstantiations() const { return true; }
  bool shouldVisitImplicitCode() const { return false; }

  void HandleTranslationUnit(ASTContext& Ctx) override
  {
    M.build();
    D = std::make_unique<Dumper>(Ctx);
    TraverseDecl(Ctx.getTranslationUnitDecl());
    json::Object top;
    top["functions"] = std::move(functions);
    top["records"] = std::move(records);
    top["enums"] = std::move(enums);
    if (G.calls)
      top["summaries"] = std::move(summaries);
    top["errors"] = (int)Ctx.getDiagnostics().getClient()->getNumErrors();
    std::error_code EC;
    llvm::raw_fd_ostream os(G.out, EC);
    if (EC)
      {
        llvm::errs() << "cannot write " << G.out << "\n";
        return;
      }
    os << json::Value(std::move(top));
  }

  bool underRoot(SourceLocation L)
  {
    std::string f = D->fileOf(L);
    return f.compare(0, G.root.size(), G.root) == 0;
  }

  bool VisitFunctionDecl(FunctionDecl* FD)
  {
    if (!FD->doesThisDeclarationHaveABody())
      return true;
    if (!underRoot(FD->getLocation()))
      return true;
    std::string qn = plainQualifiedName(FD);
    if (Matchers::any(M.fn, qn)
        && (M.files.empty() || Matchers::any(M.files, D->fileOf(FD->getBody() ? FD->getBody()->getBeginLoc() : FD->getLocation()))))
      {
        std::string key = D->templateArgs(FD) + "|" + std::to_string(D->lineOf(FD->getBeginLoc())) + "|" +
                          (FD->isDependentContext() ? "dep" : "") + D->fnRef(FD).getString("sig")->str();
        if (seenFn.insert(key).second)
          functions.push_back(D->function(FD));
      }
    if (G.calls && !FD->isDependentContext())
      {
        std::string key = D->templateArgs(FD) + "|" + D->fnRef(FD).getString("sig")->str();
        if (seenSum.insert(key).second)
          {
            EffectVisitor EV(*D);
            EV.TraverseStmt(FD->getBody());
            if (auto* CD = dyn_cast<CXXConstructorDecl>(FD))
              for (auto* I : CD->inits())
                EV.TraverseStmt(I->getInit());
            json::Object s = D->fnRef(FD);
            s["qnt"] = D->templateArgs(FD);
            s["file"] = D->fileOf(FD->getLocation());
            s["line"] = D->lineOf(FD->getBeginLoc());
            if (auto* MD = dyn_cast<CXXMethodDecl>(FD))
              {
                json::Array ov;
                for (const CXXMethodDecl* O : MD->overridden_methods())
                  ov.push_back(plainQualifiedName(O));
                if (!ov.empty())
                  s["overrides"] = std::move(ov);
              }
            s["calls"] = std::move(EV.calls);
            s["writes"] = std::move(EV.writes);
            summaries.push_back(std::move(s));
          }
      }
    return true;
  }

  bool VisitCXXRecordDecl(CXXRecordDecl* RD)
  {
    if (!RD->isThisDeclarationADefinition() || !RD->getIdentifier())
      return true;
    if (M.rec.empty())
      return true;
    if (!underRoot(RD->getLocation()))
      return true;
    std::string qn = plainQualifiedName(RD);
    if (!Matchers::any(M.rec, qn))
      return true;
    std::string key = D->typeStr(D->Ctx.getRecordType(RD));
    if (seenRec.insert(key).second)
      records.push_back(D->record(RD));
    return true;
  }

  bool VisitEnumDecl(EnumDecl* ED)
  {
    if (!ED->isThisDeclarationADefinition() || M.en.empty())
      return true;
    std::string qn = plainQualifiedName(ED);
    if (!Matchers::any(M.en, qn))
      return true;
    if (seenEnum.insert(qn).second)
      enums.push_back(D->enumDecl(ED));
    return true;
  }
};

class Action : public ASTFrontendAction
{
public:
  std::unique_ptr<ASTConsumer> CreateASTConsumer(CompilerInstance&, llvm::StringRef) override
  {
    return std::make_unique<Consumer>();
  }
};

} // namespace

int
main(int argc, const char** argv)
{
  std::vector<std::string> clangArgs;
  int i = 1;
  for (; i < argc; ++i)
    {
      std::string a = argv[i];
      if (a == "--")
        {
          ++i;
          break;
        }
      if (a == "--fn" && i + 1 < argc)
        G.fn_res.push_back(argv[++i]);
      else if (a == "--rec" && i + 1 < argc)
        G.rec_res.push_back(argv[++i]);
      else if (a == "--enum" && i + 1 < argc)
        G.enum_res.push_back(argv[++i]);
      else if (a == "--file" && i + 1 < argc)
        G.file_res.push_back(argv[++i]);
      else if (a == "--calls")
        G.calls = true;
      else if (a == "--root" && i + 1 < argc)
        G.root = argv[++i];
      else if (a == "--out" && i + 1 < argc)
        G.out = argv[++i];
      else if (a == "--map" && i + 1 < argc)
        {
          std::string m = argv[++i];
          auto p = m.find('=');
          if (p == std::string::npos)
            {
              llvm::errs() << "--map needs virtual=real\n";
              return 2;
            }
          G.maps.emplace_back(m.substr(0, p), m.substr(p + 1));
        }
      else
        {
          llvm::errs() << "unknown option " << a << "\n";
          return 2;
        }
    }
  std::string source;
  for (; i < argc; ++i)
    clangArgs.push_back(argv[i]);
  if (clangArgs.empty() || G.out.empty())
    {
      llvm::errs() << "usage: stirfacts --out F [--fn RE].. -- <clang args> <source>\n";
      return 2;
    }
  source = clangArgs.back();
  clangArgs.pop_back();
  clang::tooling::FixedCompilationDatabase CDB(".", clangArgs);
  clang::tooling::ClangTool Tool(CDB, { source });
  std::vector<std::unique_ptr<llvm::MemoryBuffer>> keep;
  for (auto& m : G.maps)
    {
      auto buf = llvm::MemoryBuffer::getFile(m.second);
      if (!buf)
        {
          llvm::errs() << "cannot read " << m.second << "\n";
          return 2;
        }
      keep.push_back(std::move(*buf));
      Tool.mapVirtualFile(m.first, keep.back()->getBuffer());
    }
  int r = Tool.run(clang::tooling::newFrontendActionFactory<Action>().get());
  return r;
}
