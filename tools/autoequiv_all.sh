#!/bin/bash
# robustness sweep: every automatic behaviour-preserving transform on every claimed property; prints one line per (property, transform)
cd "$(dirname "$0")/.."
[ -x tools/stirfacts/stirfacts ] || make -C tools/stirfacts >/dev/null 2>&1
for t in ${TRANSFORMS:-rename noop preinc parens unconst braces ltplus eqswap compound hoistcond}; do
  for p in C01 C02 C03 C04 C05 C06 C07 C08 C09 C10 C11 C12 C13 C14 C15 C16 C17 C18 C19 C20; do
    tools/autoequiv.py $p --transform $t 2>&1 | head -4 | cut -c1-300
  done
done
