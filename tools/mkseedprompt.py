#!/usr/bin/env python3
"""usage: mkseedprompt.py <prop> <tag> [focus text]: creates scratch worktree /tmp/wt/<prop>-<tag> of /repo HEAD and prints the
prompt for an independent seeding sub-agent (property text only; nothing from /verif)."""
import json, os, subprocess, sys
prop, tag = sys.argv[1], sys.argv[2]
focus = sys.argv[3] if len(sys.argv) > 3 else ""
here = os.path.dirname(os.path.abspath(__file__))
wt = "/tmp/wt/%s-%s" % (prop, tag)
if not os.path.exists(wt):
    subprocess.check_call(["git", "-C", "/repo", "worktree", "add", "--detach", wt, "HEAD"], stdout=subprocess.DEVNULL, stderr=subprocess.DEVNULL)
p = [json.loads(l) for l in open(os.path.join(here, "..", "properties.jsonl"))]
p = [x for x in p if x["id"] == prop][0]
text = "%s\n\n%s\n\n(The property is meant to hold over: %s)" % (p["title"], p["statement"], p["quantifier"]["text"])
if focus:
    text += "\n\nPlease aim at this part of the property rather than the most obvious one: " + focus
s = open(os.path.join(here, "seed_agent_prompt.txt")).read().replace("PROPTEXT", text).replace("WT", wt)
print(s)
