#!/usr/bin/env python3-vt
"""Both-ways self-test of the rules (DESIGN.md 2.5).

mutants/<PROP>/<name>.patch : unified diff against /repo (git diff format) with header lines
    # property: C02
    # kind: break | equiv
    # expect: <substring that must occur in a reported violation line>   (break only)
A 'break' mutant must make `./check PROP` exit 1 with a report naming the expected rule/instance;
an 'equiv' mutant (behaviour-preserving refactor) must leave it at exit 0 (exit 2 = UNRECOGNISED is
tolerated and reported, a VIOLATION is a self-test failure).
The patch is applied to scratch copies of the touched files only; /repo is never modified: the
extractor analyses the scratch copy in place of the file (stirfacts --map).
"""
import os
import re
import shutil
import subprocess
import sys
import tempfile

HERE = os.path.dirname(os.path.dirname(os.path.abspath(__file__)))
REPO = os.environ.get("VERIF_REPO", "/repo")


def run_one(path):
    meta = {}
    with open(path) as f:
        text = f.read()
    for line in text.splitlines():
        m = re.match(r"#\s*(\w+):\s*(.*)$", line)
        if m:
            meta[m.group(1)] = m.group(2).strip()
    files = re.findall(r"^\+\+\+ b/(\S+)", text, re.M)
    scratch = tempfile.mkdtemp(prefix="stir-mutant-")
    try:
        maps = []
        for rel in files:
            dst = os.path.join(scratch, rel)
            os.makedirs(os.path.dirname(dst), exist_ok=True)
            shutil.copy(os.path.join(REPO, rel), dst)
            maps.append("%s=%s" % (os.path.join(REPO, rel), dst))
        p = subprocess.run(["patch", "-p1", "-s", "-d", scratch, "-i", os.path.abspath(path)], capture_output=True, text=True)
        if p.returncode != 0:
            return "PATCH-FAILED", meta, p.stdout + p.stderr
        r = subprocess.run([os.path.join(HERE, "check"), meta["property"], "--overlay", ",".join(maps)], capture_output=True, text=True, cwd=HERE)
        out = r.stdout
        kind = meta.get("kind", "break")
        if kind == "break":
            exp = meta.get("expect", "")
            hit = [l for l in out.splitlines() if l.startswith("  ") and exp in l]
            if r.returncode == 1 and hit:
                return "CAUGHT", meta, hit[0].strip()
            return "MISSED(exit %d)" % r.returncode, meta, out[-600:]
        else:
            if r.returncode == 0:
                return "SILENT", meta, ""
            if r.returncode == 2:
                return "UNRECOGNISED", meta, "\n".join(l for l in out.splitlines() if "BROKEN" in l)[:400]
            return "FALSE-ALARM", meta, out[-600:]
    finally:
        shutil.rmtree(scratch, ignore_errors=True)


def run_seeded(d):
    """seeded/<id>/patch.diff + meta.json (changes written by independent sub-agents)"""
    import json

    meta = json.load(open(os.path.join(d, "meta.json")))
    text = open(os.path.join(d, "patch.diff")).read()
    files = re.findall(r"^\+\+\+ b/(\S+)", text, re.M)
    scratch = tempfile.mkdtemp(prefix="stir-seeded-")
    try:
        maps = []
        for rel in files:
            dst = os.path.join(scratch, rel)
            os.makedirs(os.path.dirname(dst), exist_ok=True)
            shutil.copy(os.path.join(REPO, rel), dst)
            maps.append("%s=%s" % (os.path.join(REPO, rel), dst))
        p = subprocess.run(["patch", "-p1", "-s", "-d", scratch, "-i", os.path.abspath(os.path.join(d, "patch.diff"))], capture_output=True, text=True)
        if p.returncode != 0:
            return "PATCH-FAILED", meta, p.stdout + p.stderr
        r = subprocess.run([os.path.join(HERE, "check"), meta["property"], "--overlay", ",".join(maps)], capture_output=True, text=True, cwd=HERE)
        exp = meta.get("expect") or ""
        hit = [l for l in r.stdout.splitlines() if l.startswith("  ") and exp in l]
        if r.returncode == 1 and hit:
            return ("CAUGHT" if meta.get("detected_by") else "CAUGHT(unexpected)"), meta, hit[0].strip()
        if r.returncode == 2:
            return "BROKEN", meta, r.stdout[-400:]
        return ("MISSED(known)" if not meta.get("detected_by") else "MISSED(exit %d)" % r.returncode), meta, ""
    finally:
        shutil.rmtree(scratch, ignore_errors=True)


def main():
    sel = sys.argv[1:] or None
    bad = 0
    n = 0
    sd = os.path.join(HERE, "seeded")
    for name in sorted(os.listdir(sd)) if os.path.isdir(sd) else []:
        d = os.path.join(sd, name)
        if not os.path.exists(os.path.join(d, "meta.json")):
            continue
        if sel and not any(s in d for s in sel):
            continue
        status, meta, info = run_seeded(d)
        n += 1
        if status not in ("CAUGHT", "MISSED(known)"):
            bad += 1
        print("%-14s %s seeded/%s  %s" % (status, meta.get("property"), name, info[:300]))
    for root, _d, fs in sorted(os.walk(os.path.join(HERE, "mutants"))):
        for fn in sorted(fs):
            if not fn.endswith(".patch"):
                continue
            path = os.path.join(root, fn)
            if sel and not any(s in path for s in sel):
                continue
            status, meta, info = run_one(path)
            n += 1
            ok = status in ("CAUGHT", "SILENT", "UNRECOGNISED")
            if not ok:
                bad += 1
            print("%-14s %s %s  %s" % (status, meta.get("property"), os.path.relpath(path, HERE), info if not ok or status != "SILENT" else ""))
    print("%d mutants, %d failures" % (n, bad))
    return 1 if bad else 0


if __name__ == "__main__":
    sys.exit(main())
