#!/usr/bin/env python3
"""helper: create mutants/<PROP>/<name>.patch from (file, old, new) replacements against /repo's current tree
usage in python: from mkmutant import mk; mk('C02','name','break','expect',[(relfile, old, new, count)])"""
import difflib
import os

HERE = os.path.dirname(os.path.dirname(os.path.abspath(__file__)))
REPO = "/repo"


def mk(prop, name, kind, expect, edits, note=""):
    byfile = {}
    for e in edits:
        rel, old, new = e[0], e[1], e[2]
        cnt = e[3] if len(e) > 3 else 1
        src = byfile.get(rel)
        if src is None:
            src = open(os.path.join(REPO, rel)).read()
            byfile[rel] = src
        assert src.count(old) >= 1, "pattern not found in %s: %r" % (rel, old[:60])
        if cnt == 1:
            assert src.count(old) == 1, "pattern not unique in %s (%d): %r" % (rel, src.count(old), old[:60])
            src = src.replace(old, new)
        else:
            src = src.replace(old, new, cnt if cnt > 0 else -1)
        byfile[rel] = src
    out = ["# property: %s" % prop, "# kind: %s" % kind]
    if expect:
        out.append("# expect: %s" % expect)
    if note:
        out.append("# note: %s" % note)
    for rel, new in byfile.items():
        old = open(os.path.join(REPO, rel)).read()
        d = difflib.unified_diff(old.splitlines(True), new.splitlines(True), "a/" + rel, "b/" + rel, n=3)
        out.append("".join(d).rstrip("\n"))
    os.makedirs(os.path.join(HERE, "mutants", prop), exist_ok=True)
    p = os.path.join(HERE, "mutants", prop, name + ".patch")
    with open(p, "w") as f:
        f.write("\n".join(out) + "\n")
    return p
