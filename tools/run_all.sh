#!/bin/bash
# runs every registered quick check the way the harness does (evidence removed first) and validates the evidence files
cd /verif
python3-vt - <<'PY'
import json, subprocess, os, jsonschema, time
man = json.load(open('MANIFEST.json'))
jsonschema.validate(man, json.load(open('/root/.vp/MANIFEST.schema.json')))
sch = json.load(open('/root/.vp/EVIDENCE.schema.json'))
bad = 0
for c in man["checks"]:
    ev = c['evidence_file']
    if os.path.exists(ev):
        os.unlink(ev)
    t = time.time()
    r = subprocess.run(c['quick_cmd'], shell=True, capture_output=True, text=True)
    ok = r.returncode == 0 and 'VIOLATION' not in r.stdout and os.path.exists(ev)
    try:
        jsonschema.validate(json.load(open(ev)), sch)
    except Exception as ex:
        ok = False
        print('  evidence invalid:', str(ex)[:200])
    print('%s exit=%d %.1fs %s' % (c['property_id'], r.returncode, time.time() - t, 'OK' if ok else 'PROBLEM'))
    if not ok:
        bad += 1
        print(r.stdout[-600:])
print('problems:', bad)
PY
