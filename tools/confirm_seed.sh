#!/bin/bash
# usage: confirm_seed.sh <worktree> <demo-build-script> <demo-binary> : confirms a seeded change in its scratch worktree
#  1. with the change applied (as the agent left it): ctest -> same 56 passes; demo exits non-zero
#  2. change reverse-applied and rebuilt: demo exits 0
set -u
WT=$1; BUILD_DEMO=$2; DEMO=$3
cd $WT || exit 2
echo "== with change: build + ctest"
ninja -C $WT/_build -j16 > $WT/SEED/confirm_build1.log 2>&1 || { echo "BUILD FAILED (with change)"; exit 1; }
ctest --test-dir $WT/_build -j12 --timeout 900 > $WT/SEED/confirm_ctest.log 2>&1
grep -E "tests passed|tests failed" $WT/SEED/confirm_ctest.log
grep -E "^\s+[0-9]+ - " $WT/SEED/confirm_ctest.log | awk '{print $3}' | sort > $WT/SEED/confirm_failed.txt
python3 - <<PY
import json
base=json.load(open('/root/.vp/BASELINE.json'))
failed=[l.strip() for l in open('$WT/SEED/confirm_failed.txt')]
bad=[t for t in failed if t+'::'+t in base['stable_pass']]
print('baseline-passing tests that now fail:', bad)
PY
echo "== with change: demo"
bash $BUILD_DEMO > $WT/SEED/confirm_demo_build1.log 2>&1; (cd $(dirname $DEMO) && timeout 1800 $DEMO > $WT/SEED/confirm_demo_with.log 2>&1; echo "demo exit with change: $?")
echo "== without change"
git -C $WT apply -R $WT/SEED/patch.diff || { echo "cannot reverse patch"; exit 1; }
ninja -C $WT/_build -j16 > $WT/SEED/confirm_build2.log 2>&1 || { echo "BUILD FAILED (without change)"; }
bash $BUILD_DEMO > $WT/SEED/confirm_demo_build2.log 2>&1; (cd $(dirname $DEMO) && timeout 1800 $DEMO > $WT/SEED/confirm_demo_without.log 2>&1; echo "demo exit without change: $?")
git -C $WT apply $WT/SEED/patch.diff
