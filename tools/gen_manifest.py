#!/usr/bin/env python3
"""regenerates MANIFEST.json from the table below (claimed checks) - every other property goes to not_applicable"""
import json
import os

HERE = os.path.dirname(os.path.dirname(os.path.abspath(__file__)))

COMMON_NOTE = (
    "Trusted: clang 14 front end and clang::CFG, the stirfacts extractor, the Python analyses in /verif/engine, the frozen "
    "instance/slot tables in the rule module. Assumes stir::error never returns and analyses the as-built configuration "
    "(NDEBUG: assert is not a guard) unless stated. Decides only the named structural clauses, not the behaviour as a whole."
)

CLAIMED = {
    "C02": dict(
        text="Static analysis of the current source. Decides structural necessary conditions of C02 only: all five bin coordinates are "
        "range-checked (error() exit) before the address arithmetic of get_offset/get_index; that arithmetic is a zero-based "
        "mixed-radix layout in the order the storage-order enumerator names (so in-range bins never share a position, for every "
        "geometry); all seeks/buffer copies use that one address function; every stream writer flushes before returning; "
        "read_data/write_data results are tested; per-segment header lists are written in the stream's segment order; every key the "
        "projection-data header writer emits is registered by the reader classes with the same vectorisation; every read path of "
        "ProjDataFromStream applies scale_factor exactly once (raw reads are scaled before every return, data from another getter is not "
        "scaled again) and every write path divides by it once before the raw write (a value the float scale cannot represent is an "
        "error, not silently rounded: defect F12, fixed); the Bin whose address a getter/setter requests carries every index of the "
        "piece asked for (segment, view or axial position, TOF index) in its own slot, and a getter builds the piece it returns from "
        "the same indices; every whole-data operation of ProjData (fill, sum, extrema, norms, xapyb/sapyb, arithmetic) requests, inside its "
        "loop over the segments, the segment of the TOF bin of an enclosing loop over all TOF bins; in the projection-data header the scale factor and the bed positions are written with max_digits10 digits (defect F35, fixed), values of list-valued keys are in the reader's list and information-losing formatting changes of the header stream are put back; a segment number passed to a public get_* member of the two backing stores is tested against the segment range (directly or by a helper whose every exit has made the test) before it indexes the per-segment tables (F66, fixed); every exam-information key or helper of the image header writer also appears in the projection-data header writer (F67, fixed); every path through the positioning helpers checked_seekg/checked_seekp passes the seek (an independent reader drops its read-ahead on every access); a caller-supplied segment or TOF sequence is validated before it is stored (F96, fixed), a header member the reader hands to a setter of the data object has its key emitted by the writer (F97, fixed), and the writer's switch covers every storage order (F98, fixed). Value round trips, byte order, number-type conversion and the other header values are NOT decided.",
        technique="static analysis: must-facts dataflow over clang CFG (bounds), symbolic layout algebra on the address expression, "
        "must-pass-through (flush), resolved-callee provenance",
    ),
    "C11": dict(
        text="Static analysis of the current source. Decides: every raw subscript X.num[i] in VectorWithOffset/NumericVectorWithOffset/Array "
        "(all definitions, analysed through an instantiation present in the build) is provably within X's index range on every path "
        "from range guards with error()/throw exits, loop shapes and grow()/resize() post-conditions; at() guards entail non-emptiness "
        "and min<=i<=max; xapyb/sapyb/axpby compare every operand's range with *this before touching elements. The history part of C11 "
        "(values surviving resize/grow, aliasing, iteration order) is a constructor of IndexRange<N> records `regular` only for a range it sizes and fills itself (F83, fixed). a move constructor swaps, delegates, or takes every member it sets from the same member of its source. NOT decided, except: Array<1>::resize zero-fills exactly the "
        "complement of the recorded old range, and every bulk copy into this->begin() of VectorWithOffset fits the storage (range just "
        "established by resize(), or range reset to the start of the allocation + capacity test/reserve for the source's size + length "
        "taken from the source, on every path); every element-wise loop over several operands advances all its "
        "iterators exactly once per iteration on every path; no comparison or std::equal/mismatch in the array classes and IndexRange "
        "compares an operand with itself (regularity and equality tests look at both things they are about); Array<N>::resize (N > 1) starts every sub-array outside the recorded "
        "old outer range from empty before resizing it, so re-exposed rows are zero (defect F18, fixed); a full iterator is at the end or at a non-empty sub-array (operator++ tests every newly loaded "
        "sub-array range for emptiness before returning, begin_all() starts at a sub-array tested to be non-empty; F31, fixed); VectorWithOffset::resize assigns T() to every element outside the overlap of "
        "old and new range (F32, fixed); the index range of an operand enters grow()/resize() only where the operand is known to be non-empty (F33, fixed).",
        technique="static analysis: interval entailment from must-facts over clang CFG, loop-shape invariants, API post-condition summaries",
    ),
    "C05": dict(
        text="Static analysis of the current source. Decides: (a) the lazy set-up typestate of the three request kinds that use the "
        "distributable computation (value, gradient, sensitivity) by finite-domain abstract interpretation over the two set-up flags and "
        "sensitivity_uses_same_projector(), for every entry state the flag invariant allows: the 'internal error' branch is unreachable, "
        "the computation always runs with the set-up matching its projectors, no flag is read undefined, the invariant is restored - so "
        "the set-up does not depend on which quantity is requested first; (b) every public set_* of the objective-function hierarchy that "
        "overwrites a field invalidates already_set_up (comparison-before-overwrite idiom checked); (c) every viewgram set handed back by "
        "get_viewgrams is end-plane-zeroed after its last modification when requested; (d) accumulators start from zero: every path to "
        "add_subset_sensitivity(slot[k], k) zero-fills the slot, replaces it by a fresh empty copy or (subset sensitivities off) aliases it "
        "to slot 0, and distributable_computation zeroes its optional outputs before accumulating; (e) the element-wise sums of the objective-function helpers advance all "
        "iterators in lock step; (f) value, gradient, sensitivity and Hessian requests hand the projection/distributable layer the one "
        "symmetric segment range (-max_segment_num_to_process, +max_segment_num_to_process); (g) in the penalised wrappers the prior is asked "
        "about the same input images as the data part and its share is accumulated separately from the output (defect F13, fixed); (h) "
        "every get_(empty_)related_viewgrams request of the objective function's routines passes the TOF index of the indices it iterates "
        "over explicitly (the default argument overwrites it with 0) and all requests get_viewgrams() makes for one call name the same "
        "TOF index (defects F15 and F16, both fixed). All formula clauses of C05 (value, "
        "gradient, sensitivity, Hessian, subset sums, penalised = unpenalised - prior) are numerical and NOT decided. Also decided: every routine that reads measured viewgrams itself zeroes the end planes of segment 0 under zero_seg0_end_planes (F55, fixed).",
        technique="static analysis: finite-domain abstract interpretation of flag typestate over clang CFG; setter-invalidation "
        "must-pass-through with idiom ordering",
    ),
    "C18": dict(
        text="Static analysis of the OpenMP configuration of the sources (-fopenmp -DSTIR_OPENMP; the baseline build has OpenMP off, so no test "
        "executes this code). Decides, for every schedule at once: the double-checked lazy initialisation protocol of the five geometry tables "
        "(atomic unlocked read, re-check + build inside a named critical, flag published after the last table write, on every exit, by the "
        "builder only); the system-matrix cache is touched only under the omp lock of its own (view,segment) and locks are released on all "
        "paths; every direct write to shared storage in each of the 17 parallel regions and in the projectors' entry points is synchronised, "
        "per-thread, a reduction or indexed by the loop's own variable; every non-const call on a shared object in a region is synchronised "
        "or a reviewed thread-safe entry point; stream/buffer accesses of the file and memory ProjData back-ends are inside their named "
        "critical; scatter-cache cells are accessed atomically; the append-only detection-point table is reserved before use - after every "
        "reset and after every change of the size the appends stop at; per-thread "
        "accumulators (containers indexed by omp_get_thread_num()) are reduced and reset completely - every loop over them outside a "
        "region visits all slots and is never left early; a member per-thread container is not reset slot-by-own-thread inside a region, a complete zero-fill loop exists wherever a complete reduction loop exists, and the call holding it sizes the container for omp_get_max_threads() (F51, fixed). a per-thread container is sized with omp_get_num_threads() inside a parallel region and with omp_get_max_threads() outside (F81, fixed). NOT decided: numerical equality up to reassociation, memory-model adequacy of "
        "omp atomic, thread-safety inside callees beyond the reviewed table.",
        technique="static analysis: OpenMP-aware AST/CFG rules (typestate of double-checked locking, lock pairing by must-pass-through, "
        "shared-write discipline with data-sharing classification)",
        note=COMMON_NOTE + " Analysed configuration: openmp (the OpenMP constructs only exist in the AST with -fopenmp -DSTIR_OPENMP). The table "
        "REVIEWED_CALLEES of thread-safe entry points is part of the trusted base.",
    ),
    "C13": dict(
        text="Static analysis of the current source, for every BinNormalisation class compiled in this build. Decides: apply and undo are "
        "duals (the data is modified the same number of times, by factors whose data-flow sources are identical, with inverse operations; "
        "member->apply <-> member->undo), including the ProjData and only_first/only_second variants; the chain's efficiency is the product "
        "of its members' with absent members as 1 and apply/undo visit each member once; check() precedes every modification; the chain "
        "sets up base and members and propagates failure; every set_up is idempotent (no member updated from its own previous value); the "
        "trivial normalisation's apply/undo are empty; apply/undo/get_bin_efficiency and the helpers of their class they call assign no "
        "member of the object (no hidden state: the factor of a bin cannot depend on the object's history); data that apply/undo/get_bin_efficiency read and that set_up derives from the "
        "object's inputs is rebuilt by every successful set_up (the inputs can be changed in place between two calls, so a "
        "'nothing changed' shortcut would leave stale factors); apply/undo of a whole data set visit every (view/segment group, TOF bin) "
        "once (one enumeration, one TOF loop, read-normalise-write per turn); bin-by-bin updates use exactly get_bin_efficiency(bin) "
        "(for the kinds the property names); a set_up that fails after the base class set_up clears the set-up flag again and does not compare the stored geometry with the argument it was just assigned from (F56, F57, fixed). Efficiency values, "
        "ACF = exp(line integral), positivity are NOT decided.",
        technique="static analysis: sibling (dual) agreement of effect summaries with data-flow source signatures, must-pass-through, "
        "self-dependence of member updates in set_up",
    ),
    "C06": dict(
        text="Static analysis of the current source. Decides: the subset enumeration lists each is_basic (view,segment) of the residue class "
        "view = min_view+subset_num (mod num_subsets) exactly once, so the subsets' lists are disjoint and cover every basic view/segment "
        "for every number of views, subsets and segments; the 'balanced' test re-implements exactly those loops and compares all counts "
        "for equality; every consumer (distributable computation, both projectors, normalisation, Hessians, FBP2D) takes its list from "
        "that one function with its own subset arguments; the ordered schedule advances the subset index by one per sub-iteration, the "
        "random schedule indexes with the expression of its regeneration test and the random order exists before its first read for "
        "every start sub-iteration (abstract interpretation); the view symmetries are off whenever num_views is not divisible by 4 "
        "resp. 2 on every constructor path; get_subset_num() (which draws a new random order) is consulted exactly once per "
        "sub-iteration: one call outside any loop in each update_estimate implementation and no call anywhere else in the library; every "
        "TOF bin is processed: the objective function hands the distributable layer the symmetric range of one member, that member "
        "is re-derived from the data's maximum TOF index on every path of the set-up, and distributable_computation's TOF loop runs "
        "over exactly the range it is handed; the counting loops of the balanced-subsets reports (projection-data and list-mode objective) run from get_min_Y to get_max_Y inclusive (F72, fixed) and the related-bin counts they add up are definitely assigned (F73, fixed). "
        "NOT decided: that randomly_permute_subset_order returns a permutation; that "
        "is_basic/related views partition the views for each symmetry class (modular arithmetic over num_views).",
        technique="static analysis: normalised loop descriptors, sibling agreement, resolved-callee argument pass-through, "
        "finite-domain abstract interpretation over clang CFG",
    ),
    "C16": dict(
        text="Static analysis of the current source. Decides: the per-scatter-point estimate is invariant under exchanging the two "
        "detectors (closed-form algebra with sympy on the returned expression with locals inlined, and on every early-return guard); it is "
        "homogeneous of degree 1 in the two activity line integrals, vanishes for zero activity consistently with the early return, and "
        "the activity enters nowhere else; both cached accessors compute a miss by the uncached function with the same arguments, store "
        "that value in the cell addressed by the same two indices and return it; every public setter clears _already_set_up, every "
        "function replacing an input of a cache drops that cache (line-integral caches, and every lazily computed member - found from "
        "the code as `const function recomputes M when M fails its sentinel test` - with the members its defining expression reads; "
        "defect F17, fixed), process_data requires set-up; the set-up call chain leaves every scalar setting as the user gave it "
        "(defect F21, fixed); data the object derives from its settings (scatter points; the scatter-point image made by set_up) follow every setter of one of their inputs by the time set_up() has run (F40, F41, fixed; F42: the cache switches reset the set-up flag). a public setter skips storing its argument only under exact comparisons - not under a user-defined operator== that compares with tolerances. NOT decided: non-negativity, numerical "
        "equality with a freshly configured simulation.",
        technique="static analysis: closed-form algebra (sympy) on extracted expression DAGs, sibling agreement, setter/cache invalidation "
        "must-pass-through",
    ),
    "C03": dict(
        text="Static analysis of the current source. Decides: ProjMatrixByBin::cache_key packs sign and magnitude of axial, tangential "
        "and TOF index into pairwise disjoint bit fields whose widths are exactly the constants set_up() rejects larger data against, and "
        "key plus (view,segment) subscripts cover every coordinate that distinguishes bins (no two bins share a cache entry); every "
        "computed row passes the TOF-kernel step exactly once before being cached or transformed (never a cached row), basic-bin mode "
        "caches before and full mode after the symmetry transformation; set_up empties the cache on every path and may return early "
        "only under equality of every member it derives from its arguments (each still holding the previous set_up's value at that "
        "comparison); set_up of the ray-tracing and the interpolation matrix never assigns a setting (parsing key / set_* member), so "
        "a later set_up starts from what the user asked for (defects F19, F20, fixed); the ray-tracing matrix's setters clear already_setup and rows "
        "are only computed after set_up; for each of the 16 symmetry operations the bin-level and view/segment-level maps agree branch by "
        "branch (affine summaries). every constructor path of the symmetries object ends with `90-degree view symmetry on => 180-degree view symmetry on` for all settings of the switches (abstract interpretation of member initialisers and body; the finder and the operation lookup rely on it); no function in the row-computing files keeps state in a static or thread-local variable; the equality that lets set_up keep its cache compares every member the coordinate getters read and never overwrites earlier comparison results (F52, F54, fixed); at every construction site of a symmetry operation the plane shift is planes-per-axial-position times the axial shift (F53, fixed). NOT decided: that the chosen symmetry operation maps the basic bin back to the requested bin, "
        "agreement with the image transformation, non-negativity / in-image / no duplicate voxel (ray-tracing numerics).",
        technique="static analysis: bit-field layout algebra, must-pass-through ordering on clang CFG, must-facts at early returns, "
        "affine path summaries compared between sibling functions",
    ),
    "C01": dict(
        text="Static analysis of the current source. Decides structural necessary conditions only: get_bin_for_det_pair (cylindrical and "
        "generic/blocks) has exactly the two dual outcomes selected by the swap flag of the det-pair table ((+timing, rings in order) / "
        "(-timing, rings exchanged)) and get_det_pos_pair_for_bin exchanges the positions exactly for a negative TOF index and stores "
        "|t|*mash; every read of a lazily built geometry table is preceded on every path by its ..._if_not_done_yet() (directly or via a "
        "callee that initialises whenever it reports success); every function changing an input of the ring-difference tables resets "
        "ring_diff_arrays_computed; table elements shared between copies of the object are replaced by fresh objects before being filled; what a lazily "
        "built detector/bin table stores is computed from scanner-fixed quantities only (anything a setter can change later - "
        "view mashing, number of views - is applied per call, not baked into the table - unless every setter of that input resets the table's flag); the integer "
        "division in the forward ring-pair map is exact: segments with one ring difference and odd (ring difference - offset) must be "
        "rejected - today they are accepted with a warning: KNOWN FINDING F22 (ring pairs not partitioned for max_delta-truncated last "
        "segments; replayed; not repaired, see DESIGN.md); the detector-pair table is read only for pairs of different detector numbers (F71, fixed). "
        "the window of unmashed TOF indices that get_all_det_pos_pairs_for_bin lists for TOF bin k is, symbolically, the pre-image of k under the round(u/m) of get_bin_for_det_pos_pair. NOT decided: that the interleaving formula and its hand inversion are mutual inverses, that the Michelogram formulas partition "
        "ring pairs, reported counts (modular arithmetic over runtime scanner parameters).",
        technique="static analysis: branch-structure duality check, must-pass-through with success-conditional callee summaries, "
        "setter invalidation, ownership rule for shared_ptr table elements",
    ),
    "C17": dict(
        text="Static analysis of the current source. Decides: every key type registrable through the add_key/add_vectorised_key API has a "
        "case in parse_value_in_line, in the scalar resp. vectorised switch of set_variable and in value_to_stream / "
        "vectorised_value_to_stream (what is registered can be parsed, stored and printed back); vectorised values are stored at index-1 "
        "only under a dominating size test with error() exit (unsigned comparison catches negative indices) and index presence must match "
        "the registration; the Interfile per-data-set vectors are sized with get_num_datasets(), the bound of the loops that index them; "
        "header parse and post_processing() results are tested on the reader chain; keywords are standardised before being stored or "
        "compared, alias resolution follows standardisation and precedes the look-up; list-valued header vectors that a helper indexes in lock step are each size-tested "
        "against one expected count (exit on mismatch) on every path to that call; a key registered with the address of a vector element survives every resize of that vector by a keyword processor (F44, F50, fixed); "
        "no non-literal text is copied into a fixed-size buffer in the Interfile readers without a length test (F47, fixed); counts from the header are range-checked before they size vectors (F45, fixed); "
        "the index of a vectorised key is converted strictly (F43, fixed). nothing parse_value_in_line evaluates before the keyword look-up can end in error() - comments and unknown keys are skipped whatever they contain (F80, a regression of the repair F43, fixed). in read_line a trailing carriage return is removed from a physical line before its last character is compared with the continuation character. NOT decided: absence of out-of-bounds access under "
        "arbitrary bytes for the whole parser, value formatting round trips.",
        technique="static analysis: switch exhaustiveness against the registration API, must-facts bounds, resolved-callee ordering "
        "(must-pass-through), result-use discipline",
    ),
    "C14": dict(
        text="Static analysis of the current source. Decides for LmToProjData::process_data: the segment and TOF batch loops step by "
        "their window width with window end min(max+1,start+width)-1 and the store is guarded by start<=coordinate<=end for both (every "
        "accepted event is stored in exactly one pass, whatever the numbers held in memory); later passes over a frame rewind to the "
        "saved frame start and reset the clock, the first pass saves that position after skipping to the frame start, and no record is "
        "consumed between the save / the rewind and the event loop; the store is "
        "dominated by range tests of tangential, axial and TOF index and bin_value>0 is the first acceptance test; the amount added is "
        "bin_value*event_increment with the documented prompt/delayed increment and the event budget decreases by the same increment; "
        "each allocated batch is saved and freed with the same window on every normal path; list-mode subsets select events by the "
        "residue class of the basic view. For the cached list-mode objective: the per-thread images the call-back accumulates into are all added to the output image after the event loop in "
        "the as-built and the OpenMP configuration (F24, fixed); the additive term cached for an event is taken from the piece whose segment AND TOF bin equal the event's (F25, fixed); a batch that "
        "continues in the stream without rewinding restores the clock from saved state; the value added to the sinogram is known to be positive at the store (F68, fixed) and every return path of get_bin_from_event has decoded the event into the caller's bin or marked it rejected (F69, fixed); every public setter of something LmToProjData::set_up() derives state from clears the set-up flag and derived flags are assigned on every path of set_up() (F70, fixed); every set-up path of the list-mode objective that decides to cache re-makes the event cache, or keeps it only under flags that every setter of a cache input clears; the quotient the list-mode gradient back-projects is evaluated only where its own singularity test failed (F78, fixed); the event cut-off of the list-mode objective counts the events of all batches (F79, fixed). NOT decided: event->detector decoding per scanner, time-frame arithmetic, frame additivity, "
        "list-mode gradient = sinogram gradient (numerical). Also decided (F91-F95, fixed): every path from an update of the clock to the histogramming of an event tests the clock against the frame end, "
        "in the event loop the clock follows every time record, later passes restart with the clock kept at the saved position, set_up() refuses non-positive batch sizes, "
        "TimeFrameDefinitions::operator== compares the number of frames, ListTime::set_time_in_secs inverts get_time_in_secs.",
        technique="static analysis: normalised loop descriptors, interval entailment from must-facts with a callee effect summary, "
        "must-pass-through pairing",
    ),
    "C20": dict(
        text="Static analysis of the current source. Decides for ML_norm: in every apply_*(data, factors, apply) the two branches on `apply` "
        "update the same element with *= resp. /= by the identical factor expression, and for efficiencies the factor is the product of the "
        "first and the second detector's entry; make_fan_data_remove_gaps_help and set_fan_data_add_gaps_help are duals over one index map "
        "(identical loops, get_det_pair_for_bin call, virtual-crystal gap predicates and index compaction; transfer reversed, symmetric fan "
        "entry written); FanProjData stores each detector pair once (symmetric storage chosen by operator()) and every other member "
        "function uses raw subscripts of the underlying array only for index ranges; the efficiency iteration updates in place, one detector at a time, from the current efficiencies (structural part of the KL descent); half the fan size covers both ends of the tangential range (known finding F60); format strings of the ML estimation are well-formed (F61, fixed). the KL distance over fan data gives every detector pair the same weight - whole rb range, or rb == ra treated apart (F82, fixed). NOT decided: fixed point and KL descent of the ML iterations (numerical).",
        technique="static analysis: sibling/dual agreement of branches and of paired functions over canonical keys with role renaming",
    ),
    "C09": dict(
        text="Static analysis of the current source, for QuadraticPrior, RelativeDifferencePrior and LogcoshPrior. Decides: in every "
        "neighbourhood loop the offset along an axis runs from max(w_min, c_min - c) to min(w_max, c_max - c) for that axis' index range, so "
        "every [c + d] subscript stays inside the image; every summand is proportional to weights[dz][dy][dx], multiplied under do_kappa by "
        "both voxels' kappa, and the result is multiplied exactly once by penalisation_factor; by closed-form algebra (sympy, both signs of "
        "x-y, symbolic parameters) the gradient summand is d/dx of the value's two visits of the voxel pair including the scale factors, "
        "vanishes for equal voxels, derivative_20/derivative_11 are its partial derivatives and derivative_11 is symmetric; in "
        "accumulate_Hessian_times_input the summand is w*(d20*v_c + d11*v_nb) off the centre, the centre element is skipped or treated by the same formula (defect F26, fixed) and every "
        "`continue` shortcut only skips summands that vanish under its condition (H v stays linear in v); value, gradient, Hessian row, Hessian-times-input and surrogate curvature of one prior sum over the same neighbourhood (per axis the same offset range). the interface functions that assign their result voxel by voxel do so in every iteration of the enclosing loops; every prior whose is_convex() can return true declares compute_Hessian and accumulate_Hessian_times_input (PLSPrior does not: known finding F65); for PLSPrior: the kappa factor reaches the gradient through elements read at shifted subscripts (F64, fixed) and every subscript c+1/c-1 is evaluated only where the matching bound test is known. NOT decided: "
        "the PLS formulas themselves, positive semi-definiteness, floating-point agreement with finite differences, degenerate epsilon == 0 branches.",
        technique="static analysis: loop-bound shape rule for neighbour offsets, closed-form calculus (sympy) on extracted summands "
        "with helper functions inlined",
    ),
    "C04": dict(
        text="Static analysis of the current source; structural necessary conditions only. Decides: row-level forward and back projection "
        "use the same matrix elements under the same plane guard and accumulate value*operand with the roles of bin and voxel exchanged; "
        "the matrix-based forward and back projectors issue the same row requests (loops, calls on matrix/symmetries/rows with the same "
        "arguments) up to forward_project<->back_project; forward projection into a data set writes only set_related_viewgrams of its "
        "subset and fill(0) under the zero flag; only the image-taking back_project wrapper starts a new target; the on-the-fly ray-tracing "
        "projector's tangential loop starts at the smallest |tangential position| of the requested range in all three sign configurations "
        "(case analysis). the range-taking convenience overloads of the projector base classes hand the caller's viewgrams and ranges to the implementation slot by slot (missing ranges = the viewgrams' full ranges) and the forward wrappers write nothing themselves; in the on-the-fly projector every proj_Siddon call fills every axial position its consumer loop reads; sibling implementations of actual_forward_project agree on overwriting the data present in the viewgrams (plain assignment, or - where the kernels accumulate with += - the requested range of every viewgram is set to 0 before the first kernel call; defect F34, fixed). Linearity, adjointness, additivity and on-the-fly = matrix equality are numerical and NOT decided. Also decided: in get_related_bins_factorised a related bin is listed under range tests of its own coordinates only (the uncached matrix projectors project exactly that list).",
        technique="static analysis: dual sibling comparison of call skeletons, must-facts guards, who-may-call, sign-case evaluation of "
        "an integer expression",
    ),
    "C10": dict(
        text="Static analysis of the current source. Decides: every key the Interfile image header writer (and its exam-information "
        "helpers) emits is registered or explicitly ignored by the header reader classes with the same vectorisation, after the repo's "
        "keyword normalisation (the checker's mirror is tied to the source); read_data_1d tests the stream after the raw read on every "
        "path to success and the image readers test read_data's result (a short file is reported); read_data and write_data handle the "
        "same NumericType enumerators, all but BIT/UNKNOWN_TYPE; the writer's first-pixel offset is voxel_size*min_index+origin and the "
        "reader recomputes origin = offset - voxel_size*min_index' with matching axes (first voxel position preserved); the scale factor "
        "for scaled-integer output pairs each data extreme with the output limit of the same sign and has a safety factor > 1; a "
        "non-vectorised exam-information key is emitted under conditions on its own value only, never on what is stored under another key; a key whose value comes "
        "from the image (first pixel offset, image scaling factor, data offset) is left out of the header only when its value is the "
        "default the reader classes give that key's storage (sentinel / 1 / 0; one default on every reader path), so a missing key "
        "reads back as what was written; a key the reader registers for one `type of data` only is written for that type only (known finding F28: data offset in bytes for NM data); "
        "the header writers leave the formatting state of the header stream as they found it (sticky manipulators / precision()/flags() put back on every path); "
        "every literal value written for a key with a value list is in the reader's list, and where enumerators are mapped to strings by a switch, enumerator e is written as list entry e (F27, fixed); "
        "per exam-info attribute the writer's bound on the getter implies the reader's bound on what it hands to the setter (F29, fixed); scale factors, calibration factor, frame times, voxel sizes and first pixel offsets are written with "
        "at least max_digits10 digits of their type (F30, F75, fixed), and so are energy window limits, half life and branching ratio (F90, fixed); "
        "`quantification units` is written only when the scale factors are exactly equal, as the reader demands; every value find_scale_factor stores is non-negative (sign analysis; F88, fixed) and floating-point output types "
        "do not get the full-range quotient (F86, fixed); convert_range rounds value/factor into the output type, not through a fixed-width int (F87, fixed); no write_data result is dropped by the image writers (F89, fixed). NOT "
        "decided: value preservation/quantisation bounds numerically, dynamic/parametric "
        "container bookkeeping.",
        technique="static analysis: writer/reader key-table agreement, must-pass-through, switch exhaustiveness and sibling agreement, "
        "expression-shape algebra",
    ),
    "C12": dict(
        text="Static analysis of the current source; structural clauses of C12 only. Decides: in every get_bin(LOR) implementation "
        "(arc-corrected and non-arc-corrected cylindrical, generic, blocks-on-cylindrical) a bin coordinate is never modified after the "
        "range test that decides found/missing on a path to the successful return, and a coordinate computed there is tested against both "
        "its bounds (a coordinate wrapped in a function, abs(x) <= max, tests that one bound only) before the bin can be returned as found; where a computed view beyond the last view is folded back by num_views the "
        "tangential position is negated and the ring difference is taken with exchanged end points under the same flag; by closed-form "
        "algebra arc-corrected get_s = tangential position * bin_size (uniform sampling, odd), non-arc-corrected get_s is odd, get_phi is "
        "affine in the view with slope azimuthal_angle_sampling, get_m is affine in the axial position with the segment's axial sampling, "
        "get_tantheta is odd in the ring difference and even in s and equals the axial distance over the TRANSAXIAL distance of the end points in both geometry families (F39, fixed); the azimuthal offset of view-mashed data is pi/(N/2)*(M-1)/2 with a real-valued (M-1)/2. the coordinate getters of the blocks/generic geometries are components of the one get_LOR conversion (a getter using only the z components of the detection points is refused). in every branch of get_sino_coords the swapped flag is true exactly when the end points are exchanged (F77, fixed); in find_cartesian_coordinates_given_scanner_coordinates the final ordering of the two points reads a local changed in exactly the branch that exchanges the detectors. NOT decided: that get_bin(get_LOR(bin)) returns the same or a "
        "neighbouring bin, agreement of the coordinates with the detectors' physical positions, TOF bin boundaries, arc correction "
        "preserving integrals (floating-point geometry over runtime scanner parameters).",
        technique="static analysis: typestate (range test after last modification) over clang CFG with short-circuit-aware ordering, "
        "branch-structure rule for the view wrap-around, closed-form parity/linearity algebra (sympy) on accessor bodies",
    ),
    "C19": dict(
        text="Static analysis of the current source; two structural clauses of C19 only. Decides: in the direct-convolution filters "
        "(ArrayFilter1D/2D/3DUsingConvolution) the loop of every kernel index runs exactly over the kernel elements whose data partner "
        "exists - max(k_min, c - in_max) .. min(k_max, c - in_min) with the kernel's and the data's index range of the same axis (1D: the "
        "upper bound; its start depends on the boundary condition) - so no coefficient is dropped and nothing outside the kernel is read; "
        "inverse_fourier / inverse_fourier_1d are the forward transform with the opposite sign followed by division by the number of "
        "elements; the padded-DFT filter moves data into and out of the periodic padded array only through the modulo map and its dual "
        "(copy in, filter in place, copy out, on every path); every call between the transforms passes an expression of the caller's sign for the callee's sign parameter (found by data flow from the exponent), never the default; no length guard of the one-dimensional transforms refuses an array length that arises for data of a supported length (powers of two 2..1024; guards folded over that list, following resize() and the calls between the transforms), and the real-data inverse returns as many elements as the forward transform was given (F62, fixed); kernel builders that limit the kernel by a maximum size rescale what they keep by a sum taken after the limit (F63, fixed). influencing and influenced index ranges of the convolution filters are dual (closed-form algebra); is_trivial() of the N-dimensional filters tests all N nesting levels of the kernel (F74, fixed). NOT decided: every numerical identity of C19 (inverse of forward, real/complex agreement, Parseval, padded-DFT route = "
        "direct convolution, separability, mean preservation).",
        technique="static analysis: loop-bound shape rule per subscript axis over canonical keys with single-definition locals inlined; "
        "resolved-callee/argument check of the inverse transforms",
    ),
    "C15": dict(
        text="Static analysis of the current source; structural clauses of C15 only. Decides for SSRB(out, in, do_norm): each output sinogram "
        "starts as a fresh empty sinogram, ACCUMULATES input sinograms (+=) and is stored once, in the same iteration of the output loop and "
        "on every path; the accumulation runs over all input views, the tangential range common to both data sets, all axial positions and "
        "TOF bins of the input, the output view being input view / (in_views / out_views) with error() for a non-divisible view count; the "
        "output is divided only when normalisation was requested. For zoom_image (3D and 2D): each axis is interpolated with zoom = in size / "
        "out size and offset = (out origin - in origin) / in size of THAT axis, and every output element is written (no part of the "
        "output keeps what the caller's image held before); the scaling switch covers every ZoomOptions::Scaling "
        "enumerator (preserve_sum unscaled, preserve_values product of all zooms, preserve_projections product of the zooms except x); the "
        "in-place and parameter-taking variants delegate to the one implementation with their own arguments in order. The geometry SSRB builds "
        "gives every output segment the ring-difference range and the axial extent (min/max of m reduced over ALL combined input segments) "
        "of the input segments o*n-n/2..o*n+n/2 it combines; the per-plane zoom takes its shortcut only for equal x- and y-size and numbers the planes of the new image from its own first plane (F58, F59, fixed). the detector tables a cloned geometry carries store nothing the setters change (C01.e evaluated here, because SSRB makes its output geometry by clone() and setters); the axial match of SSRB uses a tolerance that scales with the sampling (F76, fixed). NOT decided: that "
        "matching by get_m / get_k puts every input sinogram into the right output sinogram, count conservation, centre of mass, "
        "uniformity (numerical, over runtime data).",
        technique="static analysis: typestate of the output buffer (fresh/accumulate/store) by dominance and must-pass-through, normalised "
        "loop descriptors against the data sets' own range accessors, closed-form algebra (sympy) on zoom/offset/scale expressions, switch "
        "exhaustiveness, argument pass-through of delegating variants",
    ),
    "C07": dict(
        text="Static analysis of OSMAPOSLReconstruction::update_estimate; thin structural part of C07 only. Decides: one subset number is "
        "drawn per sub-iteration and used both for the gradient-plus-sensitivity and for the subset sensitivity it is divided by; the "
        "update image is computed, divided, optionally limited and only then multiplied into the current image on every path; on the prior "
        "branch the denominator loop computes exactly clamp(g/N + s, s/10, 10 s) (additive) resp. s*clamp(1+g, 1/10, 10) (multiplicative) "
        "- the documented bounds, compared as piecewise-linear functions with C++ integer division semantics - and the division follows that loop; the "
        "voxelwise loops advance all their iterators exactly once per iteration on every path, divide() zeroes an element only when both "
        "|denominator| and |numerator| are below the threshold, the multiplicative update multiplies element by element; an inter-update / "
        "inter-iteration filter is only ever applied through the positivity-preserving wrapper set_up installs around it (chained with a "
        "threshold), on every path; the subset a sub-iteration uses (ordered schedule) and the interval decisions of end_of_iteration_processing are "
        "functions of the sub-iteration number and shared settings only, never of start_subiteration_num (structural part of restartability). The EM update formula, "
        "no decision of update_estimate (locals inlined) reads start_subiteration_num. "
        "non-negativity, monotonicity, count preservation and equality of resumed and uninterrupted images are NOT decided.",
        technique="static analysis: must-pass-through ordering with resolved operands, closed-form evaluation of a straight-line loop "
        "body and exact piecewise-linear comparison",
    ),
    "C08": dict(
        text="Static analysis of OSSPSReconstruction::update_estimate. Decides: every modification of the current image is followed on every "
        "path by threshold_upper_lower over the whole image with lower bound 0 and upper bound `upper_bound` (iterates end in [0, upper "
        "bound]); every division `_1 / _2` is by the image that passed threshold_min_to_small_positive_value in this call, or by the stored "
        "denominator in the branch excluding the first executed sub-iteration, the stored one being copied from the thresholded image; the "
        "additive update is subgradient*num_subsets/D*relaxation with relaxation = alpha/(1+gamma*((n-1) div N)) for the 1-based sub-iteration number n (defect F36, fixed - the clause had encoded the off-by-one), added to the image "
        "afterwards; the denominator is built as the property defines it: the stored part is a fresh empty image into which the "
        "approximate Hessian applied to an image of ones is accumulated and then negated once (every element, every path), and the "
        "divisor is 2 * prior.parabolic_surrogate_curvature(current image) + stored part with a prior, the stored part without; every successful path of set_up() "
        "renews the stored denominator (the previous run modified it in place); a prior that says its surrogate curvature does not depend on the image reads no image element when computing it (F37, fixed); "
        "nothing that modifies the iterate is conditional on the sub-iteration the run started at (known finding F38: voxels the data do not determine are zeroed at every run start); the clamp - threshold_upper_lower or a hand-written one - applies each bound to every element unconditionally; set_up() refuses an upper bound <= 0 (F99, fixed). NOT "
        "decided: the values of the Hessian and curvature themselves, equality of resumed and uninterrupted images.",
        technique="static analysis: must-pass-through / dominance on clang CFG, must-facts at divisions, expression-shape matching "
        "of the update pipeline",
    ),
}

NOT_APPLICABLE = {
}

PENDING_REASON = "no static rule built for it yet in this framework (see DESIGN.md for the planned clauses); not claimed"


def main():
    props = [json.loads(l)["id"] for l in open(os.path.join(HERE, "properties.jsonl"))]
    checks = []
    for pid in props:
        if pid not in CLAIMED:
            continue
        c = CLAIMED[pid]
        checks.append(
            {
                "property_id": pid,
                "quick_cmd": "./check %s --tier quick" % pid,
                "thorough_cmd": "./check %s --tier thorough" % pid,
                "evidence_file": "evidence/%s.json" % pid,
                "replay_cmd_template": "./check %s --replay {path}" % pid,
                "engine": "stirfacts+engine",
                "level_claimed": {"category": "other", "text": c["text"], "design_ref": "DESIGN.md section 4, " + pid},
                "level_note": c.get("note", COMMON_NOTE),
                "technique": c["technique"],
            }
        )
    na = []
    for pid in props:
        if pid in CLAIMED:
            continue
        na.append({"property_id": pid, "reason": NOT_APPLICABLE.get(pid, PENDING_REASON)})
    man = {
        "version": 1,
        "setup_cmd": "make -C /verif/tools/stirfacts",
        "hooks": {
            "guard": "UCL_STIR_VERIF",
            "enable": "none needed: the checks analyse /repo's sources with clang (libTooling) and never build or run them; no hook exists in /repo",
            "baseline_off_cmd": "cmake --build /repo/_build && ctest --test-dir /repo/_build -j8 --timeout 900",
            "source_commits": [],
            "add_only": True,
        },
        "engines": [
            {
                "name": "stirfacts",
                "path": "tools/stirfacts/stirfacts.cc",
                "serves_properties": sorted(CLAIMED),
                "kind_free_text": "clang-14 libTooling extractor: typed AST + clang::CFG + class/enum facts as JSON per translation unit",
            },
            {
                "name": "engine",
                "path": "engine/",
                "serves_properties": sorted(CLAIMED),
                "kind_free_text": "Python static analyses over the extracted facts: dominators, must-pass-through, must-facts (branch conditions "
                "holding on all paths), interval entailment, finite-domain abstract interpretation, closed-form algebra (sympy), sibling comparison",
            },
        ],
        "checks": checks,
        "not_applicable": na,
        "notes": "Technique family: static analysis. Every check inspects /repo's current source on each run (compilation database "
        "regenerated from /repo/_build/build.ninja; no cache). Exit 2 = analysis broken (never a pass). tools/selftest.py runs the "
        "both-ways mutant self-test (mutants/ and seeded/) through scratch copies; /repo is never modified by a check.",
    }
    with open(os.path.join(HERE, "MANIFEST.json"), "w") as f:
        json.dump(man, f, indent=1)
    print("claimed:", sorted(CLAIMED), "not applicable:", [x["property_id"] for x in na])


if __name__ == "__main__":
    main()
