"""C18 - multi-threaded execution (OpenMP configuration of the sources: -fopenmp -DSTIR_OPENMP).

 a  RF6a double-checked lazy initialisation of the geometry tables
 b  RF6b per-(view,segment) lock discipline around the system-matrix cache
 c  RF6c every direct write to shared storage inside a parallel region is synchronised, per-thread, a reduction,
         or indexed by the work-sharing loop's own variable
 d  RF12 every non-const call on a shared object inside a parallel region is a reviewed thread-safe entry point
 e  RF2  file/buffer accesses of the two ProjData back-ends are inside their named critical section
 f  RF6  the scatter-integral cache is read/written atomically and only through its two accessors
 g  RF2  the append-only detection-point table never reallocates while in use: reserve(total_detectors) after every reset,
         appends inside the critical section and capped at that size
 h  RF1  per-thread accumulators (containers indexed by omp_get_thread_num()) are reduced / reset completely: every loop over
         them outside a region visits all slots (position-only continuation, never left early)
"""
import re

from engine.algebra import LocalDefs, data_slice
from engine.cfg import CFG
from engine.extract import Request
from engine.loops import describe
from engine.tree import key, lvalue_subscripts, root_of_lvalue, written_lvalues

LAZY_UNITS = [
    "src/buildblock/ProjDataInfoCylindricalNoArcCorr.cxx",
    "src/buildblock/ProjDataInfoGenericNoArcCorr.cxx",
    "src/buildblock/ProjDataInfoCylindrical.cxx",
    "src/buildblock/ProjDataInfoGeneric.cxx",
]
LAZY_CLASSES = ["stir::ProjDataInfoCylindricalNoArcCorr", "stir::ProjDataInfoGenericNoArcCorr", "stir::ProjDataInfoCylindrical", "stir::ProjDataInfoGeneric"]

REGION_UNITS = [
    "src/recon_buildblock/distributable.cxx",
    "src/recon_buildblock/BackProjectorByBin.cxx",
    "src/recon_buildblock/ForwardProjectorByBin.cxx",
    "src/recon_buildblock/BinNormalisation.cxx",
    "src/recon_buildblock/PoissonLogLikelihoodWithLinearModelForMeanAndProjData.cxx",
    "src/recon_buildblock/PoissonLogLikelihoodWithLinearModelForMeanAndListModeDataWithProjMatrixByBin.cxx",
    "src/scatter_buildblock/ScatterSimulation.cxx",
    "src/analytic/FBP2D/FBP2DReconstruction.cxx",
    "src/buildblock/multiply_crystal_factors.cxx",
    "src/buildblock/ML_norm.cxx",
]

# reviewed thread-safe entry points: (callee regex) -> reason / the mechanism that makes it safe
REVIEWED_CALLEES = [
    (r"stir::BackProjectorByBin::back_project$", "accumulates into _local_output_image_sptrs[omp_get_thread_num()] (checked: C18.c on its body)"),
    (r"stir::ForwardProjectorByBin::forward_project$", "reads the shared input image only; writes the caller's thread-local viewgrams (checked: C18.c on its body)"),
    (r"stir::ProjMatrixByBin::get_proj_matrix_elems_for_one_bin$", "cache guarded by per-(view,segment) locks (C18.b)"),
    (r"stir::ScatterSimulation::scatter_estimate$", "reads images; caches through atomic accessors (C18.f); detection points appended under critical"),
    (r"stir::ProjData::set_(related_viewgrams|viewgram|sinogram|segment)$", "the file and memory back-ends serialise their stream/buffer accesses internally (C18.e)"),
    (r"::actual_(back|forward)_project$", "projector implementations write only their arguments; the matrix-based ones share only the locked cache (C18.b)"),
    (r"std::shared_ptr::shared_ptr$|std::__shared_ptr::__shared_ptr$", "copying a shared_ptr only touches its atomic reference count"),
]
# function-pointer slots called inside regions (resolved by address-taken sets in the repo): reason
REVIEWED_INDIRECT = {
    "stir::distributable_computation": "RPC_process_related_viewgrams_* only use the projectors' thread-safe entry points and their by-reference per-thread accumulators",
    "stir::LM_distributable_computation": "LM call-backs write only their by-reference per-thread arguments",
}
SYNC = ("critical", "atomic", "single", "master")


def requests():
    r = [Request(u, fn=[c + "::.*" for c in LAZY_CLASSES], config="openmp") for u in LAZY_UNITS]
    r += [Request("src/recon_buildblock/ProjMatrixByBin.cxx", fn=["stir::ProjMatrixByBin::.*"], config="openmp")]
    r += [Request(u, fn=["stir::.*"], config="openmp", files=["/repo/" + re.escape(u), ".*/recon_buildblock/distributable\\.txx"]) for u in REGION_UNITS]
    r += [
        Request("src/buildblock/ProjDataFromStream.cxx", fn=["stir::ProjDataFromStream::.*"], config="openmp"),
        Request("src/buildblock/ProjDataInMemory.cxx", fn=["stir::ProjDataInMemory::.*", "stir::detail::copy_data_.*"], config="openmp"),
        Request("src/scatter_buildblock/scatter_detection_modelling.cxx", fn=["stir::ScatterSimulation::.*"], config="openmp", files=["/repo/src/scatter_buildblock/.*"]),
        Request("src/scatter_buildblock/cached_single_scatter_integrals.cxx", fn=["stir::ScatterSimulation::.*"], config="openmp"),
    ]
    return r


def uniq(fns):
    seen = set()
    out = []
    for f in fns:
        if f.is_dependent and any((g.file, g.body.line if g.body else 0) == (f.file, f.body.line if f.body else 0) and not g.is_dependent for g in fns):
            continue
        k = (f.file, f.body.line if f.body is not None else f.line, f.qn)
        if k in seen:
            continue
        seen.add(k)
        out.append(f)
    return out


def omp_anc(n, stop=None):
    out = []
    for a in n.ancestors():
        if a is stop:
            break
        if a.k == "OMP":
            out.append(a)
    return out


# ----------------------------------------------------------------------------------------------- a: lazy init
def rule_a(ctx, fns):
    byqn = {}
    for f in fns:
        byqn.setdefault(f.qn, []).append(f)
    n_inst = 0
    for f in fns:
        if not f.short.endswith("_if_not_done_yet") or f.body is None:
            continue
        n_inst += 1
        fid = f.qn
        # the flag: field read inside an `omp atomic read`
        atomics = [n for n in f.walk() if n.k == "OMP" and n.get("omp") == "atomic" and any(c["ck"] == "read" for c in n.get("clauses", []))]
        flags = set()
        for a in atomics:
            for m in a.walk():
                if m.k == "MemberExpr" and m.get("mk") == "field" and m.c and m.c[0].k == "CXXThisExpr":
                    flags.add(m.get("n"))
        crits = [n for n in f.walk() if n.k == "OMP" and n.get("omp") == "critical"]
        if len(flags) != 1:
            ctx.ob("C18.a-lazy-init", fid, "unlocked-read-is-atomic", False, f.where(), "no `omp atomic read` of exactly one flag field (found %s)" % sorted(flags))
            continue
        flag = flags.pop()
        reads = [m for m in f.walk() if m.k == "MemberExpr" and m.get("n") == flag and m.c and m.c[0].k == "CXXThisExpr"]
        unsync = [m for m in reads if not any(a.get("omp") in ("atomic", "critical") for a in omp_anc(m))]
        ctx.ob("C18.a-lazy-init", fid, "unlocked-read-is-atomic", not unsync, f.where(), "every read of %s is under omp atomic read or inside the critical" % flag if not unsync else "plain read of %s at line %d outside atomic/critical" % (flag, unsync[0].line))
        # re-check and builder call inside a named critical, builder guarded by !flag
        builders = [c for c in f.calls() if c.k == "CXXMemberCallExpr" and c.c and c.c[0].k == "CXXThisExpr" and c.callee and c.callee.split("::")[-1].startswith("initialise")]
        ok = bool(crits) and bool(builders)
        detail = ""
        if ok:
            for b in builders:
                inside = [a for a in omp_anc(b) if a.get("omp") == "critical" and a.get("name")]
                if not inside:
                    ok = False
                    detail = "builder %s called outside a named critical section" % b.callee
                    break
                cfg = CFG(f)
                facts = cfg.facts_at(b)
                if not any(k == "this." + flag and tv is False for k, tv, _r in facts):
                    ok = False
                    detail = "builder call not guarded by a re-check of %s inside the critical" % flag
                    break
                # the re-check read must itself be inside the same critical
                rechecks = [m for m in reads if any(a is inside[0] for a in omp_anc(m))]
                if not rechecks:
                    ok = False
                    detail = "flag is not re-read inside the critical section"
                    break
                detail = "critical(%s): re-check of %s guards %s" % (inside[0].get("name"), flag, b.callee.split("::")[-1])
        else:
            detail = "no critical section / no builder call"
        ctx.ob("C18.a-lazy-init", fid, "recheck-and-build-in-critical", ok, f.where(), detail)
        # builder: publish last, on every normal exit
        for b in builders:
            for bf in byqn.get(b.callee, [])[:1]:
                if bf.body is None or not bf.cfg_raw:
                    continue
                cfgb = CFG(bf)
                stores = [n for n in bf.walk() if n.k == "BinaryOperator" and n.op == "=" and key(n.c[0]) == "this." + flag and n.c[1].strip().k == "CXXBoolLiteralExpr" and n.c[1].strip().get("v") is True]
                sids = {n.i for n in stores}
                miss = cfgb.paths_avoiding([(cfgb.entry, -1)], lambda n: n.i in sids)
                ctx.ob("C18.a-lazy-init", bf.qn, "flag-set-on-every-exit", bool(stores) and miss is None, bf.where(), "%s = true on every normal path" % flag if stores and miss is None else "a normal path leaves the builder without setting %s" % flag)

                def table_write(n, flag=flag):
                    for e in written_lvalues(n):
                        r = root_of_lvalue(e)
                        if r.startswith("this.") and r not in ("this." + flag,) or r == "this()":
                            return True
                    return False

                late = None
                for st in stores:
                    p = cfgb.pos.get(st.i)
                    if p is None:
                        continue
                    w = cfgb.paths_avoiding([p], lambda n: False, target_pred=table_write, to_exit=False)
                    if w is not None:
                        late = st
                ctx.ob("C18.a-lazy-init", bf.qn, "publish-after-tables-complete", bool(stores) and late is None, bf.where(), "no table write can follow the store %s = true" % flag if late is None else "a table write is reachable after %s = true (line %d): readers may see an incomplete table" % (flag, late.line))
        # nobody else sets the flag to true
        cls = f.cls
        others = []
        for g in fns:
            if g.cls != cls or g.qn in [b.callee for b in builders]:
                continue
            for n in g.walk():
                if n.k == "BinaryOperator" and n.op == "=" and key(n.c[0]) == "this." + flag and n.c[1].strip().k == "CXXBoolLiteralExpr" and n.c[1].strip().get("v") is True:
                    others.append(g.qn)
        ctx.ob("C18.a-lazy-init", fid, "only-builder-publishes", not others, f.where(), "only the builder stores true to %s" % flag if not others else "%s also stores true to %s" % (others, flag))
    return n_inst


# ----------------------------------------------------------------------------------------------- b: cache locks
def rule_b(ctx, fns):
    n = 0
    for f in fns:
        if f.cls != "stir::ProjMatrixByBin" or f.body is None or not f.cfg_raw:
            continue
        acc = [m for m in f.walk() if m.k == "CXXOperatorCallExpr" and m.op == "[]" and len(m.c) == 2 and m.c[0].strip().k == "CXXOperatorCallExpr" and key(m.c[0].strip().c[0]) == "this.cache_collection"]
        if not acc or f.short in ("set_up", "clear_cache", "ProjMatrixByBin"):
            continue
        cfg = CFG(f)

        def lock_call(n, which):
            return n.k == "CallExpr" and n.callee == which and "cache_locks" in key(n, True)

        for a in acc:
            idx = (key(a.c[0].strip().c[1]), key(a.c[1]))
            want = "(& this.cache_locks[%s][%s])" % idx

            def is_set(n, want=want):
                return lock_call(n, "omp_set_lock") and key(n.c[0]) == want

            def is_unset(n, want=want):
                return lock_call(n, "omp_unset_lock") and key(n.c[0]) == want

            w1 = cfg.must_pass_from_entry([a], is_set)
            # no unset between the lock and the access: from every unset, the access is not reachable without a new set
            unsets = [m for m in f.walk() if is_unset(m)]
            w2 = None
            for u in unsets:
                p = cfg.pos.get(u.i)
                if p is not None:
                    w2 = w2 or cfg.paths_avoiding([p], is_set, target_pred=lambda n, a=a: n.i == a.i, to_exit=False)
            ok = w1 is None and w2 is None
            ctx.ob("C18.b-cache-lock", f.qn, "access-under-lock:cache_collection[%s][%s]@%s" % (key(a.c[0].strip().c[1], True), key(a.c[1], True), _ordinal(acc, a)), ok, a.where(), "dominated by omp_set_lock of the same (view,segment) lock, lock still held" if ok else "cache access reachable without holding its lock")
            n += 1
        sets = [m for m in f.walk() if lock_call(m, "omp_set_lock")]
        for s in sets:
            want = key(s.c[0])
            w = cfg.must_pass_before_exit([s], lambda n, want=want: lock_call(n, "omp_unset_lock") and key(n.c[0]) == want)
            # and no abort (error/throw) while holding it
            p = cfg.pos.get(s.i)
            ab = None
            if p is not None:
                seen, todo = set(), [p[0]]
                # walk blocks reachable without passing unset
                ab = _abort_reachable(cfg, p, lambda n, want=want: lock_call(n, "omp_unset_lock") and key(n.c[0]) == want)
            ok = w is None and not ab
            ctx.ob("C18.b-cache-lock", f.qn, "lock-released-on-all-paths@%s" % _ordinal(sets, s), ok, s.where(), "every path from omp_set_lock reaches the matching omp_unset_lock before returning; no error()/throw while held" if ok else ("return while holding the lock: blocks %s" % w if w else "error()/throw reachable while holding the lock"))
            n += 1
    return n


def _ordinal(lst, x):
    return [i for i, y in enumerate(lst) if y is x][0]


def _abort_reachable(cfg, start, stop_pred):
    seen = set()
    todo = [(start[0], start[1] + 1)]
    while todo:
        b, i = todo.pop()
        B = cfg.blocks[b]
        blocked = False
        for n in B.elems[i:]:
            if stop_pred(n):
                blocked = True
                break
        if blocked:
            continue
        if B.aborts:
            return True
        for s in B.succs:
            if s is not None and s not in seen:
                seen.add(s)
                todo.append((s, 0))
    return False


# ----------------------------------------------------------------------------------------------- c/d: regions
def _thread_num_vars(scope):
    out = set()
    for m in scope.walk():
        if m.k == "VarDecl" and m.c and key(m.c[0].strip()) == "omp_get_thread_num()":
            out.add("v%d" % m.get("d"))
    return out


def _assoc_loop_vars(directive):
    """iteration variables of the loops associated with a work-sharing loop directive (collapse aware)"""
    nloops = 1
    for c in directive.get("clauses", []):
        if c["ck"] == "collapse" and isinstance(c.get("n"), int):
            nloops = c["n"]
    out = set()
    node = directive.c[0] if directive.c else None
    while node is not None and nloops > 0:
        if node.k == "ForStmt":
            for m in node.c[0].walk():
                if m.k == "VarDecl":
                    out.add("v%d" % m.get("d"))
                elif m.k == "BinaryOperator" and m.op == "=":
                    out.add(root_of_lvalue(m.c[0]))
            nloops -= 1
            node = node.c[3]
        elif node.k == "CompoundStmt" and len(node.c) == 1:
            node = node.c[0]
        elif node.k == "CompoundStmt":
            fors = [x for x in node.c if x.k == "ForStmt"]
            node = fors[0] if len(fors) == 1 else None
        else:
            node = None
    return out


def _clause_vars(directive, kinds):
    out = set()
    for c in directive.get("clauses", []):
        if c["ck"] in kinds:
            for v in c.get("vars", []):
                if "d" in v:
                    out.add("v%d" % v["d"])
    return out


def analyse_scope(ctx, fn, scope, region, rule_prefix, label):
    """scope: AST subtree executed by several threads at once (a parallel region, or the body of a function that is a
    reviewed thread-safe entry point).  region: the OMP parallel directive or None for entry-point bodies."""
    inner = {"v%d" % m.get("d") for m in scope.walk() if m.k == "VarDecl"}
    # lambda / catch parameters declared inside
    tnum = _thread_num_vars(scope) | _thread_num_vars(fn.body)
    private = set()
    loopvars = set()
    dirs = [d for d in scope.walk() if d.k == "OMP"] + ([region] if region is not None else [])
    for d in dirs:
        private |= _clause_vars(d, ("private", "firstprivate", "lastprivate", "reduction"))
        if d.get("omp") in ("for", "parallel for", "for simd", "parallel for simd"):
            loopvars |= _assoc_loop_vars(d)
    n_obl = 0
    for n in scope.walk():
        lvs = written_lvalues(n)
        if not lvs:
            continue
        sync = [a for a in omp_anc(n, stop=scope.parent) if a.get("omp") in SYNC]
        for e in lvs:
            root = root_of_lvalue(e)
            if root == "?" or root in inner or root in private or root in loopvars:
                continue
            if root.startswith("v") and fn.param_by_root(root) is not None and region is None:
                continue  # parameters of an entry point are the calling thread's own objects; only the object's fields are shared
            subs = lvalue_subscripts(e)
            subkeys = [key(s.strip()) for s in subs]
            per_thread = any(k in tnum or k == "omp_get_thread_num()" for k in subkeys)
            by_loopvar = any(k in loopvars for k in subkeys)
            is_call = n.k == "CXXMemberCallExpr" and n.c and n.c[0] is e
            what = key(e, True)[:80]
            scalar = re.fullmatch(r"(const )?(unsigned |signed |long )*(int|long|short|char|float|double|bool|size_t|std::size_t)", e.type.strip()) is not None
            if (is_call or (n.is_call() and e is not (n.c[0] if n.c else None)) or n.k in ("CallExpr",)) and not scalar:
                # ---- rule d: a call that may modify a shared object
                callee = n.callee or ("indirect:" + (key(n.c[0], True) if n.c else "?"))
                if sync or per_thread or by_loopvar:
                    ok, why = True, "synchronised (%s)" % sync[0].get("omp") if sync else "per-thread / per-iteration element"
                else:
                    ok, why = False, "non-const use of shared %s by %s without synchronisation and not a reviewed thread-safe entry point" % (what, callee)
                    if n.callee:
                        for pat, reason in REVIEWED_CALLEES:
                            if re.search(pat, n.callee):
                                ok, why = True, "reviewed: " + reason
                    else:
                        # a call through the enclosing function's own function-pointer parameter (the work item's call-back)
                        fp = n.c[0].strip() if n.c else None
                        is_fp_param = fp is not None and fp.k == "DeclRefExpr" and fp.get("dk") == "param"
                        if is_fp_param and fn.qn in REVIEWED_INDIRECT:
                            ok, why = True, "reviewed: " + REVIEWED_INDIRECT[fn.qn]
                ctx.ob(rule_prefix + "d-shared-object-calls", fn.qn, "%s:%s(%s)" % (label, callee.split("::")[-1], what), ok, n.where(), why)
                n_obl += 1
            else:
                # ---- rule c: direct write
                if sync:
                    ok, why = True, "inside omp %s" % sync[0].get("omp")
                elif per_thread:
                    ok, why = True, "element selected by omp_get_thread_num()"
                elif by_loopvar:
                    ok, why = True, "element selected by the work-sharing loop's own variable"
                else:
                    ok, why = False, "unsynchronised write to shared %s" % what
                    if n.k == "BinaryOperator" and n.op == "=" and n.c[1].strip().k == "CXXBoolLiteralExpr" and root.startswith("v") and key(e) == root:
                        # a shared flag to which every thread stores the same constant and that nobody reads inside the region:
                        # the stores are idempotent (whatever their order) and the value is only looked at after the region
                        lit = n.c[1].strip().get("v")
                        other_w = [m for m in scope.walk() if m is not n and root in {root_of_lvalue(x) for x in written_lvalues(m)} and not (m.k == "BinaryOperator" and m.op == "=" and m.c[1].strip().k == "CXXBoolLiteralExpr" and m.c[1].strip().get("v") == lit)]
                        reads = [m for m in scope.walk() if m.k == "DeclRefExpr" and "v%d" % m.get("d") == root and not (m.parent is not None and m.parent.k == "BinaryOperator" and m.parent.op == "=" and m.parent.c[0] is m)]
                        # the only tolerated reads: `if (flag) continue;` - a monotone flag used to skip remaining work early; a stale
                        # value only means some more work is done before the error is raised after the region
                        def skip_only(r):
                            p_ = r.parent
                            while p_ is not None and p_.k == "Cast":
                                p_ = p_.parent
                            return p_ is not None and p_.k == "IfStmt" and len(p_.c) == 2 and (p_.c[1].k in ("ContinueStmt", "BreakStmt") or (p_.c[1].k == "CompoundStmt" and len(p_.c[1].c) == 1 and p_.c[1].c[0].k in ("ContinueStmt", "BreakStmt")))

                        if not other_w and all(skip_only(r) for r in reads):
                            ok, why = True, "idempotent store: every thread stores the same constant %s to this flag; inside the region it is only read to skip remaining work (`if (flag) continue;`)" % ("true" if lit else "false")
                ctx.ob(rule_prefix + "c-shared-writes", fn.qn, "%s:%s" % (label, what), ok, n.where(), why)
                n_obl += 1
    return n_obl


def rule_cd(ctx, fns):
    nreg = 0
    for f in fns:
        if f.body is None:
            continue
        regs = [n for n in f.walk() if n.k == "OMP" and n.get("omp", "").startswith("parallel")]
        for idx, rg in enumerate(regs):
            nreg += 1
            analyse_scope(ctx, f, rg, rg, "C18.", "region%d" % idx)
    # bodies of the reviewed entry points of the projectors
    for f in fns:
        if f.body is None:
            continue
        if (f.qn == "stir::BackProjectorByBin::back_project" and "RelatedViewgrams" in f.sig) or (f.qn == "stir::ForwardProjectorByBin::forward_project" and "RelatedViewgrams" in f.sig and "ProjData" not in f.sig):
            analyse_scope(ctx, f, f.body, None, "C18.", "entry(%s)" % f.sig[:40])
    return nreg


# ----------------------------------------------------------------------------------------------- e: back-end I/O in critical
def rule_e(ctx, pdfs, pdim):
    n = 0
    for f in pdfs:
        if f.cls != "stir::ProjDataFromStream" or f.body is None:
            continue
        ios = [c for c in f.calls() if c.callee in ("stir::detail::checked_seekg", "stir::detail::checked_seekp", "stir::read_data", "stir::write_data") or (c.callee or "").endswith("::flush") and "sino_stream" in key(c, True)]
        if not ios:
            continue
        if f.short in ("get_bin_value", "set_bin_value"):
            ctx.stats.setdefault("single_bin_accessors_not_synchronised", []).append(f.qn)
            continue
        bad = [c for c in ios if not any(a.get("omp") == "critical" and a.get("name") == "PROJDATAFROMSTREAMIO" for a in omp_anc(c))]
        ctx.ob("C18.e-backend-io-in-critical", f.qn + "(" + f.sig + ")", "stream-io", not bad, f.where(), "%d seek/read/write/flush calls, all inside critical(PROJDATAFROMSTREAMIO)" % len(ios) if not bad else "%s at line %d outside critical(PROJDATAFROMSTREAMIO)" % (bad[0].callee, bad[0].line))
        n += 1
    for f in pdim:
        if f.qn.startswith("stir::detail::copy_data_") and f.body is not None:
            ptr = [c for c in f.calls() if re.search(r"get_(const_)?data_ptr$|release_(const_)?data_ptr$", c.callee or "")] + [c for c in f.calls() if c.callee in ("stir::fill_from", "stir::copy_to")]
            bad = [c for c in ptr if not any(a.get("omp") == "critical" and a.get("name") == "PROJDATAINMEMORYCOPY" for a in omp_anc(c))]
            ctx.ob("C18.e-backend-io-in-critical", f.qnt, "buffer-copy", bool(ptr) and not bad, f.where(), "%d pointer/copy calls inside critical(PROJDATAINMEMORYCOPY)" % len(ptr) if ptr and not bad else "buffer access outside the critical")
            n += 1
    return n


# ----------------------------------------------------------------------------------------------- f: scatter cache
def rule_f(ctx, fns):
    n = 0
    for f in fns:
        if not f.short.startswith("cached_") or f.body is None:
            continue
        # the cell pointer: the pointer local initialised with the address of an element of a `cached_...` member
        loc = [m for m in f.walk() if m.k == "VarDecl" and m.c and (m.get("t") or "").rstrip().endswith("*") and any(x.k == "UnaryOperator" and x.op == "&" and "this.cached_" in key(x.c[0]) for x in m.c[0].walk())]
        if not loc:
            continue
        lv = "v%d" % loc[0].get("d")
        derefs = [m for m in f.walk() if m.k == "UnaryOperator" and m.op == "*" and key(m.c[0]) == lv]
        for d in derefs:
            a = [x for x in omp_anc(d) if x.get("omp") == "atomic"]
            p = d.parent
            is_write = p is not None and p.k == "BinaryOperator" and p.op == "=" and p.c[0] is d
            want = "write" if is_write else "read"
            ok = bool(a) and any(c["ck"] == want for c in a[0].get("clauses", []))
            why = "cache cell %s under omp atomic %s" % (want, want)
            if not ok and not is_write:
                # a plain re-read is tolerated only after the cell was (atomically) observed to hold its final value:
                # every writer stores the same deterministic value, so the re-read cannot differ
                cfg = CFG(f)
                if any(k.startswith("(!= ") and "cache_init_value" in k and tv is True for k, tv, _r in cfg.facts_at(d)):
                    ok = True
                    why = "plain re-read dominated by the test `value != cache_init_value` on the atomically read value"
            ctx.ob("C18.f-scatter-cache-atomic", f.qn, "%s@%s" % (want, _ordinal(derefs, d)), ok, d.where(), why if ok else "cache cell %s without omp atomic %s" % (want, want))
            n += 1
    return n


def rule_g_append_only_table(ctx, fns):
    """detection_points_vector is appended to under a critical section while other threads index it and hold references
    to its elements without a lock.  That is only safe if appending never reallocates: whoever empties or replaces the
    vector must reserve room for all detectors before returning, and appends stop at that size."""
    n = 0
    for f in fns:
        if f.body is None or not f.cfg_raw or f.is_ctor:
            continue
        resets = [m for m in f.walk() if (m.k == "CXXMemberCallExpr" and (m.callee or "").split("::")[-1] in ("clear", "swap", "resize", "shrink_to_fit") and "detection_points_vector" in key(m, True)) or (m.k in ("BinaryOperator", "CXXOperatorCallExpr") and m.op == "=" and key(m.c[0], True) == "this.detection_points_vector")]
        if not resets:
            continue
        cfg = CFG(f)

        def is_reserve(x):
            return x.k == "CXXMemberCallExpr" and (x.callee or "").endswith("vector::reserve") and key(x.c[0], True) == "this.detection_points_vector" and "total_detectors" in key(x, True)

        w = cfg.must_pass_before_exit([r for r in resets if r.i in cfg.pos], is_reserve)
        ctx.ob("C18.g-append-only-table", f.qn + "(" + f.sig[:30] + ")", "reserve-after-reset", w is None, f.where(), "after emptying detection_points_vector its capacity is reserved for total_detectors on every path" if w is None else "detection_points_vector is emptied/replaced and a path returns without reserve(total_detectors): a later push_back under the critical section reallocates while other threads hold references")
        n += 1
    # the cap the appends stop at (total_detectors) and the capacity reserved must be the same number when the function returns:
    # whoever changes the cap re-reserves for the NEW value afterwards, on every path
    from engine.tree import root_of_lvalue, written_lvalues

    for f in fns:
        if f.body is None or not f.cfg_raw or f.is_ctor:
            continue
        capw = [m for m in f.walk() if m.i is not None and "this.total_detectors" in {root_of_lvalue(e) for e in written_lvalues(m)}]
        if not capw:
            continue
        cfg = CFG(f)

        def is_reserve2(x):
            return x.k == "CXXMemberCallExpr" and (x.callee or "").endswith("vector::reserve") and key(x.c[0], True) == "this.detection_points_vector" and "total_detectors" in key(x, True)

        w = cfg.must_pass_before_exit([r for r in capw if r.i in cfg.pos], is_reserve2)
        ctx.ob("C18.g-append-only-table", f.qn + "(" + f.sig[:30] + ")", "reserve-after-cap-change", w is None, capw[0].where(), "after total_detectors changes, room for that many detection points is reserved on every path" if w is None else "total_detectors (the size the appends stop at) is changed and a path returns without reserve(total_detectors) afterwards: the capacity reserved belongs to the old value, a push_back under the critical section can reallocate while other threads hold references")
        n += 1
    for f in fns:
        if f.short == "find_in_detection_points_vector" and f.cfg_raw:
            cfg = CFG(f)
            pb = [c for c in f.calls() if (c.callee or "").endswith("vector::push_back") and "detection_points_vector" in key(c, True)]
            for i, c in enumerate(pb):
                crit = any(a.get("omp") == "critical" for a in omp_anc(c))
                facts = cfg.facts_at(c)
                capped = any(tv is False and k.startswith("(== ") and "detection_points_vector.size()" in k and "total_detectors" in k for k, tv, _r in facts)
                ctx.ob("C18.g-append-only-table", f.qn, "append-in-critical-below-capacity@%d" % i, crit and capped, c.where(), "push_back inside the critical section and only while size() != total_detectors (error otherwise)" if crit and capped else "append outside critical=%s / without the size()==total_detectors stop=%s" % (not crit, not capped))
                n += 1
    return n


# ----------------------------------------------------------------------------------------------- h: per-thread accumulators
def _subscript_root_and_index(n):
    """X[i] / X.at(i) -> (root of X, index node)"""
    if n.k == "CXXOperatorCallExpr" and n.op == "[]" and len(n.c) == 2:
        return root_of_lvalue(n.c[0]), n.c[1].strip()
    if n.k == "CXXMemberCallExpr" and (n.callee or "").endswith("::at") and len(n.c) == 2:
        return root_of_lvalue(n.c[0]), n.c[1].strip()
    return None, None


def rule_h_per_thread_reduction(ctx, fns):
    """Per-thread accumulators (containers indexed by omp_get_thread_num()) are combined after the region.  Every loop outside a
    parallel region that walks such a container must visit ALL its slots: a counting loop 0..size()-1 (or begin()..end(), a
    range-for, std::accumulate over begin()/end()) whose continuation depends on the position only and that is never left early.
    Otherwise the contribution of a higher-numbered thread is lost (or survives a reset) whenever a lower-numbered one had no work."""
    # 1. the per-thread containers: fields (per class) and locals (per function) subscripted by a thread number
    fields, locals_ = {}, {}
    for f in fns:
        if f.body is None:
            continue
        tn = _thread_num_vars(f.body)
        for m in f.walk():
            r, i = _subscript_root_and_index(m)
            if r is None:
                continue
            ik = key(i)
            if ik in tn or ik == "omp_get_thread_num()":
                if r.startswith("this."):
                    fields.setdefault(f.cls, set()).add(r)
                elif r.startswith("v"):
                    locals_.setdefault((f.file, f.line, f.qn), set()).add(r)
    # a container whose element addresses are handed out through a per-thread container is per-thread as well (PT[t] = &Y[t])
    for f in fns:
        if f.body is None:
            continue
        k = (f.file, f.line, f.qn)
        for m in f.walk():
            if m.k in ("BinaryOperator", "CXXOperatorCallExpr") and m.op == "=" and len(m.c) == 2:
                r, _i = _subscript_root_and_index(m.c[0].strip())
                rhs = m.c[1].strip()
                if r is not None and (r in locals_.get(k, set()) or r in fields.get(f.cls, set())) and rhs.k == "UnaryOperator" and rhs.op == "&":
                    r2, _i2 = _subscript_root_and_index(rhs.c[0].strip())
                    if r2 is not None and r2.startswith("v"):
                        locals_.setdefault(k, set()).add(r2)
                    elif r2 is not None and r2.startswith("this."):
                        fields.setdefault(f.cls, set()).add(r2)
    n = 0
    role = {}  # (class, field container) -> {"reduce": node, "reset": node}: complete loops outside regions that sum / zero the slots
    for f in fns:
        if f.body is None:
            continue
        mine = set(fields.get(f.cls, set())) | set(locals_.get((f.file, f.line, f.qn), set()))
        dname = {"v%d" % m.get("d"): m.get("n") for m in f.walk() if m.k == "VarDecl"}

        def shown(X):
            return dname.get(X) or X.replace("this.", "")

        if not mine:
            continue

        def in_region(x):
            return any(a.k == "OMP" and a.get("omp", "").startswith("parallel") for a in x.ancestors())

        def container_of(e):
            """root of the per-thread container a loop bound / iterator expression refers to"""
            for m in e.walk():
                if m.k in ("MemberExpr", "DeclRefExpr"):
                    r = root_of_lvalue(m)
                    if r in mine:
                        return r
            return None

        fid = f.qn + "(" + f.sig[:30] + ")"
        # 2a. loops
        for lp in f.walk():
            if lp.k not in ("ForStmt", "WhileStmt", "CXXForRangeStmt", "DoStmt") or in_region(lp):
                continue
            body = lp.c[-1]
            # does the loop read elements of a per-thread container?
            touched = set()
            for m in body.walk():
                r, i = _subscript_root_and_index(m)
                if r in mine:
                    touched.add(r)
            hdr = [c for c in lp.c[:-1]]
            for h in hdr:
                r = container_of(h)
                if r is not None and any(x.is_call() and (x.callee or "").split("::")[-1] in ("begin", "end", "cbegin", "cend") for x in h.walk()):
                    touched.add(r)
            if lp.k == "CXXForRangeStmt":
                for h in hdr:
                    r = container_of(h)
                    if r is not None:
                        touched.add(r)
            for X in sorted(touched):
                ok = False
                det = "loop shape not recognised"
                if lp.k == "ForStmt":
                    d = describe(lp, names=False)
                    init, cond, inc = lp.c[0], lp.c[1].strip(), lp.c[2].strip()
                    if d is not None:
                        up = d["upper"].replace("static_cast<int>", "")
                        full = d["init"] == "0" and d["step"] == "1" and re.fullmatch(r"\(- (\(int\))?%s\.size\(\) 1\)" % re.escape(X), up) is not None
                        # the region's own sizing call is an alternative spelling of size(): omp_get_max_threads()
                        full = full or (d["init"] == "0" and d["step"] == "1" and up == "(- omp_get_max_threads() 1)")
                        ok = full
                        det = "for (i = %s; i <= %s; i += %s)" % (d["init"], d["upper"], d["step"])
                    else:
                        # iterator form: it = X.begin(); it != X.end(); ++it
                        vd = [m for m in init.walk() if m.k == "VarDecl" and m.c]
                        if len(vd) == 1:
                            it = "v%d" % vd[0].get("d")
                            ik = key(vd[0].c[0].strip())
                            ck = key(cond)
                            inck = key(inc)
                            ok = ik in (X + ".begin()", X + ".cbegin()") and ck in ("(!= %s %s.end())" % (it, X), "(!= %s %s.cend())" % (it, X)) and inck in ("(++ %s)" % it, "(++post %s)" % it)
                            det = "for (it = %s; %s; %s)" % (ik, ck.replace(it, "it"), inck.replace(it, "it"))
                elif lp.k == "CXXForRangeStmt":
                    ok = True
                    det = "range-based for over the whole container"
                else:
                    det = "a %s walks the per-thread container: continuation is not position-only" % lp.k
                # never left early
                if ok:
                    early = [m for m in body.walk() if m.k in ("BreakStmt", "ReturnStmt", "GotoStmt") and not any(a.k in ("ForStmt", "WhileStmt", "DoStmt", "CXXForRangeStmt", "SwitchStmt") and a is not lp and any(b is lp for b in a.ancestors()) for a in m.ancestors() if m.k == "BreakStmt")]
                    if early:
                        ok = False
                        det += "; left early by a %s at line %d" % (early[0].k, early[0].line)
                ctx.ob("C18.h-per-thread-reduction-complete", fid, "loop-over:%s@%d" % (shown(X), _ordinal([l for l in f.walk() if l.k == lp.k], lp)), ok, lp.where(), ("visits every slot of %s: " % shown(X)) + det if ok else "%s is not walked completely: %s" % (shown(X), det))
                n += 1
                if ok and X.startswith("this."):
                    for m in body.walk():
                        if m.k in ("CompoundAssignOperator", "CXXOperatorCallExpr") and m.op == "+=" and len(m.c) == 2 and any(_subscript_root_and_index(x)[0] == X for x in m.c[1].walk()):
                            role.setdefault((f.cls, X), {}).setdefault("reduce", m)
                        if m.k == "CXXMemberCallExpr" and (m.callee or "").split("::")[-1] == "fill" and m.call_args() and key(m.call_args()[-1].strip()) in ("0", "0.0") and m.call_object() is not None and any(_subscript_root_and_index(x)[0] == X or (x.k == "CXXMemberCallExpr" and (x.callee or "").endswith("::at") and x.c and root_of_lvalue(x.c[0].strip()) == X) for x in m.call_object().walk()):
                            role.setdefault((f.cls, X), {}).setdefault("reset", m)
        # 2c. a slot of a per-thread container that OUTLIVES the region (a field of the object: it is filled by one call and summed by
        #     another) is never (re)set to zero from inside a parallel region by "its own" thread: the team of this region can be
        #     smaller than the team that filled the slots, and the slots of the missing threads would keep their old contents.
        #     (Allocation of an empty slot on first use is not a reset.)
        for m in f.walk():
            if not (m.is_call() and (m.callee or "").split("::")[-1] in ("fill", "fill_n") and in_region(m)):
                continue
            obj_ = m.call_object() if m.k == "CXXMemberCallExpr" else None
            if obj_ is None:
                continue
            X = None
            for x in obj_.walk():
                r, i = _subscript_root_and_index(x)
                if r in fields.get(f.cls, set()):
                    X = r
                    break
            if X is None:
                continue
            a = m.call_args()
            zero = bool(a) and key(a[-1].strip()) in ("0", "0.0")
            if not zero:
                continue
            ctx.ob("C18.h-per-thread-reduction-complete", fid, "reset-in-region:%s@%d" % (shown(X), m.line), False, m.where(), "%s outlives the parallel region (it is a member that another call sums over all slots), but here every thread of THIS region resets only its own slot: slots filled by an earlier, larger team keep their contents and are added to every later result" % shown(X))
            n += 1
        # 2b. std::accumulate / std::for_each over the container
        for c in f.calls():
            if c.callee in ("std::accumulate", "std::for_each", "std::fill") and not in_region(c) and len(c.call_args()) >= 2:
                a0, a1 = key(c.call_args()[0].strip()), key(c.call_args()[1].strip())
                X = container_of(c.call_args()[0]) or container_of(c.call_args()[1])
                if X is None:
                    continue
                ok = a0 in (X + ".begin()", X + ".cbegin()") and a1 in (X + ".end()", X + ".cend()")
                ctx.ob("C18.h-per-thread-reduction-complete", fid, "%s-over:%s@%d" % (c.callee.split("::")[-1], shown(X), _ordinal([x for x in f.calls() if x.callee == c.callee], c)), ok, c.where(), "%s(%s, %s, ...)" % (c.callee, a0, a1))
                n += 1
    # 3. a member container whose slots one call sums (outside a region, all slots) is zeroed the same way before a new accumulation:
    #    some complete loop outside a region zero-fills every slot.  Without it the slots keep the previous result.
    for (cls, X), rr in sorted(role.items()):
        if "reduce" not in rr:
            continue
        # ... and that function makes sure there is a slot for every thread a later region can have: the container was sized by an
        # earlier call (set_up), the number of threads may have been raised since
        if "reset" in rr:
            rf = rr["reset"].fn if hasattr(rr["reset"], "fn") else None
            host = next((g for g in fns if g.body is not None and any(x is rr["reset"] for x in g.walk())), None)
            sized = False
            if host is not None:
                for m in host.walk():
                    if m.k == "CXXMemberCallExpr" and (m.callee or "").split("::")[-1] == "resize" and m.c and key(m.c[0].strip()) == X and any("omp_get_max_threads()" in key(a) for a in m.call_args()):
                        sized = True
            ctx.ob("C18.h-per-thread-reduction-complete", cls, "slots-for-all-threads:%s" % X.replace("this.", ""), sized, rr["reset"].where(), "the call that starts a new accumulation (re)sizes %s for omp_get_max_threads()" % X.replace("this.", "") if sized else "%s is sized by an earlier call only; a thread number beyond that size (number of threads raised in between) indexes it out of range" % X.replace("this.", ""))
            n += 1
        ok = "reset" in rr
        ctx.ob("C18.h-per-thread-reduction-complete", cls, "reset-of:%s" % X.replace("this.", ""), ok, (rr.get("reset") or rr["reduce"]).where(), "the slots that %s sums are zero-filled, all of them, by a loop outside any parallel region" % rr["reduce"].where() if ok else "the slots summed at %s are never zero-filled by a loop over all of them outside a parallel region: a new accumulation starts from the previous contents" % rr["reduce"].where())
        n += 1
    return n


def thorough(ctx):
    """scan every translation unit that contains an OpenMP parallel construct (textual pre-filter only selects the
    units; the regions are found in the AST) and report regions outside the frozen region list as not analysed"""
    import os
    from engine import compdb

    cands = []
    for u in compdb.all_units():
        if any(x in u for x in ("/test/", "/experimental/", "/swig/", "_test", "/utilities/", "/recon_test/")):
            continue
        try:
            txt = open(u, errors="ignore").read()
        except OSError:
            continue
        if "pragma omp parallel" in txt.replace("#  pragma", "pragma").replace("# pragma", "pragma").replace("#pragma", "pragma"):
            cands.append(u)
    known = {os.path.join("/repo", x) for x in REGION_UNITS}
    extra = [u for u in cands if u not in known]
    ctx.stats["units_with_parallel_regions"] = len(cands)
    ctx.stats["units_with_parallel_regions_not_in_scope"] = [u.replace("/repo/", "") for u in extra]
    reqs = [Request(u, fn=["stir::.*"], config="openmp", files=[re.escape(u)]) for u in extra]
    ctx.ex.prefetch(reqs)
    class Collector:
        """regions outside the property's anchors (e.g. KOSMAPOSL) are surveyed for information only: their writes are
        listed in the evidence, they are not obligations of C18"""

        def __init__(self):
            self.items = []

        def ob(self, rule, function, construct, ok, where="", detail="", **kw):
            self.items.append((ok, "%s %s %s: %s" % (where, function, construct, detail)))

    col = Collector()
    n = 0
    for r in reqs:
        un = ctx.ex.get(r)
        if un is None:
            continue
        for f in uniq(un.functions):
            if f.body is None:
                continue
            for rg in [x for x in f.walk() if x.k == "OMP" and x.get("omp", "").startswith("parallel")]:
                n += 1
                analyse_scope(col, f, rg, rg, "C18.survey-", "region@%d" % rg.line)
    ctx.stats["extra_regions_surveyed"] = n
    ctx.stats["extra_regions_writes_recognised_safe"] = sum(1 for ok, _ in col.items if ok)
    ctx.stats["extra_regions_writes_not_recognised (not obligations)"] = [t[:200] for ok, t in col.items if not ok]


def rule_i_slots_sized_for_the_team(ctx, fns):
    """A container indexed with omp_get_thread_num() needs one slot per thread of the team that runs the region.  INSIDE a parallel
    region that number is omp_get_num_threads(); omp_get_max_threads() there is the limit for a NESTED region (1 for
    OMP_NUM_THREADS=3,1, or after omp_set_num_threads / with a num_threads clause anything else), so a resize with it can leave the team
    without slots (F81: heap overflow, wrong log-likelihood value).  OUTSIDE any region omp_get_num_threads() is 1 and
    omp_get_max_threads() is the right bound."""
    RULE = "C18.i-per-thread-slots-sized-for-the-team"
    n = 0
    seen = set()
    for f in fns:
        if f.body is None or (f.file, f.body.line) in seen:
            continue
        seen.add((f.file, f.body.line))
        tn = _thread_num_vars(f.body)
        per_thread = set()
        for m in f.walk():
            r, i = _subscript_root_and_index(m)
            if r is not None and (key(i) in tn or key(i) == "omp_get_thread_num()"):
                per_thread.add(r)
        if not per_thread:
            continue
        defs = LocalDefs(f)
        for m in f.walk():
            if not (m.k == "CXXMemberCallExpr" and (m.callee or "").split("::")[-1] == "resize" and m.c and key(m.c[0].strip()) in per_thread and m.call_args()):
                continue
            X = key(m.c[0].strip())
            sl = data_slice(f, [m.call_args()[0]], defs)
            calls = {(x.callee or "").split("::")[-1] for x in sl if x.is_call()}
            inside = any(a.k == "OMP" and a.get("omp", "").startswith("parallel") for a in m.ancestors())
            uses_max, uses_num = "omp_get_max_threads" in calls, "omp_get_num_threads" in calls
            if not (uses_max or uses_num):
                continue
            ok = uses_num and not uses_max if inside else uses_max and not uses_num
            name = next((v.get("n") for v in f.walk() if v.k == "VarDecl" and "v%d" % v.get("d") == X), None) or X.replace("this.", "")
            ctx.ob(RULE, f.qn + "(" + f.sig[:30] + ")", "resize:%s" % name, ok, m.where(), ("inside the region, sized with the team size omp_get_num_threads()" if inside else "outside any region, sized with omp_get_max_threads()") if ok else ("`%s` is indexed with the thread number and sized INSIDE the parallel region with omp_get_max_threads(): there that is the limit for a nested region, not the size of the team (OMP_NUM_THREADS=3,1: 1 slot for 3 threads)" % name if inside else "`%s` is sized OUTSIDE a parallel region with omp_get_num_threads(), which is 1 there" % name))
            n += 1
    return n


def run(ctx):
    ctx.explanation = (
        "OpenMP configuration of the sources (the baseline build has STIR_OPENMP=OFF, so no test executes this code). Decides: "
        "(a) the double-checked lazy initialisation of the five geometry tables: unlocked flag read is atomic, re-check and builder "
        "call are inside a named critical, the builder publishes the flag after the last table write and on every exit, nobody "
        "else publishes; (b) every access to the system-matrix cache is under the omp lock of its own (view,segment) and every lock "
        "is released on all paths with no error()/throw while held; (c) every direct write to shared storage in each parallel "
        "region (and in the projectors' entry points called from regions) is in critical/atomic/single, per-thread, a reduction or "
        "indexed by the loop's own variable; (d) every non-const call on a shared object in a region is synchronised or a reviewed "
        "thread-safe entry point; (e) all stream/buffer accesses of ProjDataFromStream/ProjDataInMemory accessors are inside their "
        "named critical; (f) scatter-cache cells are read/written atomically. NOT decided: numerical equality up to reassociation, "
        "memory-model adequacy of omp atomic without seq_cst, thread-safety of callees beyond the reviewed table, ProjDataGEHDF5."
    )
    ctx.assumptions += [
        "analysed with -fopenmp -DSTIR_OPENMP (_OPENMP=201811); the flag store inside the builder runs under the caller's critical section",
        "reviewed thread-safe entry points (table REVIEWED_CALLEES) are part of the trusted base, each with its stated mechanism",
    ]
    reqs = requests()
    ctx.ex.prefetch(reqs)
    units = [ctx.ex.get(r) for r in reqs]
    if any(u is None for u in units):
        return
    nl = len(LAZY_UNITS)
    lazy = uniq([f for u in units[:nl] for f in u.functions])
    n = rule_a(ctx, lazy)
    if n < 5:
        ctx.fail_broken("only %d *_if_not_done_yet functions found (5 confirmed by hand)" % n)
    pm = uniq(units[nl].functions)
    rule_b(ctx, pm)
    regfns = uniq([f for u in units[nl + 1 : nl + 1 + len(REGION_UNITS)] for f in u.functions if f.file.startswith("/repo/src")])
    nreg = rule_cd(ctx, regfns)
    ctx.stats["parallel_regions"] = nreg
    if nreg < 14:
        ctx.fail_broken("only %d parallel regions found in the region units (14 confirmed by hand)" % nreg)
    rule_e(ctx, uniq(units[-4].functions), uniq(units[-3].functions))
    rule_f(ctx, uniq(units[-1].functions))
    scat = uniq([f for u in units for f in u.functions if f.cls == "stir::ScatterSimulation"])
    ng = rule_g_append_only_table(ctx, scat)
    if ng < 2:
        ctx.fail_broken("append-only table rule matched %d sites (2 confirmed by hand)" % ng)
    nh = rule_h_per_thread_reduction(ctx, regfns)
    ctx.require_count("C18.h-per-thread-reduction-complete", 6)
    rule_i_slots_sized_for_the_team(ctx, regfns)
    ctx.require_count("C18.i-per-thread-slots-sized-for-the-team", 6)
    ctx.require_count("C18.a-lazy-init", 25)
    ctx.require_count("C18.b-cache-lock", 5)
    ctx.require_count("C18.c-shared-writes", 6)
    ctx.require_count("C18.d-shared-object-calls", 10)
    ctx.require_count("C18.e-backend-io-in-critical", 10)
    ctx.require_count("C18.f-scatter-cache-atomic", 4)
