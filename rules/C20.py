"""C20 - component-based normalisation (ML_norm).  Decided clauses:

 a  RF7  every apply_*(data, factors, const bool apply): the two branches on `apply` update the same element with *= resp. /=
         by the same factor expression; for efficiencies the factor is the product of the two detectors' entries
 b  RF7  projection data -> fan data and back are duals over one index map: same loops over (segment, axial, view,
         tangential), same get_det_pair_for_bin call, same gap predicates and virtual-crystal index compaction, the transfer
         between sinogram element and fan element reversed
"""
import re

from engine.algebra import LocalDefs
from engine.extract import Request
from engine.loops import describe
from engine.tree import key

ML = "src/buildblock/ML_norm.cxx"


def requests():
    return [Request(ML, fn=["stir::apply_.*", "stir::make_fan_data_remove_gaps_help", "stir::set_fan_data_add_gaps_help"], files=["/repo/src/buildblock/ML_norm.cxx"])]


def rule_a(ctx, fns):
    n = 0
    for f in fns:
        ap = [p for p in f.params if p["n"] == "apply" and "bool" in p["t"]]
        if not ap or f.body is None or f.is_dependent:
            continue
        ak = "v%d" % ap[0]["d"]
        ifs = [m for m in f.walk() if m.k == "IfStmt" and key(m.c[0].strip()) == ak]
        fid = f.qn + "(" + f.sig[:45] + ")"
        if not ifs:
            ctx.ob("C20.a-apply-unapply-dual", fid, "branches-on-apply", False, f.where(), "no `if (apply)` in a function with an apply flag")
            continue
        for i, m in enumerate(ifs):
            ok = False
            det = "branches are not single compound assignments"
            if len(m.c) == 3:
                t, e = m.c[1], m.c[2]
                ts = [x for x in t.walk() if x.k in ("CompoundAssignOperator", "CXXOperatorCallExpr") and x.op in ("*=", "/=")]
                es = [x for x in e.walk() if x.k in ("CompoundAssignOperator", "CXXOperatorCallExpr") and x.op in ("*=", "/=")]
                if len(ts) == 1 and len(es) == 1:
                    same_lhs = key(ts[0].c[0]) == key(es[0].c[0])
                    same_rhs = key(ts[0].c[1]) == key(es[0].c[1])
                    ops = (ts[0].op, es[0].op)
                    ok = same_lhs and same_rhs and ops == ("*=", "/=")
                    det = "apply: %s %s F ; un-apply: %s %s F with %s" % (key(ts[0].c[0], True)[:40], ops[0], key(es[0].c[0], True)[:40], ops[1], "the same F" if same_rhs else "DIFFERENT factors %s vs %s" % (key(ts[0].c[1], True)[:60], key(es[0].c[1], True)[:60]))
                    if ok and "efficienc" in f.qn:
                        # factor = product of the two detectors' entries
                        r = ts[0].c[1].strip()
                        if r.k == "BinaryOperator" and r.op == "*":
                            a, b = key(r.c[0].strip(), True), key(r.c[1].strip(), True)
                            two = a != b and a.startswith("efficiencies[") and b.startswith("efficiencies[")
                            # first factor indexed by the first detector's variables, second by the second's
                            first = re.fullmatch(r"efficiencies(\[ra\])?\[a\]", a) is not None
                            second = re.fullmatch(r"efficiencies(\[rb\])?\[\(% b \w+\)\]", b) is not None
                            ok = two and first and second
                            det += "; factor = %s * %s" % (a, b)
                        else:
                            ok = False
                            det += "; factor is not a product of two efficiencies"
            ctx.ob("C20.a-apply-unapply-dual", fid, "dual-branches@%d" % i, ok, "%s:%d" % (f.file, m.line), det)
            n += 1
    return n


def _roles(f):
    """rename the four detector locals by their role in get_det_pair_for_bin(a, ra, b, rb, bin)"""
    calls = [c for c in f.calls() if (c.callee or "").endswith("::get_det_pair_for_bin")]
    if not calls:
        return None, None
    args = [key(a, True) for a in calls[-1].call_args()]
    if len(args) != 5:
        return None, None
    ren = dict(zip(args[:4], ["$det1", "$ring1", "$det2", "$ring2"]))
    ren[args[4]] = "$bin"
    return ren, calls


def _rename(s, ren):
    for k in sorted(ren, key=len, reverse=True):
        s = re.sub(r"(?<![\w$])%s(?![\w])" % re.escape(k), ren[k], s)
    return s


def _summary(ctx, f):
    ren, calls = _roles(f)
    if ren is None:
        ctx.unrec(f.qn, "no get_det_pair_for_bin(a,ra,b,rb,bin) call")
        return None
    defs = LocalDefs(f)
    sub = {d: defs.single_def(d) for d in defs.decl}
    out = {}
    # loops over the bin coordinates
    loops = []
    for lp in f.walk():
        if lp.k == "ForStmt":
            init, cond, inc = (_rename(key(x, True, sub), ren) for x in lp.c[:3])
            if "$bin." in init:
                loops.append((init, cond, inc))
    out["loops"] = [l for l in loops if "segment_num" not in l[0]]
    out["mapping_call"] = [_rename(key(a, True), ren) for a in calls[-1].call_args()]
    # gap predicates: conditions of `if (...) continue;`
    gaps = []
    for m in f.walk():
        if m.k == "IfStmt" and len(m.c) == 2 and m.c[1].k == "ContinueStmt":
            gaps.append(_rename(key(m.c[0], True, sub), ren))
    out["gap_predicates"] = sorted(gaps)
    # compacted indices new_*
    newdefs = {}
    for d, vd in defs.decl.items():
        if (vd.get("n") or "") in ("new_a", "new_ra", "new_b", "new_rb") and vd.c:
            newdefs[vd.get("n")] = _rename(key(vd.c[0], True, sub), ren)
    out["compaction"] = newdefs
    # the transfer
    tr = []
    for m in f.walk():
        if m.k in ("BinaryOperator", "CXXOperatorCallExpr") and m.op == "=" and len(m.c) == 2:
            l, r = _rename(key(m.c[0], True), ren), _rename(key(m.c[1].strip(), True), ren)
            if "segment_ptr" in l or "segment_ptr" in r or "fan_data(" in l.replace("(() ", "fan_data(") or "(() fan_data" in l or "(() fan_data" in r:
                tr.append((l, r))
    out["transfer"] = tr
    return out


def rule_b(ctx, fns):
    mk = [f for f in fns if f.short == "make_fan_data_remove_gaps_help" and f.body is not None and not f.is_dependent]
    st = [f for f in fns if f.short == "set_fan_data_add_gaps_help" and f.body is not None and not f.is_dependent]
    if not mk or not st:
        ctx.fail_broken("anchors make_fan_data_remove_gaps_help / set_fan_data_add_gaps_help (instantiations) not found")
        return
    a, b = _summary(ctx, mk[0]), _summary(ctx, st[0])
    if a is None or b is None:
        return
    def swap_roles(x):
        if isinstance(x, str):
            t = x.replace("$det1", "$DET").replace("$det2", "$det1").replace("$DET", "$det2")
            return t.replace("$ring1", "$RING").replace("$ring2", "$ring1").replace("$RING", "$ring2")
        if isinstance(x, dict):
            return {k: swap_roles(v) for k, v in x.items()}
        if isinstance(x, (list, tuple)):
            return type(x)(swap_roles(v) for v in x)
        return x

    # the fan data are symmetric in the two detectors (the to-fan direction writes both mirror entries), so one direction may
    # name the two detectors in the opposite order
    mirrored = any("new_rb new_b new_ra new_a" in l or "new_rb new_b new_ra new_a" in r for l, r in a["transfer"])
    for part in ("loops", "mapping_call", "gap_predicates", "compaction"):
        ok = bool(a[part]) and (a[part] == b[part] or (mirrored and part != "loops" and (sorted(swap_roles(a[part])) if isinstance(a[part], list) and part == "gap_predicates" else swap_roles(a[part])) == b[part]))
        ctx.ob("C20.b-fan-conversion-dual", "make_fan_data_remove_gaps_help<->set_fan_data_add_gaps_help", part, ok, mk[0].where(), "identical in both directions (%d items)" % len(a[part]) if ok else "differs: to-fan %s vs from-fan %s" % (str(a[part])[:200], str(b[part])[:200]))
    # transfer: to-fan writes fan(r1,d1,r2,d2) and its mirror from the sinogram element; from-fan writes the same sinogram element from fan(r1,d1,r2,d2)
    sino = "(*segment_ptr)[$bin.axial_pos_num()][$bin.view_num()][$bin.tangential_pos_num()]"

    def norm(s):
        return s.replace("*segment_ptr", "(*segment_ptr)").replace("((*segment_ptr))", "(*segment_ptr)")

    fan = "(() fan_data new_ra new_a new_rb new_b)"
    fanm = "(() fan_data new_rb new_b new_ra new_a)"
    ta = [(norm(l), norm(r)) for l, r in a["transfer"]]
    tb = [(norm(l), norm(r)) for l, r in b["transfer"]]
    to_ok = any(l == fan and (sino in r) for l, r in ta) and any(fanm in (l, r) or fanm in r for l, r in ta)
    from_ok = any(l == sino and r == fan for l, r in tb)
    ctx.ob("C20.b-fan-conversion-dual", "make_fan_data_remove_gaps_help<->set_fan_data_add_gaps_help", "transfer", to_ok and from_ok, st[0].where(), "to-fan: fan(r1,d1,r2,d2)=fan(r2,d2,r1,d1)=sino[ax][view][tang]; from-fan: sino[ax][view][tang]=fan(r1,d1,r2,d2)" if to_ok and from_ok else "transfer statements are not each other's reverse: %s / %s" % (ta[:3], tb[:3]))


def run(ctx):
    ctx.explanation = (
        "Decides for ML_norm: (a) in every apply_*(data, factors, apply) the two branches on `apply` update the same element with *= "
        "resp. /= by the identical factor expression (so un-applying restores the data wherever the factor is non-zero), and for "
        "efficiencies the factor is the product of the first detector's and the second detector's entry; (b) "
        "make_fan_data_remove_gaps_help and set_fan_data_add_gaps_help are duals over one index map: identical loops over axial "
        "position/view/tangential position, identical get_det_pair_for_bin call, identical virtual-crystal gap predicates and index "
        "compaction, with the transfer between sinogram element and fan element reversed (plus the symmetric fan entry). NOT decided: "
        "fixed point and KL descent of the ML iterations (numerical)."
    )
    reqs = requests()
    ctx.ex.prefetch(reqs)
    u = ctx.ex.get(reqs[0])
    if u is None:
        return
    seen, fns = set(), []
    for f in u.functions:
        k = (f.file, f.body.line if f.body is not None else f.line, f.qnt, f.sig)
        if k not in seen:
            seen.add(k)
            fns.append(f)
    rule_a(ctx, fns)
    rule_b(ctx, fns)
    ctx.require_count("C20.a-apply-unapply-dual", 6)
    ctx.require_count("C20.b-fan-conversion-dual", 5)
