"""C20 - component-based normalisation (ML_norm).  Decided clauses:

 a  RF7  every apply_*(data, factors, const bool apply): the two branches on `apply` update the same element with *= resp. /=
         by the same factor expression; for efficiencies the factor is the product of the two detectors' entries
 b  RF7  projection data -> fan data and back are duals over one index map: same loops over (segment, axial, view,
         tangential), same get_det_pair_for_bin call, same gap predicates and virtual-crystal index compaction, the transfer
         between sinogram element and fan element reversed
"""
import re

from engine.algebra import LocalDefs
from engine.canon import decl_of, norm_type, roles_for
from engine.extract import Request
from engine.loops import describe
from engine.tree import key

ML = "src/buildblock/ML_norm.cxx"


def requests():
    return [
        Request(ML, fn=["stir::apply_.*", "stir::make_fan_data_remove_gaps_help", "stir::set_fan_data_add_gaps_help", "stir::KL"], files=["/repo/src/buildblock/ML_norm.cxx"]),
        Request(ML, fn=["stir::(FanProjData|GeoData3D|BlockData3D|DetPairData)::.*"], files=["/repo/src/buildblock/ML_norm.cxx"]),
        Request(ML, fn=["stir::iterate_efficiencies"], files=["/repo/src/buildblock/ML_norm.cxx"]),
        Request(ML, fn=["stir::get_fan_info"], files=["/repo/src/buildblock/ML_norm.cxx"]),
        Request("src/recon_buildblock/ML_estimate_component_based_normalisation.cxx", fn=["stir::ML_estimate_component_based_normalisation"], files=["/repo/src/recon_buildblock/ML_estimate_component_based_normalisation.cxx"]),
    ]


def _subs(n):
    """(root key, [index keys]) of E[i][j] / E(i, j) element expressions, by declaration ids"""
    n = n.strip()
    idx = []
    while True:
        if n.k == "CXXOperatorCallExpr" and n.op == "[]" and len(n.c) == 2:
            idx.insert(0, n.c[1])
            n = n.c[0].strip()
        elif n.k == "ArraySubscriptExpr":
            idx.insert(0, n.c[1])
            n = n.c[0].strip()
        elif n.k == "CXXOperatorCallExpr" and n.op == "()" and len(n.c) >= 2:
            idx = list(n.c[1:]) + idx
            n = n.c[0].strip()
        else:
            return key(n), idx


def _strip_mod(n):
    n = n.strip()
    if n.k == "BinaryOperator" and n.op == "%":
        return n.c[0].strip()
    return n


def rule_a(ctx, fns):
    n = 0
    for f in fns:
        # the apply flag is the function's (only) bool parameter - identified by type, never by its name
        ap = [p for p in f.params if p["t"].replace("const ", "").strip() in ("bool", "_Bool")]
        if len(ap) != 1 or f.body is None or f.is_dependent or not f.short.startswith("apply_"):
            continue
        ak = "v%d" % ap[0]["d"]
        ifs = [m for m in f.walk() if m.k == "IfStmt" and key(m.c[0].strip()) in (ak, "(! %s)" % ak)]
        fid = f.qn + "(" + f.sig[:45] + ")"
        if not ifs:
            ctx.ob("C20.a-apply-unapply-dual", fid, "branches-on-apply", False, f.where(), "no `if (apply)` in a function with an apply flag")
            continue
        for i, m in enumerate(ifs):
            ok = False
            det = "branches are not single compound assignments"
            if len(m.c) == 3:
                t, e = m.c[1], m.c[2]
                if key(m.c[0].strip()).startswith("(!"):
                    t, e = e, t
                ts = [x for x in t.walk() if x.k in ("CompoundAssignOperator", "CXXOperatorCallExpr") and x.op in ("*=", "/=")]
                es = [x for x in e.walk() if x.k in ("CompoundAssignOperator", "CXXOperatorCallExpr") and x.op in ("*=", "/=")]
                if len(ts) == 1 and len(es) == 1:
                    same_lhs = key(ts[0].c[0]) == key(es[0].c[0])
                    same_rhs = key(ts[0].c[1]) == key(es[0].c[1])
                    ops = (ts[0].op, es[0].op)
                    ok = same_lhs and same_rhs and ops == ("*=", "/=")
                    det = "apply: %s %s F ; un-apply: %s %s F with %s" % (key(ts[0].c[0], True)[:40], ops[0], key(es[0].c[0], True)[:40], ops[1], "the same F" if same_rhs else "DIFFERENT factors %s vs %s" % (key(ts[0].c[1], True)[:60], key(es[0].c[1], True)[:60]))
                    if ok and "efficienc" in f.qn:
                        # factor = E[i..] * E[j..]: both entries of the factor parameter, and the element updated is data(i.., j..)
                        # (the second detector's last index possibly reduced modulo the number of detectors)
                        r = ts[0].c[1].strip()
                        _droot, didx = _subs(ts[0].c[0])
                        if r.k == "BinaryOperator" and r.op == "*":
                            ra_, ia = _subs(r.c[0])
                            rb_, ib = _subs(r.c[1])
                            fpar = [p for p in f.params if "v%d" % p["d"] == ra_]
                            both = ra_ == rb_ and bool(fpar) and ia and ib
                            cat = [key(x) for x in ia] + [key(x) for x in ib[:-1]] + ([key(_strip_mod(ib[-1]))] if ib else [])
                            ok = both and cat == [key(x) for x in didx] and [key(x) for x in ia] != [key(x) for x in ib]
                            det += "; factor = %s * %s, element (%s)" % (key(r.c[0], True), key(r.c[1], True), ",".join(key(x, True) for x in didx))
                        else:
                            ok = False
                            det += "; factor is not a product of two efficiencies"
            ctx.ob("C20.a-apply-unapply-dual", fid, "dual-branches@%d" % i, ok, "%s:%d" % (f.file, m.line), det)
            n += 1
    return n


def _roles(f):
    """role names from the code: the four detector locals and the bin by their position in get_det_pair_for_bin(d1, r1, d2, r2, bin);
    parameters by type; the remaining non-inlined locals by type and order (engine/canon.py)"""
    calls = [c for c in f.calls() if (c.callee or "").endswith("::get_det_pair_for_bin")]
    if not calls:
        return None, None
    args = [decl_of(a) for a in calls[-1].call_args()]
    if len(args) != 5 or None in args:
        return None, None
    anchors = dict(zip(args, ["$det1", "$ring1", "$det2", "$ring2", "$bin"]))
    return anchors, calls


def _summary(ctx, f):
    anchors, calls = _roles(f)
    if anchors is None:
        ctx.unrec(f.qn, "no get_det_pair_for_bin(a,ra,b,rb,bin) call on plain variables")
        return None
    defs = LocalDefs(f)
    sub = {d: defs.single_def(d) for d in defs.decl}
    roles = roles_for(f, anchors, defs)
    # integer parameters (num_rings, num_detectors_per_ring, max_delta, fan_size): both helpers receive them in the same order
    ints = [p for p in f.params if norm_type(p["t"]) == "int"]
    for i, p in enumerate(ints):
        roles[p["d"]] = "$Pint#%d" % i
    K = lambda x: key(x, roles, sub)
    out = {}
    # loops over the bin coordinates
    loops = []
    for lp in f.walk():
        if lp.k == "ForStmt":
            init, cond, inc = (K(x) for x in lp.c[:3])
            if "$bin." in init:
                loops.append((init, cond, inc))
    out["loops"] = [l for l in loops if "segment_num" not in l[0]]
    out["mapping_call"] = [K(a) for a in calls[-1].call_args()]
    # gap predicates: conditions of `if (...) continue;`
    gaps = []
    for m in f.walk():
        if m.k == "IfStmt" and len(m.c) == 2 and (m.c[1].k == "ContinueStmt" or (m.c[1].k == "CompoundStmt" and len(m.c[1].c) == 1 and m.c[1].c[0].k == "ContinueStmt")):
            gaps.append(K(m.c[0]))
    out["gap_predicates"] = sorted(gaps)
    # the transfer: assignments between a sinogram element (three subscripts by the bin's coordinates) and a fan element
    fanpar = [p for p in f.params if norm_type(p["t"]).endswith("FanProjData")]
    if len(fanpar) != 1:
        ctx.unrec(f.qn, "no unique FanProjData parameter")
        return None
    fanrole = roles[fanpar[0]["d"]]
    tr = []
    for m in f.walk():
        if m.k in ("BinaryOperator", "CXXOperatorCallExpr") and m.op == "=" and len(m.c) == 2:
            l, r = K(m.c[0]), K(m.c[1].strip())
            if "[$bin.axial_pos_num()]" in l or "[$bin.axial_pos_num()]" in r or l.startswith("(() " + fanrole + " "):
                tr.append((l, r))
    out["transfer"] = tr
    out["fan"] = fanrole
    return out


def rule_b(ctx, fns):
    mk = [f for f in fns if f.short == "make_fan_data_remove_gaps_help" and f.body is not None and not f.is_dependent]
    st = [f for f in fns if f.short == "set_fan_data_add_gaps_help" and f.body is not None and not f.is_dependent]
    if not mk or not st:
        ctx.fail_broken("anchors make_fan_data_remove_gaps_help / set_fan_data_add_gaps_help (instantiations) not found")
        return
    a, b = _summary(ctx, mk[0]), _summary(ctx, st[0])
    if a is None or b is None:
        return

    def swap_roles(x):
        if isinstance(x, str):
            t = x.replace("$det1", "$DET").replace("$det2", "$det1").replace("$DET", "$det2")
            return t.replace("$ring1", "$RING").replace("$ring2", "$ring1").replace("$RING", "$ring2")
        if isinstance(x, dict):
            return {k: swap_roles(v) for k, v in x.items()}
        if isinstance(x, (list, tuple)):
            return type(x)(swap_roles(v) for v in x)
        return x

    fan_pat = re.compile(r"^\(\(\) %s (.*)\)$" % re.escape(a["fan"]))

    def fan_elems(tr):
        out = []
        for l, r in tr:
            for s in (l, r):
                m = fan_pat.match(s)
                if m:
                    out.append(s)
        return out

    def sino_elems(tr):
        return [s for l, r in tr for s in (l, r) if s.endswith("[$bin.axial_pos_num()][$bin.view_num()][$bin.tangential_pos_num()]")]

    fa, fb = fan_elems(a["transfer"]), fan_elems(b["transfer"])
    # the fan data are symmetric in the two detectors (the to-fan direction writes both mirror entries), so one direction may
    # name the two detectors in the opposite order
    mirrored = bool(fa) and bool(fb) and fb[-1] not in fa and swap_roles(fb[-1]) in fa and len(set(fa)) >= 2
    for part in ("loops", "mapping_call", "gap_predicates"):
        eq = a[part] == b[part]
        if not eq and mirrored and part != "loops":
            sw = swap_roles(a[part])
            eq = (sorted(sw) if part == "gap_predicates" else sw) == b[part]
        ok = bool(a[part]) and eq
        ctx.ob("C20.b-fan-conversion-dual", "make_fan_data_remove_gaps_help<->set_fan_data_add_gaps_help", part, ok, mk[0].where(), "identical in both directions (%d items)" % len(a[part]) if ok else "differs: to-fan %s vs from-fan %s" % (str(a[part])[:200], str(b[part])[:200]))
    # index compaction: the fan element addressed in the two directions is the same function of (ring1, det1, ring2, det2)
    # (single-definition locals such as new_a are inlined, so this compares the compaction formulas themselves)
    okc = bool(fa) and bool(fb) and (fb[-1] in fa)
    ctx.ob("C20.b-fan-conversion-dual", "make_fan_data_remove_gaps_help<->set_fan_data_add_gaps_help", "compaction", okc, mk[0].where(), "the fan element read on the way back is one of the (two mirror) elements written on the way in: %s" % fb[-1][:160] if okc else "fan element differs: to-fan %s vs from-fan %s" % ([x[:200] for x in fa], [x[:200] for x in fb]))
    # transfer: to-fan writes fan(r1,d1,r2,d2) and its mirror from the sinogram element; from-fan writes the same sinogram
    # element from fan(r1,d1,r2,d2)
    sa, sb = sino_elems(a["transfer"]), sino_elems(b["transfer"])
    to_ok = len(set(fa)) == 2 and swap_roles(fa[0]) in fa and len(set(sa)) == 1 and any(fan_pat.match(l) and (r in sa or any(r.endswith(" " + s + ")") for s in sa)) for l, r in a["transfer"])
    # normalise the sinogram element (the shared_ptr local has a role name by type; *p vs (*p))
    from_ok = bool(sb) and any(l in sb and fan_pat.match(r) for l, r in b["transfer"]) and len(set(sb)) == 1 and set(sa) == set(sb)
    ctx.ob("C20.b-fan-conversion-dual", "make_fan_data_remove_gaps_help<->set_fan_data_add_gaps_help", "transfer", to_ok and from_ok, st[0].where(), "to-fan: fan(r1,d1,r2,d2)=fan(r2,d2,r1,d1)=sino[ax][view][tang]; from-fan: sino[ax][view][tang]=fan(r1,d1,r2,d2)" if to_ok and from_ok else "transfer statements are not each other's reverse: %s / %s" % (a["transfer"][:3], b["transfer"][:3]))


RANGE_QUERIES = ("get_min_index", "get_max_index", "get_length", "size", "get_index_range")


def rule_c_symmetric_storage(ctx, fns):
    """FanProjData (and GeoData3D) store the value of a detector pair ONCE: operator()(ra,a,rb,b) picks the stored copy (the other order
    of the two detectors maps to the same element).  The raw 4-D array therefore holds, under [ra][a], only part of detector (ra,a)'s
    fan - and possibly a stale mirror element.  Every member function other than operator() itself may use raw subscripts of the
    underlying array only to ask for index ranges; values are read and written through operator() (or by whole-array base-class
    operations, which treat all stored elements alike)."""
    by_cls = {}
    seen = set()
    for f in fns:
        if f.cls and f.body is not None and (f.file, f.line) not in seen:
            seen.add((f.file, f.line))
            by_cls.setdefault(f.cls, []).append(f)
    n = 0
    for cls, fs in sorted(by_cls.items()):
        ops = [f for f in fs if f.short == "operator()"]
        # symmetric storage: operator() chooses between subscript chains that start with different coordinates
        sym = False
        for f in ops:
            for m in f.walk():
                if m.k == "ConditionalOperator" and len(m.c) == 3:
                    firsts = set()
                    for br in m.c[1:]:
                        for x in br.walk():
                            base, idx = _this_chain(x)
                            if base and len(idx) >= 3:
                                firsts.add(key(idx[0]))
                    if len(firsts) > 1:
                        sym = True
        if not sym:
            continue
        for f in fs:
            if f.short == "operator()" or f.is_ctor:
                continue
            bad = []
            for x in f.walk():
                base, idx = _this_chain(x)
                if not base or not idx:
                    continue
                # only maximal chains
                par = x.parent
                while par is not None and par.k in ("ImplicitCastExpr", "ParenExpr", "Cast"):
                    par = par.parent
                if par is not None and _this_chain(par)[0] and any(c_ is x or any(y is x for y in c_.walk()) for c_ in par.c[:1]):
                    continue
                use = par
                okuse = use is not None and use.k == "MemberExpr" and use.get("n") in RANGE_QUERIES
                if use is not None and use.k == "CXXMemberCallExpr" and (use.callee or "").split("::")[-1] in RANGE_QUERIES:
                    okuse = True
                if not okuse:
                    bad.append(x)
            if bad or any(_this_chain(x)[0] for x in f.walk()):
                ctx.ob("C20.c-symmetric-storage-through-accessor", f.qn + "(" + f.sig[:30] + ")", "raw-subscripts", not bad, (bad[0] if bad else f).where(), "raw subscripts of the underlying array only ask for index ranges" if not bad else "`%s` reads or writes values of the underlying array directly: a detector pair is stored once (operator() picks the copy), so a raw sub-array holds only part of a detector's fan, and possibly a stale mirror element" % key(bad[0], True)[:120])
                n += 1
    return n


def _this_chain(x):
    """(True, [indices]) if x is (*this)[i][j]...; the base-class operator[] on *this"""
    idx = []
    n = x
    while n is not None and n.k in ("CXXOperatorCallExpr", "ArraySubscriptExpr") and (n.k == "ArraySubscriptExpr" or n.op == "[]") and len(n.c) >= 2:
        idx.insert(0, n.c[-1].strip())
        n = n.c[-2].strip()
    if not idx or n is None:
        return False, []
    if n.k == "UnaryOperator" and n.op == "*" and n.c and n.c[0].strip().k == "CXXThisExpr":
        return True, idx
    return False, []


def rule_d_efficiencies_updated_in_place(ctx, fns):
    """`Every efficiency iteration leaves the Kullback-Leibler distance no larger than before` is the property of the COORDINATE-WISE
    update: detector i gets data_i / sum_j(eff_j * model_ij) computed from the efficiencies as they are NOW (those of the detectors
    already visited included), one detector at a time.  Structure: the value stored in efficiencies[..i..] divides by a scalar local that
    is declared, and accumulated from elements of the same efficiencies object, inside the very loop iteration that performs the store -
    not by an element of an array of denominators filled for several detectors beforehand (a simultaneous update, which can overshoot)."""
    RULE = "C20.d-efficiencies-updated-in-place"
    n = 0
    seen = set()
    for f in fns:
        if f.short != "iterate_efficiencies" or f.body is None or (f.file, f.body.line) in seen or not f.params:
            continue
        seen.add((f.file, f.body.line))
        eff = "v%d" % f.params[0]["d"]
        fid = f.qn + "(" + f.sig[:60] + ")"
        from engine.algebra import LocalDefs

        defs = LocalDefs(f)

        def value_of(e):
            e = e.strip()
            if e.k == "DeclRefExpr" and e.get("dk") == "local":
                i1 = defs.single_def(e.get("d"))
                if i1 is not None:
                    return i1.strip()
            return e

        stores = []
        for m in f.walk():
            if m.k in ("BinaryOperator", "CXXOperatorCallExpr") and m.op == "=" and len(m.c) >= 2:
                lk = key(m.c[-2].strip())
                if lk.startswith(eff + "[") and any(x.k in ("BinaryOperator",) and x.op == "/" for x in value_of(m.c[-1]).walk()):
                    stores.append(m)
        if not stores:
            ctx.unrec(fid, "no store of data/denominator into the efficiencies found")
            continue
        for st in stores:
            div = [x for x in value_of(st.c[-1]).walk() if x.k == "BinaryOperator" and x.op == "/"][0]
            den = div.c[1].strip()
            loops = [a for a in st.ancestors() if a.k == "ForStmt"]
            ok, det = False, ""
            if den.k == "DeclRefExpr" and den.get("dk") == "local" and re.fullmatch(r"(const )?(float|double)", (den.type or "").strip()):
                d = den.get("d")
                decl = [x for x in f.walk() if x.k == "VarDecl" and x.get("d") == d]
                acc = [x for x in f.walk() if x.k == "CompoundAssignOperator" and x.op == "+=" and key(x.c[0].strip()) == "v%d" % d]
                inner = loops[0] if loops else None
                same_iter = inner is not None and decl and all(any(a is inner for a in x.ancestors()) for x in decl + acc)
                reads_eff = bool(acc) and all(any(key(y).startswith(eff + "[") for y in x.c[1].walk()) for x in acc)
                ok = bool(same_iter and reads_eff)
                det = "the denominator is a scalar declared and summed over the current efficiencies inside the iteration that stores the new efficiency" if ok else "the denominator `%s` is not declared and accumulated from the efficiencies inside the loop iteration of the store (declared there: %s, accumulated there from the efficiencies: %s)" % (key(den, True), bool(same_iter), reads_eff)
            else:
                det = "the new efficiency divides by `%s`, which is not a scalar summed in this iteration: the denominators of several detectors are computed from the OLD efficiencies before any of them is updated (simultaneous instead of coordinate-wise update; the Kullback-Leibler distance can increase)" % key(den, True)
            ctx.ob(RULE, fid, "store@%d" % st.line, ok, st.where(), det)
            n += 1
    return n


def rule_e_fan_covers_all_tangential_positions(ctx, fns):
    """The fan of a detector holds fan_size = 2*h + 1 partners, the tangential positions -h..h.  Converting projection data to fan data
    and back can only be lossless if every tangential position of the data lies in that range: h >= max_tangential_pos_num and
    h >= -min_tangential_pos_num, i.e. h is the LARGER of the two, not the smaller (they differ for an even number of positions)."""
    RULE = "C20.e-fan-covers-all-tangential-positions"
    n = 0
    for f in fns:
        if f.short != "get_fan_info" or f.body is None:
            continue
        from engine.algebra import LocalDefs

        defs = LocalDefs(f)
        for c in f.calls():
            if (c.callee or "") in ("std::min", "std::max") and len(c.call_args()) == 2:
                ks = sorted(key(a.strip(), True) for a in c.call_args())
                if any("get_max_tangential_pos_num()" in k for k in ks) and any("get_min_tangential_pos_num()" in k for k in ks):
                    ok = c.callee == "std::max"
                    ctx.ob(RULE, f.qn, "half-fan-size", ok, c.where(), "half the fan size is the larger of max_tangential_pos_num and -min_tangential_pos_num" if ok else "half the fan size is min(max_tangential_pos_num, -min_tangential_pos_num): for data with an even number of tangential positions (-N/2 .. N/2-1) the bins at the lowest tangential position have no place in the fan and come back as 0")
                    n += 1
        break
    return n


def rule_f_format_strings_well_formed(ctx, fns):
    """boost::format throws for an ill-formed format string or a wrong number of arguments: in the ML estimation routine every
    boost::format("...") % a % b ... has as many arguments as its highest %N% directive, and every directive is closed."""
    RULE = "C20.f-format-strings-well-formed"
    n = 0
    seen = set()
    for f in fns:
        if f.body is None or (f.file, f.body.line) in seen:
            continue
        seen.add((f.file, f.body.line))
        for c in f.walk():
            if not (c.k in ("CXXConstructExpr", "CXXTemporaryObjectExpr", "CXXFunctionalCastExpr", "Cast") and "basic_format" in (c.type or "") + (c.callee or "")):
                continue
            lit = [m.get("v") for m in c.walk() if m.k == "StringLiteral"]
            if not lit or (c.line, lit[0]) in seen:
                continue
            seen.add((c.line, lit[0]))
            fmt = lit[0]
            # count the operands of the % chain above this construction
            top, nargs = c, 0
            for a in c.ancestors():
                if a.k == "CXXOperatorCallExpr" and a.op == "%" and a.c and any(x is top for x in a.c[0].walk()):
                    nargs += 1
                    top = a
                elif a.k in ("Cast", "ExprWithCleanups", "MaterializeTemporaryExpr", "CXXBindTemporaryExpr", "ImplicitCastExpr"):
                    continue
                else:
                    break
            body = fmt.replace("%%", "")
            closed = re.findall(r"%(\d+)%", body)
            rest = re.sub(r"%\d+%", "", body)
            dangling = "%" in rest and not re.search(r"%[-+ #0]*\d*(\.\d+)?[a-zA-Z]", rest)
            want = max([int(x) for x in closed] or [0])
            ok = not dangling and (not closed or want == nargs)
            ctx.ob(RULE, f.qn, "format@%d" % c.line, ok, c.where(), "`%s` with %d argument(s)" % (fmt[:50], nargs) if ok else "format string `%s` is ill-formed or has %d argument(s) for %d directive(s): boost::format throws when this line is reached" % (fmt, nargs, want))
            n += 1
    return n


def rule_g_kl_weights_pairs_equally(ctx, fns):
    """KL(FanProjData, FanProjData) is the distance the property speaks of (`every efficiency iteration leaves the KL distance no larger`):
    that holds for the sum in which EVERY detector pair has the same weight, which is what the iteration decreases.  The fan data
    store both (ra,a,rb,b) and (rb,b,ra,a); the loops over a and b visit both orders of a pair in one ring.  So either the loop over
    rb covers the whole range (every pair twice), or - if it starts at ra - the terms with rb == ra are treated apart (halved) (F82:
    in-plane pairs counted double, the reported distance went up after an iteration in more than half of the runs)."""
    from engine.loops import describe

    RULE = "C20.g-kl-weights-every-pair-equally"
    n = 0
    seen = set()
    for f in fns:
        if f.short != "KL" or f.body is None or len(f.params) != 3 or "FanProjData" not in (f.params[0].get("t") or "") or (f.file, f.body.line) in seen:
            continue
        seen.add((f.file, f.body.line))
        loops = []
        for lp in f.walk():
            if lp.k == "ForStmt":
                d = describe(lp, names=True)
                if d:
                    loops.append((d, lp))
        rb = [(d, lp) for d, lp in loops if "get_max_rb" in d["upper"]]
        ra = [(d, lp) for d, lp in loops if "get_max_ra" in d["upper"]]
        if len(rb) != 1 or len(ra) != 1:
            ctx.unrec(f.qn, "C20.g: loops over ra / rb not found")
            continue
        rav = key(ra[0][1].c[1].strip().c[0].strip(), True) if ra[0][1].c[1] is not None and ra[0][1].c[1].strip().c else "ra"
        rbv = key(rb[0][1].c[1].strip().c[0].strip(), True) if rb[0][1].c[1] is not None and rb[0][1].c[1].strip().c else "rb"
        init = rb[0][0]["init"]
        # `max(ra, ..)` or `ra` itself as the first value (ra as the ARGUMENT of get_min_rb(ra) is the whole range)
        triangular = init == rav or re.fullmatch(r"(std::)?max\((.*)\)", init) is not None and rav in [x.strip() for x in re.fullmatch(r"(std::)?max\((.*)\)", init).group(2).split(",")[:1] + re.fullmatch(r"(std::)?max\((.*)\)", init).group(2).rsplit(",", 1)[-1:]]
        if not triangular:
            ok, det = True, "the loop over rb covers its whole range: every pair is visited twice"
        else:
            apart = [m for m in rb[0][1].walk() if m.k == "BinaryOperator" and m.op in ("==", "!=") and {key(m.c[0].strip(), True), key(m.c[1].strip(), True)} == {rav, rbv}]
            ok = bool(apart)
            det = "the loop over rb starts at ra and the terms with rb == ra are treated apart" if ok else "the loop over rb starts at ra (pairs in different rings once) but pairs in the same ring are visited as (a,b) and as (b,a) by the loops over a and b and nothing treats rb == ra apart: in-plane pairs count double, and that sum is not what the efficiency iteration decreases"
        ctx.ob(RULE, f.qn + "(FanProjData)", "weights", ok, f.where(), det)
        n += 1
    return n


def run(ctx):
    ctx.explanation = (
        "Decides for ML_norm: (a) in every apply_*(data, factors, apply) the two branches on `apply` update the same element with *= "
        "resp. /= by the identical factor expression (so un-applying restores the data wherever the factor is non-zero), and for "
        "efficiencies the factor is the product of the first detector's and the second detector's entry; (b) "
        "make_fan_data_remove_gaps_help and set_fan_data_add_gaps_help are duals over one index map: identical loops over axial "
        "position/view/tangential position, identical get_det_pair_for_bin call, identical virtual-crystal gap predicates and index "
        "compaction, with the transfer between sinogram element and fan element reversed (plus the symmetric fan entry). NOT decided: "
        "fixed point and KL descent of the ML iterations (numerical)."
    )
    reqs = requests()
    ctx.ex.prefetch(reqs)
    u = ctx.ex.get(reqs[0])
    if u is None:
        return
    seen, fns = set(), []
    for f in u.functions:
        k = (f.file, f.body.line if f.body is not None else f.line, f.qnt, f.sig)
        if k not in seen:
            seen.add(k)
            fns.append(f)
    rule_a(ctx, fns)
    rule_b(ctx, fns)
    rule_g_kl_weights_pairs_equally(ctx, fns)
    ctx.require_count("C20.g-kl-weights-every-pair-equally", 1)
    ctx.require_count("C20.a-apply-unapply-dual", 6)
    ctx.require_count("C20.b-fan-conversion-dual", 5)
    u2 = ctx.ex.get(reqs[1])
    if u2 is None:
        return
    rule_c_symmetric_storage(ctx, u2.functions)
    ctx.require_count("C20.c-symmetric-storage-through-accessor", 6)
    u3 = ctx.ex.get(reqs[2])
    if u3 is None:
        return
    rule_d_efficiencies_updated_in_place(ctx, u3.functions)
    ctx.require_count("C20.d-efficiencies-updated-in-place", 3)
    u4, u5 = ctx.ex.get(reqs[3]), ctx.ex.get(reqs[4])
    if u4 is not None:
        rule_e_fan_covers_all_tangential_positions(ctx, u4.functions)
        ctx.require_count("C20.e-fan-covers-all-tangential-positions", 1)
    if u5 is not None:
        rule_f_format_strings_well_formed(ctx, u5.functions)
        ctx.require_count("C20.f-format-strings-well-formed", 4)
