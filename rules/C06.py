"""C06 - ordered subsets partition the data.  Decided clauses:

 a  the enumeration of a subset is the residue class  view = min_view + subset_num (mod num_subsets)  over all segments,
    each (view, segment) listed once (the TOF loop around it runs over a range that is a single value under
    min_tof = -max_tof and its body does not depend on it), filtered only by symmetries.is_basic
 b  RF7  'balanced' counts exactly what is processed: same loop descriptors and filter as (a), equality of all counts
 c  RF12 every consumer (distributable computation, projectors, normalisation, FBP2D, Hessian) takes its list from the
    one enumeration function with its own subset arguments passed through
 d  schedule: non-random subset index is (subiteration + c) mod num_subsets; random index expression is the one of the
    regeneration test and the random order exists before its first read for every start sub-iteration
 e  the view symmetries are switched off whenever the number of views is not divisible by 4 resp. 2
"""
import re

import sympy

from engine.absint import Explorer
from engine.algebra import Algebra, LocalDefs, data_slice
from engine.cfg import CFG
from engine.extract import Request
from engine.tree import key, root_of_lvalue, written_lvalues

ENUM = "stir::detail::find_basic_vs_nums_in_subset"
WRAPPER = "stir::find_basic_viewgram_indices_in_subset"  # adds the TOF index to each entry; checked to pass its arguments through
CONSUMERS = [
    ("src/recon_buildblock/distributable.cxx", "stir::distributable_computation"),
    ("src/recon_buildblock/ForwardProjectorByBin.cxx", "stir::ForwardProjectorByBin::forward_project"),
    ("src/recon_buildblock/BackProjectorByBin.cxx", "stir::BackProjectorByBin::back_project"),
    ("src/recon_buildblock/BinNormalisation.cxx", "stir::BinNormalisation::apply"),
    ("src/recon_buildblock/BinNormalisation.cxx", "stir::BinNormalisation::undo"),
    ("src/recon_buildblock/PoissonLogLikelihoodWithLinearModelForMeanAndProjData.cxx", "stir::PoissonLogLikelihoodWithLinearModelForMeanAndProjData::actual_add_multiplication_with_approximate_sub_Hessian_without_penalty"),
    ("src/recon_buildblock/PoissonLogLikelihoodWithLinearModelForMeanAndProjData.cxx", "stir::PoissonLogLikelihoodWithLinearModelForMeanAndProjData::actual_accumulate_sub_Hessian_times_input_without_penalty"),
    ("src/recon_buildblock/PoissonLogLikelihoodWithLinearModelForMeanAndProjData.cxx", "stir::find_basic_viewgram_indices_in_subset"),
    ("src/analytic/FBP2D/FBP2DReconstruction.cxx", "stir::FBP2DReconstruction::actual_reconstruct"),
]


def requests():
    r = [
        Request("src/recon_buildblock/find_basic_vs_nums_in_subset.cxx", fn=[ENUM]),
        Request("src/recon_buildblock/PoissonLogLikelihoodWithLinearModelForMeanAndProjData.cxx", fn=["stir::PoissonLogLikelihoodWithLinearModelForMeanAndProjData::actual_subsets_are_approximately_balanced", "stir::PoissonLogLikelihoodWithLinearModelForMeanAndProjData::actual_add_multiplication_with_approximate_sub_Hessian_without_penalty"]),
        Request("src/recon_buildblock/IterativeReconstruction.cxx", fn=["stir::IterativeReconstruction::get_subset_num", "stir::IterativeReconstruction::randomly_permute_subset_order"]),
        Request("src/recon_buildblock/DataSymmetriesForBins_PET_CartesianGrid.cxx", fn=["stir::DataSymmetriesForBins_PET_CartesianGrid::DataSymmetriesForBins_PET_CartesianGrid"]),
    ]
    seen = {x.source for x in r}
    for src, qn in CONSUMERS:
        r.append(Request(src, fn=[re.escape(qn)]))
    return r


def inst(fns):
    out = [f for f in fns if not f.is_dependent and f.body is not None]
    return out or [f for f in fns if f.body is not None]


from engine.loops import describe, name_induction_variables
from engine.canon import decl_of, roles_for


def _int_params(fn):
    return [p for p in fn.params if p["t"].replace("const ", "").strip() == "int"]


def _loops(fn, roles):
    """counting loops with role-named descriptors: list of (descriptor, ForStmt)"""
    out = []
    for lp in fn.walk():
        if lp.k == "ForStmt":
            d = describe(lp, names=roles)
            if d:
                out.append((d, lp))
    return out


def _commute_plus(k):
    m = re.fullmatch(r"\(\+ (.+)\)", k)
    if not m:
        return {k}
    from engine.cfg import _split_sexpr

    parts = _split_sexpr(k)
    if parts and len(parts) == 3:
        return {"(+ %s %s)" % (parts[1], parts[2]), "(+ %s %s)" % (parts[2], parts[1])}
    return {k}


def rule_a(ctx, fn, rule="C06.a-residue-class-enumeration"):
    """roles come from the enumeration's signature (data geometry, symmetries, min_segment, max_segment, subset, number of
    subsets - the public interface every consumer calls); loop variables are named by the range they run over"""
    defs = LocalDefs(fn)
    sub = {d: defs.single_def(d) for d in defs.decl}
    ints = _int_params(fn)
    pdi = [p for p in fn.params if "ProjDataInfo" in p["t"]]
    if len(ints) != 4 or len(pdi) != 1:
        ctx.unrec(fn.qn, "expected (ProjDataInfo, symmetries, 4 ints) parameters")
        return
    anchors = {ints[0]["d"]: "$min_segment", ints[1]["d"]: "$max_segment", ints[2]["d"]: "$subset", ints[3]["d"]: "$num_subsets", pdi[0]["d"]: "$geom"}
    roles = name_induction_variables(fn, roles_for(fn, anchors, defs))
    loops = _loops(fn, roles)
    view = [(d, lp) for d, lp in loops if "get_min_view_num()" in d["init"] or "get_max_view_num()" in d["upper"]]
    ok_view = False
    det = "no view loop"
    view_role = seg_role = None
    if len(view) == 1:
        nd, lp = view[0]
        ok_view = "(+ $geom.get_min_view_num() $subset)" in _commute_plus(nd["init"]) and nd["upper"] == "$geom.get_max_view_num()" and nd["step"] == "$num_subsets"
        det = "for (view = %s; view <= %s; view += %s)" % (nd["init"], nd["upper"], nd["step"])
        # nobody else writes the loop variable
        others = [m for m in lp.c[3].walk() if "v%d" % nd["d"] in {root_of_lvalue(e) for e in written_lvalues(m)}]
        ok_view = ok_view and not others
        view_role = roles[nd["d"]]
    ctx.ob(rule, fn.qn, "view-loop", ok_view, fn.where(), det if ok_view else "view loop is not `min_view+subset_num; <= max_view; += num_subsets`: " + det)
    seg = [(d, lp) for d, lp in loops if "$min_segment" in d["init"] or "$max_segment" in d["upper"]]
    okseg = False
    det = "no segment loop"
    if len(seg) == 1:
        ns, lp = seg[0]
        okseg = ns["init"] == "$min_segment" and ns["upper"] == "$max_segment" and ns["step"] == "1"
        det = "for (segment = %s; segment <= %s; segment += %s)" % (ns["init"], ns["upper"], ns["step"])
        seg_role = roles[ns["d"]]
    ctx.ob(rule, fn.qn, "segment-loop", okseg, fn.where(), det)
    # any other loop around the push_back must not multiply entries
    pushes = [c for c in fn.calls() if (c.callee or "").endswith("vector::push_back")]
    ok_push = len(pushes) == 1
    det = "%d push_back" % len(pushes)
    if ok_push:
        p = pushes[0]
        encl = [a for a in p.ancestors() if a.k in ("ForStmt", "WhileStmt", "DoStmt", "CXXForRangeStmt")]
        known = {id(lp) for _d, lp in view + seg}
        for lp in encl:
            if id(lp) in known:
                continue
            d = describe(lp, names=roles) if lp.k == "ForStmt" else None
            if d is None:
                ok_push = False
                det = "an unrecognised loop at line %d surrounds the listing" % lp.line
                continue
            # body must not depend on the variable, and the range must be [-min_tof, max_tof] (one value when min=-max)
            uses = [m for m in lp.c[3].walk() if m.k == "DeclRefExpr" and m.get("d") == d["d"]]
            rng = d["init"] == "(- $geom.get_min_tof_pos_num())" and d["upper"] == "$geom.get_max_tof_pos_num()" and d["step"] == "1"
            if uses or not rng:
                ok_push = False
                det = "extra loop around the listing (%s..%s step %s) %s" % (d["init"], d["upper"], d["step"], "whose variable is used" if uses else "with a range that is not the single value -min_tof..max_tof")
        # guarded only by is_basic
        cfg = CFG(fn)
        facts = cfg.facts_at(p)
        loopconds = {key(lp.c[1]) for lp in encl if lp.k == "ForStmt"}
        conds = sorted(k for k, tv, _r in facts if k not in loopconds)
        built = key(p.call_args()[0], roles, sub)
        ok_arg = view_role is not None and seg_role is not None and re.fullmatch(r"stir::\w+::(ViewSegmentNumbers|ViewgramIndices)\(%s,%s(,0)?\)" % (re.escape(view_role), re.escape(seg_role)), built) is not None
        only_basic = all("is_basic" in k for k in conds) and any("is_basic" in k for k in conds)
        if not (ok_arg and only_basic):
            ok_push = False
            det = "listed element built from %s; guards %s" % (built, conds)
        elif ok_push:
            det = "each (view,segment) of the residue class that is_basic is listed once"
    ctx.ob(rule, fn.qn, "listing", ok_push, fn.where(), det)


def rule_b(ctx, fn, enum_fn):
    defs = LocalDefs(fn)
    sub = {d: defs.single_def(d) for d in defs.decl}
    roles = name_induction_variables(fn, roles_for(fn, None, defs))
    loops = _loops(fn, roles)
    ok = True
    det = []
    all_subsets = [(d, lp) for d, lp in loops if d["init"] == "0" and d["upper"] == "(- this.num_subsets 1)" and d["step"] == "1"]
    if not all_subsets:
        ok = False
        det.append("no loop over all subsets 0..num_subsets-1")
    srole = roles[all_subsets[0][0]["d"]] if all_subsets else "?"
    v = [(d, lp) for d, lp in loops if "get_min_view_num()" in d["init"] or "get_max_view_num()" in d["upper"]]
    nd = v[0][0] if len(v) == 1 else None
    if not nd or not ("(+ *this.proj_data_sptr.get_min_view_num() %s)" % srole in _commute_plus(nd["init"]) and nd["upper"] == "*this.proj_data_sptr.get_max_view_num()" and nd["step"] == "this.num_subsets"):
        ok = False
        det.append("view loop %s differs from the enumeration's residue class" % ((nd["init"], nd["upper"], nd["step"]) if nd else None,))
    s_ = [(d, lp) for d, lp in loops if "max_segment_num_to_process" in d["init"] + d["upper"]]
    ns = s_[0][0] if len(s_) == 1 else None
    if not ns or not (ns["init"] == "(- this.max_segment_num_to_process)" and ns["upper"] == "this.max_segment_num_to_process" and ns["step"] == "1"):
        ok = False
        det.append("segment loop %s is not -max_segment_num_to_process..max_segment_num_to_process" % ((ns["init"], ns["upper"], ns["step"]) if ns else None,))
    vrole = roles[nd["d"]] if nd else "?"
    grole = roles[ns["d"]] if ns else "?"
    vs_re = r"\.num_related_view_segment_numbers\(stir::\w+::(ViewSegmentNumbers|ViewgramIndices)\(%s,%s(,0)?\)\)" % (re.escape(vrole), re.escape(grole))
    adds = [n for n in fn.walk() if n.k in ("CompoundAssignOperator", "CXXOperatorCallExpr") and n.op == "+=" and key(n.c[0], roles, sub).endswith("[%s]" % srole)]
    counter = None
    if len(adds) != 1 or re.search(vs_re, key(adds[0].c[1], roles, sub)) is None:
        ok = False
        det.append("count is not incremented by num_related_view_segment_numbers of the basic view/segment")
    else:
        counter = key(adds[0].c[0], roles, sub)[: -len("[%s]" % srole)]
        cfg = CFG(fn)
        facts = [k for k, tv, _r in cfg.facts_at(adds[0]) if "is_basic" in k]
        if not facts:
            ok = False
            det.append("count not restricted to basic view/segments")
    if counter is not None:
        cmp_ = [n for n in fn.walk() if n.k in ("BinaryOperator", "CXXOperatorCallExpr") and n.op in ("!=", "==") and counter + "[" in key(n, roles, sub)]
        subset_roles = {roles[d["d"]] for d, _lp in loops if d["upper"] == "(- this.num_subsets 1)" and d["init"] in ("0", "1") and d["step"] == "1"}
        if not cmp_ or not any({key(c.c[0], roles, sub), key(c.c[1], roles, sub)} in [{counter + "[0]", counter + "[%s]" % r} for r in subset_roles] for c in cmp_):
            ok = False
            det.append("result is not equality of every subset's count with subset 0's")
    ctx.ob("C06.b-balanced-counts-what-is-processed", fn.qn, "descriptor-agreement", ok, fn.where(), "same residue-class loops, is_basic filter, counts related viewgrams, equality of all counts" if ok else "; ".join(det))


def rule_c(ctx, units):
    for (src, qn), u in units:
        fns = [f for f in inst(u.functions) if f.qn == qn]
        fns = [f for f in fns if any(c.callee in (ENUM, WRAPPER) for c in f.calls())] or fns
        if not fns:
            ctx.fail_broken("consumer %s not found" % qn)
            continue
        for f in fns[:1] if "ProjData" not in qn else fns:
            calls = [c for c in f.calls() if c.callee in (ENUM, WRAPPER)]
            ints = _int_params(f)
            pos = {p["d"]: i for i, p in enumerate(f.params)}
            if not calls:
                if len(ints) >= 2:
                    ctx.ob("C06.c-one-enumeration", f.qn + "(" + f.sig[:40] + ")", "uses-enumeration", False, f.where(), "has subset parameters but does not take its view/segment list from %s" % ENUM)
                continue
            intd = {p["d"] for p in ints}
            for c in calls:
                args = c.call_args()
                a = [key(x, True) for x in args]
                ok = False
                if len(args) == 6:
                    d4, d5 = decl_of(args[4]), decl_of(args[5])
                    k5 = key(args[5].strip())
                    segd = {m.get("d") for x in args[2:4] for m in x.walk() if m.k == "DeclRefExpr"}
                    if d4 in intd and d5 in intd:
                        # the consumer's own (subset, number of subsets): adjacent int parameters in this order, not the segment range
                        ok = pos[d5] == pos[d4] + 1 and d4 not in segd and d5 not in segd
                    elif d4 in intd and k5 in ("this.num_subsets", "this.get_num_subsets()"):
                        ok = d4 not in segd
                    elif key(args[4].strip()) == "0" and k5 == "1":
                        ok = True  # the whole data set
                ctx.ob("C06.c-one-enumeration", f.qn + "(" + f.sig[:40] + ")", "subset-arguments-passed-through", ok, c.where(), "list = enumeration(..., %s, %s)" % (a[4] if len(a) > 4 else "?", a[5] if len(a) > 5 else "?"))


def rule_d(ctx, fn):
    cfg = CFG(fn)
    rets = [r for r in cfg.return_nodes() if r.c]
    if len(rets) != 1 or rets[0].c[0].strip().k != "ConditionalOperator":
        ctx.unrec(fn.qn, "expected a single `return randomise ? array[i] : expr`")
        return
    co = rets[0].c[0].strip()
    cond, rnd, det_ = co.c[0], co.c[1].strip(), co.c[2].strip()
    # deterministic branch: (subiteration_num + c) % num_subsets with coefficient 1
    ok = False
    d = "?"
    if det_.k == "BinaryOperator" and det_.op == "%" and key(det_.c[1].strip()) == "this.num_subsets":
        alg = Algebra(fn, names=True)
        e = sympy.expand(alg.expr(det_.c[0]))
        sub = alg.sym("this.subiteration_num")
        ok = sympy.diff(e, sub) == 1
        d = "(%s) %% num_subsets" % e
    ctx.ob("C06.d-schedule", fn.qn, "ordered:index-advances-by-one", ok, fn.where(), "subset = %s: consecutive sub-iterations visit consecutive residues" % d if ok else "subset index %s does not advance by exactly one per sub-iteration" % d)
    # random branch
    ok = False
    d = key(rnd, True)
    if rnd.k in ("CXXOperatorCallExpr", "ArraySubscriptExpr") and key(rnd.c[0].strip()) == "this._current_subset_array":
        idx = rnd.c[1].strip()
        regen = [n for n in fn.walk() if n.k in ("BinaryOperator", "CXXOperatorCallExpr") and n.op == "=" and key(n.c[0]) == "this._current_subset_array"]
        ok = idx.k == "BinaryOperator" and idx.op == "%" and key(idx.c[1].strip()) == "this.num_subsets" and len(regen) == 1
        if ok:
            # the regeneration test uses the same index expression == 0
            facts = cfg.facts_at(regen[0])
            tests = [n for n in fn.walk() if n.k == "BinaryOperator" and n.op == "==" and key(n.c[0].strip()) == key(idx) and key(n.c[1].strip()) == "0"]
            ok = bool(tests)
            d = "array[%s], regenerated when %s == 0" % (key(idx, True), key(idx, True))
    ctx.ob("C06.d-schedule", fn.qn, "random:index-matches-regeneration", ok, fn.where(), d)
    # the random order exists before it is read, for every start sub-iteration
    R = "this.randomise_subset_order"
    atoms_ = set()
    for n in fn.walk():
        if n.k in ("BinaryOperator", "CXXOperatorCallExpr") and n.op in ("==", "!=") and n.type == "bool":
            atoms_.add(key(n))
    tracked = [R] + sorted(atoms_) + ["ghost:generated"]
    ex = Explorer(cfg, tracked)
    gi = len(tracked) - 1
    bad = []

    def on_el(n, s, _ex):
        if n.k in ("BinaryOperator", "CXXOperatorCallExpr") and n.op == "=" and key(n.c[0]) == "this._current_subset_array":
            s2 = list(s)
            s2[gi] = True
            return [tuple(s2)]
        if n.k in ("CXXOperatorCallExpr", "ArraySubscriptExpr") and n.get("op", "[]") == "[]" and n.c and key(n.c[0].strip()) == "this._current_subset_array":
            if s[gi] is not True:
                # acceptable if a tracked test established that the array already holds num_subsets entries
                sized = False
                for i, k in enumerate(tracked[1:-1], start=1):
                    if ("_current_subset_array.get_length()" in k or "_current_subset_array.size()" in k) and "this.num_subsets" in k:
                        if (k.startswith("(!= ") and s[i] is False) or (k.startswith("(== ") and s[i] is True):
                            sized = True
                if not sized:
                    bad.append((n, s))
        return None

    import itertools

    entry = [(r,) + combo + (False,) for r in (True, False) for combo in itertools.product((True, False), repeat=len(atoms_))]
    ex.run(entry, on_el)
    ctx.ob(
        "C06.d-schedule",
        fn.qn,
        "random:order-exists-before-first-read",
        not bad,
        fn.where(),
        "for every start sub-iteration the random order is generated, or known to hold num_subsets entries, before it is indexed" if not bad else "the order array is indexed at line %d on a path where it was never generated (start in the middle of an iteration): state %s" % (bad[0][0].line, dict(zip(tracked, bad[0][1]))),
    )


def rule_e(ctx, fn):
    cfg = CFG(fn)
    V4 = V2 = None
    for n in fn.walk():
        if n.k == "BinaryOperator" and n.op == "!=" and key(n.c[1].strip()) == "0":
            l = n.c[0].strip()
            if l.k == "BinaryOperator" and l.op == "%" and "num_views" in key(l.c[0], True):
                if key(l.c[1].strip()) == "4":
                    V4 = key(n)
                elif key(l.c[1].strip()) == "2":
                    V2 = key(n)
    if V4 is None or V2 is None:
        ctx.ob("C06.e-view-symmetries-need-divisible-views", fn.qn, "tests-present", False, fn.where(), "no test of num_views %% 4 / num_views %% 2 in the constructor (found %s, %s)" % (V4, V2))
        return
    D90, D180 = "this.do_symmetry_90degrees_min_phi", "this.do_symmetry_180degrees_min_phi"
    # the geometry branches: tests `get_scanner_geometry() == "<name>"` are mutually exclusive and (Scanner validates the
    # name) exhaustive
    geo = sorted({key(n) for n in fn.walk() if n.k == "CXXOperatorCallExpr" and n.op == "==" and "get_scanner_geometry()" in key(n, True) and any(m.k == "StringLiteral" for m in n.walk())})
    ex = Explorer(cfg, [V4, V2, D90, D180] + geo)

    def on_el(n, s, _ex):
        # (re)assignment of num_views: the divisibility facts refer to the new value
        if n.k == "BinaryOperator" and n.op == "=" and key(n.c[0]) == "this.num_views":
            return [(a, b) + tuple(s[2:]) for a, b in ((False, False), (True, False), (True, True))]
        return None

    geos = [tuple(i == j for j in range(len(geo))) for i in range(len(geo))] or [()]
    entry = [(a, b, x, y) + g for a, b in ((False, False), (True, False), (True, True)) for x in (True, False) for y in (True, False) for g in geos]
    ctx.stats["geometry_branches"] = geo
    exits = ex.run(entry, on_el)
    bad90 = [s for s in exits if s[0] is True and s[2] is not False]
    bad180 = [s for s in exits if s[1] is True and s[3] is not False]
    ctx.ob("C06.e-view-symmetries-need-divisible-views", fn.qn + "(" + fn.sig[:40] + ")", "90-degree-symmetry", not bad90 and bool(exits), fn.where(), "num_views %% 4 != 0 implies the 90-degree view symmetry is off at every exit (%d exit states)" % len(exits) if not bad90 else "constructor can finish with num_views %% 4 != 0 and the 90-degree symmetry still on")
    ctx.ob("C06.e-view-symmetries-need-divisible-views", fn.qn + "(" + fn.sig[:40] + ")", "180-degree-symmetry", not bad180 and bool(exits), fn.where(), "num_views %% 2 != 0 implies the 180-degree view symmetry is off at every exit" if not bad180 else "constructor can finish with an odd number of views and the 180-degree view symmetry still on: view (num_views+1)/2 is then in no subset")


def schedule_consumer_units():
    """every translation unit of the library that mentions the schedule accessor (a textual pre-filter only decides which units are
    parsed; the rule itself works on resolved callees)"""
    import subprocess

    from engine import compdb

    out = subprocess.run(["grep", "-rl", "--include=*.cxx", "--include=*.h", "--include=*.inl", "--include=*.txx", "get_subset_num", compdb.REPO + "/src"], capture_output=True, text=True).stdout.split()
    units = set(compdb.all_units())
    hits = sorted(f for f in out if f in units and "/swig/" not in f and "/test/" not in f and "/recon_test/" not in f)
    return hits


def rule_f_schedule_consumed_once(ctx, units):
    """get_subset_num() is not a pure accessor: with a randomised order, the call at the first sub-iteration of an iteration draws a
    new permutation.  Every subset is used once per iteration only if the schedule is consulted exactly once per sub-iteration: one
    call in each update_estimate implementation (outside any loop) and no call anywhere else."""
    n = 0
    impure = None
    for u in units:
        for f in u.functions:
            if f.qn == "stir::IterativeReconstruction::get_subset_num" and f.body is not None and not f.is_dependent:
                impure = any(r.startswith("this.") for m in f.walk() for r in {root_of_lvalue(e) for e in written_lvalues(m)}) or any((c.callee or "").endswith("randomly_permute_subset_order") for c in f.calls())
    ctx.stats["get_subset_num_changes_state"] = impure
    seen = set()
    for u in units:
        for f in u.functions:
            if f.body is None or f.is_dependent or not f.file.startswith("/repo/src") or f.qn == "stir::IterativeReconstruction::get_subset_num":
                continue
            k = (f.file, f.line, f.qn)
            if k in seen:
                continue
            seen.add(k)
            calls = [c for c in f.calls() if (c.callee or "") == "stir::IterativeReconstruction::get_subset_num"]
            if not calls and f.short != "update_estimate":
                continue
            fid = f.qn + "(" + f.sig[:30] + ")"
            if f.short == "update_estimate":
                in_loop = [c for c in calls if any(a.k in ("ForStmt", "WhileStmt", "DoStmt", "CXXForRangeStmt") for a in c.ancestors())]
                ok = (len(calls) == 1 and not in_loop) or (impure is False and len(calls) >= 1)
                ctx.ob("C06.f-schedule-consulted-once", fid, "one-call-per-sub-iteration", ok, f.where(), "the subset number is drawn exactly once, outside any loop" if ok else "%d get_subset_num() calls (%d inside a loop) in one sub-iteration" % (len(calls), len(in_loop)))
            else:
                ctx.ob("C06.f-schedule-consulted-once", fid, "no-call-outside-update", impure is False, calls[0].where(), "get_subset_num() changes no state in the current source, extra calls are harmless" if impure is False else "get_subset_num() is called outside update_estimate: with a randomised order this draws a second permutation in the same iteration, so a subset is used twice and another not at all")
            n += 1
    return n


PLL = "stir::PoissonLogLikelihoodWithLinearModelForMeanAndProjData"


def rule_g_all_tof_bins(ctx, pll_fns, dist_fns):
    """Every TOF bin of the data is processed once: (1) the objective function hands the distributable layer a TOF range (-F, +F)
    (or 0..0 for a non-TOF sensitivity) with one member F; (2) F is re-derived from the data - F = proj_data.get_max_tof_pos_num() - on
    every path of the set-up function, never kept from an earlier set-up; (3) distributable_computation runs its TOF loop from the
    lower to the upper bound it is handed in steps of one."""
    n = 0
    fields = set()
    seen = set()
    for f in pll_fns:
        if f.body is None or f.is_dependent or f.cls != PLL or (f.file, f.line) in seen:
            continue
        def tof_slots(c):
            # the two int parameters that follow the caching-information parameter of the distributable_* interface
            ps, depth, cur = [], 0, ""
            for ch in c.callee_info.get("sig") or "":
                if ch == "," and depth == 0:
                    ps.append(cur.strip())
                    cur = ""
                    continue
                depth += ch in "<(" 
                depth -= ch in ">)"
                cur += ch
            ps.append(cur.strip())
            for j, t in enumerate(ps):
                if "DistributedCachingInformation" in t and j + 2 < len(ps) + 0 and ps[j + 1] == "int" and ps[j + 2] == "int" and j + 2 < len(c.call_args()):
                    return j + 1, j + 2
            return None

        calls = [c for c in f.calls() if (c.callee or "").startswith("stir::distributable_") and tof_slots(c)]
        if not calls:
            continue
        seen.add((f.file, f.line))
        for i, c in enumerate(calls):
            a_, b_ = tof_slots(c)
            lo, hi = key(c.call_args()[a_].strip()), key(c.call_args()[b_].strip())
            m = re.fullmatch(r"\(\?: (.+) \(- (this\.\w+)\) 0\)", lo)
            m2 = re.fullmatch(r"\(\?: (.+) (this\.\w+) 0\)", hi)
            if m and m2 and m.group(1) == m2.group(1) and m.group(2) == m2.group(2):
                fld, ok = m.group(2), True
            else:
                m = re.fullmatch(r"\(- (this\.\w+)\)", lo)
                fld = m.group(1) if m else None
                ok = fld is not None and hi == fld
            if ok:
                fields.add(fld)
            ctx.ob("C06.g-all-tof-bins", f.qn, "%s@%d" % (c.callee.split("::")[-1], i), ok, c.where(), "TOF range handed on is (-%s, +%s)" % (fld, fld) if ok else "the TOF range handed to the distributable layer is (%s, %s): not the symmetric range of one member" % (key(c.call_args()[a_], True), key(c.call_args()[b_], True)))
            n += 1
    if len(fields) != 1:
        ctx.unrec(PLL, "expected one member bounding the TOF range, found %s" % sorted(fields))
        return n
    fld = fields.pop()
    # (2) the set-up function: the one that derives the member from the data
    setups = []
    for f in pll_fns:
        if f.body is None or f.is_dependent or f.cls != PLL or not f.cfg_raw:
            continue
        cand = [m for m in f.walk() if m.k == "BinaryOperator" and m.op == "=" and key(m.c[0].strip()) == fld]
        if not cand:
            continue
        defs = LocalDefs(f)
        sub = {d: defs.single_def(d) for d in defs.decl}
        asg = [m for m in cand if "get_max_tof_pos_num()" in key(m.c[1].strip(), False, sub)]
        if asg and (f.file, f.line) not in {(g.file, g.line) for g, _a, _s in setups}:
            setups.append((f, asg, sub))
    if len(setups) != 1:
        ctx.ob("C06.g-all-tof-bins", PLL, "tof-range-from-data", False, "", "no set-up function derives %s from the data's get_max_tof_pos_num()" % fld if not setups else "several functions derive %s from the data" % fld)
        return n + 1
    f, asg, sub = setups[0]
    cfg = CFG(f)
    ids = {a.i for a in asg}
    from_data = all(re.fullmatch(r"\*?this\.proj_data_sptr\.get_max_tof_pos_num\(\)|this\.proj_data_sptr->get_max_tof_pos_num\(\)", key(a.c[1].strip(), False, sub)) for a in asg)
    w = cfg.paths_avoiding([(cfg.entry, -1)], lambda x: x.i in ids)
    ok = w is None and from_data
    ctx.ob("C06.g-all-tof-bins", f.qn, "tof-range-from-data", ok, asg[0].where(), "%s = the data's maximum TOF index on every path of the set-up" % fld if ok else ("a path through the set-up keeps the previous %s (blocks %s): after set-up for other data, TOF bins beyond the old range are never processed" % (fld, w) if w is not None else "%s is not the data's get_max_tof_pos_num()" % fld))
    n += 1
    # (3) the TOF loop of distributable_computation
    for d in dist_fns:
        if d.qn != "stir::distributable_computation" or d.body is None:
            continue
        ints = [pp for pp in d.params if pp["t"].replace("const ", "").strip() == "int"]
        if len(ints) < 2:
            continue
        lo, hi = "v%d" % ints[-2]["d"], "v%d" % ints[-1]["d"]
        loops = [describe(lp, names=False) for lp in d.walk() if lp.k == "ForStmt"]
        ok = any(L and L.get("init") == lo and L.get("upper") == hi and L.get("step") in ("1", 1) and L.get("cmp", "<=") == "<=" for L in loops)
        ctx.ob("C06.g-all-tof-bins", d.qn, "tof-loop", ok, d.where(), "for (t = min_timing_pos_num; t <= max_timing_pos_num; ++t)" if ok else "no loop runs over min_timing_pos_num..max_timing_pos_num in steps of one: %s" % [(L.get("init"), L.get("upper"), L.get("step")) for L in loops if L][:6])
        n += 1
        break
    return n


def rule_h_report_loops_cover_the_ranges(ctx, fns):
    """The balanced-subsets reports count what each subset processes.  A counting loop that starts at X.get_min_Y(..) runs up to and
    including X.get_max_Y(..) of the same object and arguments (the view loop: in steps of the number of subsets) - a loop that stops
    one short drops the last position from every count, and for data with a single position all counts are 0, i.e. `balanced` for any
    number of subsets (F72, list-mode objective function)."""
    from engine.loops import describe

    RULE = "C06.h-report-loops-cover-the-ranges"
    n = 0
    seen = set()
    for f in fns:
        if f.short != "actual_subsets_are_approximately_balanced" or f.body is None or (f.file, f.body.line) in seen:
            continue
        seen.add((f.file, f.body.line))
        for lp in f.walk():
            if lp.k != "ForStmt":
                continue
            d = describe(lp, names=True)
            if not d:
                continue
            m = re.fullmatch(r"(\(\+ )?(.*)\.get_min_(\w+)\((.*?)\)( \w+\))?", d["init"])
            if not m:
                continue
            obj, what, args = m.group(2), m.group(3), m.group(4)
            want = "%s.get_max_%s(%s)" % (obj, what, args)
            ok = d["upper"] == want
            ctx.ob(RULE, f.qn.split("<")[0], "loop:" + what, ok, lp.where(), "runs from get_min_%s to get_max_%s inclusive" % (what, what) if ok else "the loop over %s starts at get_min_%s but ends at `%s`, not at get_max_%s: the last position is never counted, and data with a single position give the count 0 for every subset (reported as balanced whatever the number of subsets)" % (what, what, d["upper"], what))
            n += 1
    return n


def rule_i_related_counts_defined(ctx, fns):
    """The balanced-subsets reports add up num_related_view_segment_numbers / num_related_bins of the basic view/segments or bins.
    Those functions compute their result in a local that the geometry branches fill in: it must be definitely assigned on every path to
    the return (declaration with initialiser, or an assignment on every path) - F73: for BlocksOnCylindrical data the result was left
    uninitialised on two paths."""
    RULE = "C06.i-related-counts-defined-on-every-path"
    n = 0
    seen = set()
    for f in sorted(fns, key=lambda g: bool(g.is_dependent)):
        if not f.short.startswith("num_related") or f.body is None or not f.cfg_raw or (f.file, f.body.line) in seen:
            continue
        seen.add((f.file, f.body.line))
        cfg = CFG(f)
        defs = LocalDefs(f)
        rets = [m for m in f.walk() if m.k == "ReturnStmt" and m.c and m.i in cfg.pos]
        for d, vd in sorted(defs.decl.items()):
            used = [r for r in rets if any(x.k == "DeclRefExpr" and x.get("d") == d for x in r.c[0].walk())]
            if not used or vd.get("dk") == "param" or not re.fullmatch(r"(const )?(unsigned )?(int|long|float|double|bool)", (vd.get("t") or "").strip()):
                continue
            if vd.c:
                ok = True
            else:
                ws = {w.i for w in defs.writes.get("v%d" % d, []) if w.i in cfg.pos}
                ok = bool(ws) and cfg.must_pass_from_entry(used, lambda x, s_=ws: x.i in s_) is None
            ctx.ob(RULE, f.qn, "result:" + (vd.name or "?"), ok, vd.where(), "`%s` has a value on every path to the return" % vd.name if ok else "`%s` is returned but on some path nothing was assigned to it (declared without initialiser): the count the balanced-subsets report adds up is whatever the memory contained" % vd.name)
            n += 1
    return n


def run(ctx):
    ctx.explanation = (
        "Decides: (a) the subset enumeration lists each is_basic (view,segment) of the residue class view = min_view+subset_num mod "
        "num_subsets exactly once (loop descriptors; the TOF loop around it is a single pass whose variable is unused), so the subsets' "
        "lists are disjoint and cover all basic view/segments for every number of views/subsets; (b) the 'balanced' test re-implements "
        "exactly those loops and compares all counts for equality; (c) all consumers take their lists from that one function with their "
        "own subset arguments; (d) the ordered schedule advances the subset index by one per sub-iteration (a bijection on any window "
        "of num_subsets sub-iterations), the random schedule indexes with the expression of its regeneration test and the random order "
        "exists before its first read for every start sub-iteration; (e) the view symmetries are off whenever num_views is not "
        "divisible by 4 resp. 2. NOT decided: that randomly_permute_subset_order returns a permutation; that is_basic/related views "
        "partition the views for each symmetry class (arithmetic over num_views)."
    )
    ctx.assumptions += ["min_tof_pos_num == -max_tof_pos_num (enforced by ProjDataInfo::set_tof_mash_factor)"]
    reqs = requests()
    ctx.ex.prefetch(reqs)
    us = [ctx.ex.get(r) for r in reqs]
    if any(u is None for u in us):
        return
    e = inst([f for f in us[0].functions if f.qn == ENUM])
    if not e:
        ctx.fail_broken("anchor %s not found" % ENUM)
        return
    rule_a(ctx, e[0])
    b = inst([f for f in us[1].functions if f.short == "actual_subsets_are_approximately_balanced"])
    if not b:
        ctx.fail_broken("anchor actual_subsets_are_approximately_balanced not found")
    else:
        rule_b(ctx, b[0], e[0])
    rule_c(ctx, list(zip(CONSUMERS, us[4:])))
    g = inst([f for f in us[2].functions if f.short == "get_subset_num"])
    if not g:
        ctx.fail_broken("anchor get_subset_num not found")
    else:
        rule_d(ctx, g[0])
    c = [f for f in us[3].functions if f.body is not None and f.is_ctor and len(f.params) > 3]
    if not c:
        ctx.fail_broken("anchor DataSymmetriesForBins_PET_CartesianGrid constructor not found")
    else:
        rule_e(ctx, c[0])
    su = schedule_consumer_units()
    sreqs = [Request(x, fn=["stir::.*"], files=["/repo/src/.*"]) for x in su]
    ctx.ex.prefetch(sreqs)
    sunits = [ctx.ex.get(r) for r in sreqs]
    ctx.stats["schedule_units"] = [x.replace("/repo/", "") for x in su]
    if any(x is None for x in sunits):
        return
    rule_f_schedule_consumed_once(ctx, sunits)
    ctx.require_count("C06.f-schedule-consulted-once", 3)
    greqs = [
        Request("src/recon_buildblock/PoissonLogLikelihoodWithLinearModelForMeanAndProjData.cxx", fn=[PLL + "::.*"], rec=[PLL]),
        Request("src/recon_buildblock/distributable.cxx", fn=["stir::distributable_computation"]),
    ]
    ctx.ex.prefetch(greqs)
    gu = [ctx.ex.get(r) for r in greqs]
    if any(x is None for x in gu):
        return
    rule_g_all_tof_bins(ctx, gu[0].functions, gu[1].functions)
    ctx.require_count("C06.g-all-tof-bins", 5)
    ireq = Request("src/recon_buildblock/DataSymmetriesForBins_PET_CartesianGrid.cxx", fn=["stir::DataSymmetriesForBins_PET_CartesianGrid::num_related.*"], files=["/repo/src/include/stir/recon_buildblock/DataSymmetriesForBins_PET_CartesianGrid\\.inl", "/repo/src/recon_buildblock/DataSymmetriesForBins_PET_CartesianGrid\\.cxx"])
    iu = ctx.ex.get(ireq)
    if iu is not None:
        rule_i_related_counts_defined(ctx, iu.functions)
        ctx.require_count("C06.i-related-counts-defined-on-every-path", 1)
    hreq = Request("src/recon_buildblock/PoissonLogLikelihoodWithLinearModelForMeanAndListModeDataWithProjMatrixByBin.cxx", fn=["stir::PoissonLogLikelihoodWithLinearModelForMeanAndListModeDataWithProjMatrixByBin::actual_subsets_are_approximately_balanced"])
    hu = ctx.ex.get(hreq)
    if hu is not None:
        rule_h_report_loops_cover_the_ranges(ctx, sorted(list(hu.functions) + list(us[1].functions), key=lambda g: bool(g.is_dependent)))
        ctx.require_count("C06.h-report-loops-cover-the-ranges", 6)
    ctx.require_count("C06.a-residue-class-enumeration", 3)
    ctx.require_count("C06.b-balanced-counts-what-is-processed", 1)
    ctx.require_count("C06.c-one-enumeration", 6)
    ctx.require_count("C06.d-schedule", 3)
    ctx.require_count("C06.e-view-symmetries-need-divisible-views", 2)
