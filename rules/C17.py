"""C17 - text and header input.  Decided clauses:

 a  RF9  every key type that the add_key / add_vectorised_key API can register has a case in the parser
         (parse_value_in_line), in the assigner (set_variable, scalar resp. vectorised switch) and in the printer
         (value_to_stream resp. vectorised_value_to_stream): what is registered can be parsed, stored and printed back
 b  RF1  a vectorised key is stored at a validated index: the subscript index-1 is dominated by the size test with error()
         exit; unvectorised keys reject an index and vectorised keys require one
 c  RF1  the Interfile per-data-set vectors are sized with the number of data sets that the consistency loops iterate over
 d  RF3  failures propagate: parse()/post_processing() results are not dropped on the reader chain
 e  RF7  keywords are normalised through the one standardise_keyword before they are stored or compared; alias
         resolution precedes the look-up
"""
import re

from engine.bounds import Bounds
from engine.cfg import CFG, relations
from engine.extract import Request
from engine.tree import key

KP = "src/buildblock/KeyParser.cxx"
IH = "src/IO/InterfileHeader.cxx"
IF = "src/IO/interfile.cxx"


def requests():
    return [
        Request(KP, fn=["stir::KeyParser::.*", "stir::assign_to_list"], enum=["stir::KeyArgument::type"], files=["/repo/src/buildblock/KeyParser.cxx"]),
        Request(IH, fn=["stir::Interfile.*Header::.*", "stir::MinimalInterfileHeader::.*", "stir::find_segment_sequence"], files=["/repo/src/IO/InterfileHeader.cxx"]),
        Request(IF, fn=["stir::read_interfile_.*", "stir::create_image_and_header_from", "stir::is_interfile_signature"], files=["/repo/src/IO/interfile.cxx"]),
    ]


def uniq(fns):
    seen, out = set(), []
    for f in fns:
        k = (f.file, f.body.line if f.body is not None else f.line, f.qn, f.sig)
        if k not in seen:
            seen.add(k)
            out.append(f)
    return out


def switch_cases(sw):
    vals = set()
    has_default = False
    for m in sw.walk():
        if m.k == "CaseStmt" and "cv" in m.d:
            vals.add(m.get("cv"))
        if m.k == "DefaultStmt":
            has_default = True
    return vals, has_default


def rule_a(ctx, fns, enum):
    names = {e["v"]: e["n"] for e in enum["enumerators"]}
    # registrable (type, vectorised?) pairs: the typed overloads forward to add_key(keyword, KeyArgument::T, variable[, level])
    reg0, reg1 = set(), set()
    for f in fns:
        if f.short not in ("add_key", "add_vectorised_key", "add_parsing_key", "add_start_key", "add_stop_key", "ignore_key") or f.body is None:
            continue
        for c in f.calls():
            if c.callee in ("stir::KeyParser::add_key", "stir::KeyParser::add_in_keymap") and c is not None:
                args = c.call_args()
                types = [a for a in args if a.strip().k == "DeclRefExpr" and a.strip().get("dk") == "enumconst" and "KeyArgument" in (a.strip().get("qn") or "")]
                if not types:
                    continue
                t = types[0].strip().get("cv")
                level = 0
                lits = [a for a in args if a.strip().k == "IntegerLiteral"]
                if f.short == "add_vectorised_key" or (lits and lits[-1].strip().get("v", 0) > 0 and lits[-1] is not args[1]):
                    level = 1
                if f.short == "add_vectorised_key":
                    level = 1
                (reg1 if level else reg0).add(t)
    ctx.stats["registrable_scalar"] = sorted(names[t] for t in reg0)
    ctx.stats["registrable_vectorised"] = sorted(names[t] for t in reg1)
    if len(reg0) < 10 or len(reg1) < 5:
        ctx.fail_broken("registration API not recognised (scalar %d, vectorised %d types)" % (len(reg0), len(reg1)))
        return
    byname = {}
    for f in fns:
        byname.setdefault(f.short, []).append(f)

    def the_switches(fname):
        out = []
        for f in byname.get(fname, []):
            if f.body is None:
                continue
            for m in f.walk():
                if m.k == "SwitchStmt" and "type" in key(m.c[0], True):
                    out.append((f, m))
        return out

    # parser: one switch over all registrable types (NONE needs no value)
    for consumer, regs, pick in (
        ("parse_value_in_line", reg0 | reg1, None),
        ("value_to_stream", reg0, None),
        ("vectorised_value_to_stream", reg1, None),
        ("set_variable", reg0, "scalar"),
        ("set_variable", reg1, "vector"),
    ):
        sws = the_switches(consumer)
        if not sws:
            ctx.fail_broken("no switch over the key type in KeyParser::%s" % consumer)
            continue
        if pick is not None:
            if len(sws) != 2:
                ctx.unrec("stir::KeyParser::set_variable", "expected two switches (scalar / vectorised), found %d" % len(sws))
                continue
            f, _ = sws[0]
            cfg = CFG(f)
            chosen = None
            for f_, sw in sws:
                facts = cfg.facts_at(sw.c[0]) if sw.c[0].i in cfg.pos else frozenset()
                noidx = any(k == "this.current_index" and tv is False for k, tv, _r in facts)
                if (pick == "scalar") == noidx:
                    chosen = (f_, sw)
            if chosen is None:
                ctx.unrec("stir::KeyParser::set_variable", "cannot tell the scalar from the vectorised switch")
                continue
            f, sw = chosen
        else:
            f, sw = sws[0]
        vals, has_default = switch_cases(sw)
        # a default that only warns/errors does not count as handling
        missing = sorted(names[t] for t in regs if t not in vals and names[t] not in ("NONE",))
        # parsing objects are handled by their own call-backs in set_variable / value_to_stream
        tolerated = {"PARSINGOBJECT", "SHARED_PARSINGOBJECT"} if consumer in ("set_variable",) else set()
        missing = [m for m in missing if m not in tolerated]
        ctx.ob(
            "C17.a-registrable-types-handled",
            "stir::KeyParser::" + consumer,
            ("%s-switch" % pick) if pick else "switch",
            not missing,
            f.where(),
            "cases for all %d registrable %s key types" % (len(regs), pick or "") if not missing else "registrable key type(s) %s have no case: such a key is registered but cannot be %s" % (missing, {"parse_value_in_line": "parsed", "set_variable": "stored"}.get(consumer, "printed")),
        )


def rule_b(ctx, fns):
    for f in fns:
        if f.short == "assign_to_list" and f.body is not None and f.cfg_raw and not f.is_dependent:
            cfg = CFG(f)
            subs = [m for m in f.walk() if m.k == "CXXOperatorCallExpr" and m.op == "[]" and len(m.c) == 2 and m.c[0].strip().k == "DeclRefExpr"]
            if not subs:
                continue
            s = subs[0]
            rels = relations(cfg.facts_at(s))
            lst, idx = key(s.c[0].strip()), key(s.c[1].strip())
            # need: (index-1) < size, i.e. not (size < index) with index compared as unsigned (a negative index becomes huge)
            # the index parameter is the one the subscript is computed from: list[P - 1]
            cur = [p for p in f.params if idx == "(- v%d 1)" % p["d"]]
            ck = "v%d" % cur[0]["d"] if cur else "?"
            ok = any(a == "%s.size()" % lst and op == ">=" and b == ck for a, op, b in rels) and idx == "(- %s 1)" % ck
            ab = any(b.aborts for b in cfg.blocks.values())
            ctx.ob("C17.b-vectorised-index-validated", f.qnt, "subscript", ok and ab, s.where(), "list[%s] is dominated by size() >= unsigned(current_index) with error() otherwise" % key(s.c[1], True) if ok and ab else "vector element %s stored without a dominating size test" % key(s, True))
            break
    for f in fns:
        if f.short == "set_variable" and f.cfg_raw:
            cfg = CFG(f)
            errs = [c for c in f.calls("stir::error")]
            texts = " ".join((m.get("v") or "") for c in errs for m in c.walk() if m.k == "StringLiteral")
            ok = "expected a vectorised key" in texts and "unexpected" in texts
            # structural: in the no-index branch an error is guarded by vectorised_key_level > 0, in the index branch by == 0
            good = 0
            for c in errs:
                facts = cfg.facts_at(c)
                noidx = [tv for k, tv, _r in facts if k == "this.current_index"]
                lvl = [(k, tv) for k, tv, _r in facts if "vectorised_key_level" in k]
                if noidx and lvl:
                    good += 1
            ctx.ob("C17.b-vectorised-index-validated", f.qn, "index-presence-matches-registration", good >= 2, f.where(), "no index on a vectorised key and an index on a scalar key are both error() exits" if good >= 2 else "set_variable does not reject a missing/unexpected index in both directions")


def rule_c(ctx, hfns):
    PER_DATASET = ("image_scaling_factors", "data_offset_each_dataset")
    n = 0
    from engine.algebra import LocalDefs

    for f in hfns:
        if f.body is None:
            continue
        if f.is_ctor:
            continue  # in a constructor the derived part does not exist yet; the defaults are one frame x one data type
        defs = LocalDefs(f)
        sub = {d: defs.single_def(d) for d in defs.decl}
        for m in f.walk():
            if m.k == "CXXMemberCallExpr" and (m.callee or "").endswith("vector::resize") and m.c and key(m.c[0], True) in ["this." + v for v in PER_DATASET]:
                a = key(m.call_args()[0].strip(), True, sub)
                ok = a == "this.get_num_datasets()"
                ctx.ob("C17.c-per-dataset-vectors", f.qn, "resize:%s" % key(m.c[0], True)[5:], ok, m.where(), "sized with get_num_datasets(), the bound of the loops that index it" if ok else "sized with %s but indexed up to get_num_datasets() (overridden by derived headers)" % a)
                n += 1
    # the loops indexing them by data set run to get_num_datasets()
    from engine.loops import describe

    for f in hfns:
        if f.body is None or f.is_ctor:
            continue
        defs = LocalDefs(f)
        sub = {dd: defs.single_def(dd) for dd in defs.decl}
        for lp in f.walk():
            if lp.k != "ForStmt":
                continue
            d = describe(lp, names=False)
            if d is not None:
                # express the bound through what the locals were initialised with
                cond = lp.c[1].strip()
                if cond.k == "BinaryOperator" and cond.op == "<" and len(cond.c) == 2:
                    d["upper"] = "(- %s 1)" % key(cond.c[1].strip(), False, sub)
            if d is None:
                continue
            uses = [m for m in lp.c[3].walk() if m.k == "CXXOperatorCallExpr" and m.op == "[]" and len(m.c) == 2 and key(m.c[0].strip()) in ["this." + v for v in PER_DATASET] and key(m.c[1].strip()) == d["var"]]
            if not uses:
                continue
            ok = d["upper"] in ("(- this.get_num_datasets() 1)",) and d["init"] == "0"
            ctx.ob("C17.c-per-dataset-vectors", f.qn, "loop@%s" % sorted({key(u.c[0].strip(), True)[5:] for u in uses})[0], ok, "%s:%d" % (f.file, lp.line), "data-set loop runs 0..get_num_datasets()-1" if ok else "loop over data sets has bounds %s..%s" % (d["init"], d["upper"]))
            n += 1
    return n


def rule_d(ctx, ifns, kfns):
    # readers: parse() result tested
    n = 0
    for f in ifns:
        if f.body is None or not f.short.startswith("read_interfile_"):
            continue
        for c in f.calls():
            if c.k == "CXXMemberCallExpr" and (c.callee or "").split("::")[-1] == "parse" and c.c and ("Header" in (c.c[0].type or "") or "Header" in (c.callee or "")):
                p = c.parent
                used = p is not None and (p.k in ("UnaryOperator", "BinaryOperator", "CXXOperatorCallExpr", "VarDecl", "ReturnStmt") or (p.k == "IfStmt" and p.c and p.c[0] is c))
                ctx.ob("C17.d-failures-propagate", f.qn + "(" + f.sig[:25] + ")", "parse-result@%d" % n, used, c.where(), "header parse result is tested" if used else "result of hdr.parse() dropped: a rejected header would be used")
                n += 1
    # KeyParser::parse_header: post_processing() result decides the return value
    for f in kfns:
        if f.short == "parse" and "istream" in f.sig and f.body is not None:
            pp = [c for c in f.calls() if (c.callee or "").endswith("::post_processing")]
            used = bool(pp) and all(c.parent is not None and c.parent.k != "CompoundStmt" for c in pp)
            ctx.ob("C17.d-failures-propagate", f.qn, "post_processing-result", used, f.where(), "post_processing() result decides what parse() returns" if used else "post_processing() result dropped")
            n += 1
    return n


def rule_e(ctx, fns):
    byname = {}
    for f in fns:
        byname.setdefault(f.short, []).append(f)

    def calls_std(f, what="standardise_keyword"):
        return [c for c in f.calls() if (c.callee or "").endswith("::" + what)]

    for name, want in (("add_in_keymap", 1), ("add_alias_key", 2), ("find_in_ASCIIlist", 2)):
        for f in byname.get(name, [])[:1]:
            n = len(calls_std(f))
            ctx.ob("C17.e-keyword-normalisation", f.qn, "standardises", n >= want, f.where(), "%d standardise_keyword call(s)" % n if n >= want else "keyword stored/compared without standardise_keyword (%d of %d)" % (n, want))
    for f in byname.get("add_in_keymap", [])[:1]:
        # what is stored and what is looked up is the standardised form
        pb = [c for c in f.calls() if (c.callee or "").endswith("push_back")]
        fk = [c for c in f.calls() if (c.callee or "").endswith("::find_in_keymap")]
        # (data flow, not identifiers: what is pushed / looked up is standardise_keyword(<the keyword parameter>))
        from engine.algebra import LocalDefs as _LD

        _defs = _LD(f)
        _sub = {d: _defs.single_def(d) for d in _defs.decl}
        std = "this.standardise_keyword(v%d)" % f.params[0]["d"] if f.params else "?"
        ok = bool(pb) and std in key(pb[0], False, _sub) and bool(fk) and key(fk[0].call_args()[0], False, _sub) == std
        ctx.ob("C17.e-keyword-normalisation", f.qn, "stores-standardised-form", ok, f.where(), "the standardised keyword is what is looked up and stored" if ok else "the raw keyword is stored or looked up")
    for f in byname.get("read_and_parse_line", [])[:1]:
        if not f.cfg_raw:
            continue
        cfg = CFG(f)
        std = calls_std(f)
        ali = [c for c in f.calls() if (c.callee or "").endswith("::resolve_alias")]
        pvl = [c for c in f.calls() if (c.callee or "").endswith("::parse_value_in_line")]
        ok = bool(std) and bool(ali) and bool(pvl)
        if ok:
            sid, aid = {c.i for c in std}, {c.i for c in ali}
            ok = cfg.must_pass_from_entry(pvl, lambda x: x.i in sid) is None and cfg.must_pass_from_entry(pvl, lambda x: x.i in aid) is None
            # alias after standardisation
            ok = ok and cfg.must_pass_from_entry(ali, lambda x: x.i in sid) is None
        ctx.ob("C17.e-keyword-normalisation", f.qn, "standardise-then-alias-then-lookup", ok, f.where(), "every line's keyword is standardised, alias-resolved, then mapped" if ok else "a path maps the keyword without standardisation/alias resolution first")


def rule_f_lists_length_checked(ctx, hfns):
    """The length of a list-valued key ({a,b,c}) is whatever the header text says.  When a header class hands several such vectors to
    a helper that indexes them in lock step (the helper takes its bound from ONE of them), the caller must have tested the size of
    EACH of them against one expected count, with an exit on mismatch, on every path to the call.  Otherwise a short list is read
    past its end and a long one is silently truncated."""
    from engine.cfg import CFG

    bodies = {}
    for f in hfns:
        if f.body is not None:
            bodies.setdefault(f.qn, f)
    n = 0
    seen = set()
    for f in hfns:
        if f.body is None or not f.cfg_raw or f.cls is None or (f.file, f.line) in seen:
            continue
        for c in f.calls():
            callee = bodies.get(c.callee or "")
            if callee is None or callee is f or len(callee.params) != len(c.call_args()):
                continue
            # vector-typed members handed over, which the helper subscripts without (re)sizing them itself
            lock = []
            for a, pp in zip(c.call_args(), callee.params):
                a = a.strip()
                if not (a.k == "MemberExpr" and a.get("mk") == "field" and a.c and a.c[0].strip().k == "CXXThisExpr" and re.search(r"\bvector<", a.type or "")):
                    continue
                pk = "v%d" % pp["d"]
                subs = [m for m in callee.walk() if m.k == "CXXOperatorCallExpr" and m.op == "[]" and m.c and key(m.c[0].strip()) == pk]
                resized = [m for m in callee.walk() if m.k == "CXXMemberCallExpr" and re.search(r"::(resize|assign|push_back)$", m.callee or "") and m.c and key(m.c[0].strip()) == pk]
                if subs and not resized:
                    lock.append(a)
            if len(lock) < 2:
                continue
            seen.add((f.file, f.line))
            cfg = CFG(f)
            from engine.algebra import LocalDefs

            defs = LocalDefs(f)
            sub = {d: defs.single_def(d) for d in defs.decl}
            expected = {}
            for a in lock:
                fk = key(a)
                tests = []
                for g in f.walk():
                    if g.k != "IfStmt" or len(g.c) < 2:
                        continue
                    cnd = g.c[0].strip()
                    if cnd.k == "UnaryOperator" and cnd.op == "!" and cnd.c and cnd.c[0].strip().k == "BinaryOperator" and cnd.c[0].strip().op == "==":
                        cnd = cnd.c[0].strip()
                    elif not (cnd.k == "BinaryOperator" and cnd.op == "!=" and len(cnd.c) == 2):
                        continue
                    sides = [key(x.strip(), False, sub) for x in cnd.c]
                    if fk + ".size()" not in sides:
                        continue
                    other = sides[1] if sides[0] == fk + ".size()" else sides[0]
                    exits = any(x.k == "ReturnStmt" for x in g.c[1].walk()) or any(x.is_call() and (x.callee or "").endswith("::error") for x in g.c[1].walk())
                    els = [m for m in cnd.walk() if m.i in cfg.pos]
                    if exits and els and any(cfg.dominates(e, c) for e in els):
                        tests.append(re.sub(r"static_cast<[^>]*>\((.*)\)$", r"\1", other))
                ok = bool(tests)
                if ok:
                    expected[fk] = tests[0]
                ctx.ob("C17.f-lists-length-checked", f.qn, "%s:%s" % ((c.callee or "").split("::")[-1], fk.replace("this.", "")), ok, c.where(), "size tested against %s (exit on mismatch) before the helper indexes it" % tests[0] if ok else "`%s` is handed to %s, which indexes it in lock step with %s, without a dominating test of its size: a list of another length in the header is read past its end or silently truncated" % (fk.replace("this.", ""), (c.callee or "").split("::")[-1], ", ".join(key(x).replace("this.", "") for x in lock if x is not a)))
                n += 1
            if len(set(expected.values())) > 1:
                ctx.ob("C17.f-lists-length-checked", f.qn, "%s:one-count" % (c.callee or "").split("::")[-1], False, c.where(), "the lists are tested against different counts: %s" % expected)
                n += 1
    return n


def run(ctx):
    ctx.explanation = (
        "Decides: (a) every key type registrable through the add_key/add_vectorised_key API has a case in parse_value_in_line, in the "
        "scalar resp. vectorised switch of set_variable and in value_to_stream / vectorised_value_to_stream (a registered key can be "
        "parsed, stored and printed back - necessary for parameter_info o parse to be a fixed point); (b) vectorised values are "
        "stored at index-1 only under a dominating size test with error() exit (negative indices are caught by the unsigned "
        "comparison), and index presence must match the registration; (c) the Interfile per-data-set vectors are sized with "
        "get_num_datasets(), the bound of the loops that index them; (d) header parse results and post_processing() results are "
        "tested on the reader chain; (e) keywords are standardised before being stored or compared and alias resolution follows "
        "standardisation and precedes the look-up. NOT decided: absence of out-of-bounds access under arbitrary bytes for the whole "
        "parser, unbounded allocation, value formatting round trips."
    )
    reqs = requests()
    ctx.ex.prefetch(reqs)
    us = [ctx.ex.get(r) for r in reqs]
    if any(u is None for u in us):
        return
    kfns = uniq(us[0].functions)
    if not us[0].enums:
        ctx.fail_broken("enum stir::KeyArgument::type not found")
        return
    rule_a(ctx, kfns, us[0].enums[0])
    rule_b(ctx, kfns)
    hf = uniq(us[1].functions)
    rule_c(ctx, hf)
    rule_d(ctx, uniq(us[2].functions), kfns)
    rule_e(ctx, kfns)
    rule_f_lists_length_checked(ctx, hf)
    ctx.require_count("C17.f-lists-length-checked", 3)
    ctx.require_count("C17.a-registrable-types-handled", 5)
    ctx.require_count("C17.b-vectorised-index-validated", 2)
    ctx.require_count("C17.c-per-dataset-vectors", 3)
    ctx.require_count("C17.d-failures-propagate", 3)
    ctx.require_count("C17.e-keyword-normalisation", 5)
