"""C17 - text and header input.  Decided clauses:

 a  RF9  every key type that the add_key / add_vectorised_key API can register has a case in the parser
         (parse_value_in_line), in the assigner (set_variable, scalar resp. vectorised switch) and in the printer
         (value_to_stream resp. vectorised_value_to_stream): what is registered can be parsed, stored and printed back
 b  RF1  a vectorised key is stored at a validated index: the subscript index-1 is dominated by the size test with error()
         exit; unvectorised keys reject an index and vectorised keys require one
 c  RF1  the Interfile per-data-set vectors are sized with the number of data sets that the consistency loops iterate over
 d  RF3  failures propagate: parse()/post_processing() results are not dropped on the reader chain
 e  RF7  keywords are normalised through the one standardise_keyword before they are stored or compared; alias
         resolution precedes the look-up
"""
import re

from engine.bounds import Bounds
from engine.cfg import CFG, relations
from engine.extract import Request
from engine.tree import key

KP = "src/buildblock/KeyParser.cxx"
IH = "src/IO/InterfileHeader.cxx"
IF = "src/IO/interfile.cxx"


def requests():
    return [
        Request(KP, fn=["stir::KeyParser::.*", "stir::assign_to_list"], enum=["stir::KeyArgument::type"], files=["/repo/src/buildblock/KeyParser.cxx"]),
        Request(IH, fn=["stir::Interfile.*Header::.*", "stir::MinimalInterfileHeader::.*", "stir::find_segment_sequence"], files=["/repo/src/IO/InterfileHeader.cxx"]),
        Request(IF, fn=["stir::read_interfile_.*", "stir::create_image_and_header_from", "stir::is_interfile_signature"], files=["/repo/src/IO/interfile.cxx"]),
        Request("src/IO/InterfileHeaderSiemens.cxx", fn=["stir::Interfile.*::.*"], rec=["stir::Interfile.*", "stir::MinimalInterfileHeader"], files=["/repo/src/IO/InterfileHeaderSiemens.cxx"]),
        Request("src/IO/InterfilePDFSHeaderSPECT.cxx", fn=["stir::Interfile.*::.*"], rec=["stir::InterfilePDFSHeaderSPECT"], files=["/repo/src/IO/InterfilePDFSHeaderSPECT.cxx"]),
        Request(IF, fn=["stir::.*"], files=["/repo/src/IO/interfile.cxx"]),
        Request(KP, fn=["stir::.*"], files=["/repo/src/buildblock/KeyParser.cxx"]),
    ]


def uniq(fns):
    seen, out = set(), []
    for f in fns:
        k = (f.file, f.body.line if f.body is not None else f.line, f.qn, f.sig)
        if k not in seen:
            seen.add(k)
            out.append(f)
    return out


def switch_cases(sw):
    vals = set()
    has_default = False
    for m in sw.walk():
        if m.k == "CaseStmt" and "cv" in m.d:
            vals.add(m.get("cv"))
        if m.k == "DefaultStmt":
            has_default = True
    return vals, has_default


def rule_a(ctx, fns, enum):
    names = {e["v"]: e["n"] for e in enum["enumerators"]}
    # registrable (type, vectorised?) pairs: the typed overloads forward to add_key(keyword, KeyArgument::T, variable[, level])
    reg0, reg1 = set(), set()
    for f in fns:
        if f.short not in ("add_key", "add_vectorised_key", "add_parsing_key", "add_start_key", "add_stop_key", "ignore_key") or f.body is None:
            continue
        for c in f.calls():
            if c.callee in ("stir::KeyParser::add_key", "stir::KeyParser::add_in_keymap") and c is not None:
                args = c.call_args()
                types = [a for a in args if a.strip().k == "DeclRefExpr" and a.strip().get("dk") == "enumconst" and "KeyArgument" in (a.strip().get("qn") or "")]
                if not types:
                    continue
                t = types[0].strip().get("cv")
                level = 0
                lits = [a for a in args if a.strip().k == "IntegerLiteral"]
                if f.short == "add_vectorised_key" or (lits and lits[-1].strip().get("v", 0) > 0 and lits[-1] is not args[1]):
                    level = 1
                if f.short == "add_vectorised_key":
                    level = 1
                (reg1 if level else reg0).add(t)
    ctx.stats["registrable_scalar"] = sorted(names[t] for t in reg0)
    ctx.stats["registrable_vectorised"] = sorted(names[t] for t in reg1)
    if len(reg0) < 10 or len(reg1) < 5:
        ctx.fail_broken("registration API not recognised (scalar %d, vectorised %d types)" % (len(reg0), len(reg1)))
        return
    byname = {}
    for f in fns:
        byname.setdefault(f.short, []).append(f)

    def the_switches(fname):
        out = []
        for f in byname.get(fname, []):
            if f.body is None:
                continue
            for m in f.walk():
                if m.k == "SwitchStmt" and "type" in key(m.c[0], True):
                    out.append((f, m))
        return out

    # parser: one switch over all registrable types (NONE needs no value)
    for consumer, regs, pick in (
        ("parse_value_in_line", reg0 | reg1, None),
        ("value_to_stream", reg0, None),
        ("vectorised_value_to_stream", reg1, None),
        ("set_variable", reg0, "scalar"),
        ("set_variable", reg1, "vector"),
    ):
        sws = the_switches(consumer)
        if not sws:
            ctx.fail_broken("no switch over the key type in KeyParser::%s" % consumer)
            continue
        if pick is not None:
            if len(sws) != 2:
                ctx.unrec("stir::KeyParser::set_variable", "expected two switches (scalar / vectorised), found %d" % len(sws))
                continue
            f, _ = sws[0]
            cfg = CFG(f)
            chosen = None
            for f_, sw in sws:
                facts = cfg.facts_at(sw.c[0]) if sw.c[0].i in cfg.pos else frozenset()
                noidx = any(k == "this.current_index" and tv is False for k, tv, _r in facts)
                if (pick == "scalar") == noidx:
                    chosen = (f_, sw)
            if chosen is None:
                ctx.unrec("stir::KeyParser::set_variable", "cannot tell the scalar from the vectorised switch")
                continue
            f, sw = chosen
        else:
            f, sw = sws[0]
        vals, has_default = switch_cases(sw)
        # a default that only warns/errors does not count as handling
        missing = sorted(names[t] for t in regs if t not in vals and names[t] not in ("NONE",))
        # parsing objects are handled by their own call-backs in set_variable / value_to_stream
        tolerated = {"PARSINGOBJECT", "SHARED_PARSINGOBJECT"} if consumer in ("set_variable",) else set()
        missing = [m for m in missing if m not in tolerated]
        ctx.ob(
            "C17.a-registrable-types-handled",
            "stir::KeyParser::" + consumer,
            ("%s-switch" % pick) if pick else "switch",
            not missing,
            f.where(),
            "cases for all %d registrable %s key types" % (len(regs), pick or "") if not missing else "registrable key type(s) %s have no case: such a key is registered but cannot be %s" % (missing, {"parse_value_in_line": "parsed", "set_variable": "stored"}.get(consumer, "printed")),
        )


def rule_b(ctx, fns):
    for f in fns:
        if f.short == "assign_to_list" and f.body is not None and f.cfg_raw and not f.is_dependent:
            cfg = CFG(f)
            subs = [m for m in f.walk() if m.k == "CXXOperatorCallExpr" and m.op == "[]" and len(m.c) == 2 and m.c[0].strip().k == "DeclRefExpr"]
            if not subs:
                continue
            s = subs[0]
            rels = relations(cfg.facts_at(s))
            lst, idx = key(s.c[0].strip()), key(s.c[1].strip())
            # need: (index-1) < size, i.e. not (size < index) with index compared as unsigned (a negative index becomes huge)
            # the index parameter is the one the subscript is computed from: list[P - 1]
            cur = [p for p in f.params if idx == "(- v%d 1)" % p["d"]]
            ck = "v%d" % cur[0]["d"] if cur else "?"
            ok = any(a == "%s.size()" % lst and op == ">=" and b == ck for a, op, b in rels) and idx == "(- %s 1)" % ck
            ab = any(b.aborts for b in cfg.blocks.values())
            ctx.ob("C17.b-vectorised-index-validated", f.qnt, "subscript", ok and ab, s.where(), "list[%s] is dominated by size() >= unsigned(current_index) with error() otherwise" % key(s.c[1], True) if ok and ab else "vector element %s stored without a dominating size test" % key(s, True))
            break
    for f in fns:
        if f.short == "set_variable" and f.cfg_raw:
            cfg = CFG(f)
            errs = [c for c in f.calls("stir::error")]
            texts = " ".join((m.get("v") or "") for c in errs for m in c.walk() if m.k == "StringLiteral")
            ok = "expected a vectorised key" in texts and "unexpected" in texts
            # structural: in the no-index branch an error is guarded by vectorised_key_level > 0, in the index branch by == 0
            good = 0
            for c in errs:
                facts = cfg.facts_at(c)
                noidx = [tv for k, tv, _r in facts if k == "this.current_index"]
                lvl = [(k, tv) for k, tv, _r in facts if "vectorised_key_level" in k]
                if noidx and lvl:
                    good += 1
            ctx.ob("C17.b-vectorised-index-validated", f.qn, "index-presence-matches-registration", good >= 2, f.where(), "no index on a vectorised key and an index on a scalar key are both error() exits" if good >= 2 else "set_variable does not reject a missing/unexpected index in both directions")


def rule_c(ctx, hfns):
    PER_DATASET = ("image_scaling_factors", "data_offset_each_dataset")
    n = 0
    from engine.algebra import LocalDefs

    for f in hfns:
        if f.body is None:
            continue
        if f.is_ctor:
            continue  # in a constructor the derived part does not exist yet; the defaults are one frame x one data type
        defs = LocalDefs(f)
        sub = {d: defs.single_def(d) for d in defs.decl}
        for m in f.walk():
            if m.k == "CXXMemberCallExpr" and (m.callee or "").endswith("vector::resize") and m.c and key(m.c[0], True) in ["this." + v for v in PER_DATASET]:
                a = key(m.call_args()[0].strip(), True, sub)
                ok = a == "this.get_num_datasets()"
                ctx.ob("C17.c-per-dataset-vectors", f.qn, "resize:%s" % key(m.c[0], True)[5:], ok, m.where(), "sized with get_num_datasets(), the bound of the loops that index it" if ok else "sized with %s but indexed up to get_num_datasets() (overridden by derived headers)" % a)
                n += 1
    # the loops indexing them by data set run to get_num_datasets()
    from engine.loops import describe

    for f in hfns:
        if f.body is None or f.is_ctor:
            continue
        defs = LocalDefs(f)
        sub = {dd: defs.single_def(dd) for dd in defs.decl}
        for lp in f.walk():
            if lp.k != "ForStmt":
                continue
            d = describe(lp, names=False)
            if d is not None:
                # express the bound through what the locals were initialised with
                cond = lp.c[1].strip()
                if cond.k == "BinaryOperator" and cond.op == "<" and len(cond.c) == 2:
                    d["upper"] = "(- %s 1)" % key(cond.c[1].strip(), False, sub)
            if d is None:
                continue
            uses = [m for m in lp.c[3].walk() if m.k == "CXXOperatorCallExpr" and m.op == "[]" and len(m.c) == 2 and key(m.c[0].strip()) in ["this." + v for v in PER_DATASET] and key(m.c[1].strip()) == d["var"]]
            if not uses:
                continue
            ok = d["upper"] in ("(- this.get_num_datasets() 1)",) and d["init"] == "0"
            ctx.ob("C17.c-per-dataset-vectors", f.qn, "loop@%s" % sorted({key(u.c[0].strip(), True)[5:] for u in uses})[0], ok, "%s:%d" % (f.file, lp.line), "data-set loop runs 0..get_num_datasets()-1" if ok else "loop over data sets has bounds %s..%s" % (d["init"], d["upper"]))
            n += 1
    return n


def rule_d(ctx, ifns, kfns):
    # readers: parse() result tested
    n = 0
    for f in ifns:
        if f.body is None or not f.short.startswith("read_interfile_"):
            continue
        for c in f.calls():
            if c.k == "CXXMemberCallExpr" and (c.callee or "").split("::")[-1] == "parse" and c.c and ("Header" in (c.c[0].type or "") or "Header" in (c.callee or "")):
                p = c.parent
                used = p is not None and (p.k in ("UnaryOperator", "BinaryOperator", "CXXOperatorCallExpr", "VarDecl", "ReturnStmt") or (p.k == "IfStmt" and p.c and p.c[0] is c))
                ctx.ob("C17.d-failures-propagate", f.qn + "(" + f.sig[:25] + ")", "parse-result@%d" % n, used, c.where(), "header parse result is tested" if used else "result of hdr.parse() dropped: a rejected header would be used")
                n += 1
    # KeyParser::parse_header: post_processing() result decides the return value
    for f in kfns:
        if f.short == "parse" and "istream" in f.sig and f.body is not None:
            pp = [c for c in f.calls() if (c.callee or "").endswith("::post_processing")]
            used = bool(pp) and all(c.parent is not None and c.parent.k != "CompoundStmt" for c in pp)
            ctx.ob("C17.d-failures-propagate", f.qn, "post_processing-result", used, f.where(), "post_processing() result decides what parse() returns" if used else "post_processing() result dropped")
            n += 1
    return n


def rule_e(ctx, fns):
    byname = {}
    for f in fns:
        byname.setdefault(f.short, []).append(f)

    def calls_std(f, what="standardise_keyword"):
        return [c for c in f.calls() if (c.callee or "").endswith("::" + what)]

    for name, want in (("add_in_keymap", 1), ("add_alias_key", 2), ("find_in_ASCIIlist", 2)):
        for f in byname.get(name, [])[:1]:
            n = len(calls_std(f))
            ctx.ob("C17.e-keyword-normalisation", f.qn, "standardises", n >= want, f.where(), "%d standardise_keyword call(s)" % n if n >= want else "keyword stored/compared without standardise_keyword (%d of %d)" % (n, want))
    for f in byname.get("add_in_keymap", [])[:1]:
        # what is stored and what is looked up is the standardised form
        pb = [c for c in f.calls() if (c.callee or "").endswith("push_back")]
        fk = [c for c in f.calls() if (c.callee or "").endswith("::find_in_keymap")]
        # (data flow, not identifiers: what is pushed / looked up is standardise_keyword(<the keyword parameter>))
        from engine.algebra import LocalDefs as _LD

        _defs = _LD(f)
        _sub = {d: _defs.single_def(d) for d in _defs.decl}
        std = "this.standardise_keyword(v%d)" % f.params[0]["d"] if f.params else "?"
        ok = bool(pb) and std in key(pb[0], False, _sub) and bool(fk) and key(fk[0].call_args()[0], False, _sub) == std
        ctx.ob("C17.e-keyword-normalisation", f.qn, "stores-standardised-form", ok, f.where(), "the standardised keyword is what is looked up and stored" if ok else "the raw keyword is stored or looked up")
    # every PUBLIC member that is handed a keyword and compares it with the keymap's (standardised) entries, or looks it up, does so
    # with the standardised form (F84: remove_key compared the raw argument)
    seen_pub = set()
    for f in fns:
        if f.body is None or f.cls != "stir::KeyParser" or f.d.get("access", 0) != 0 or (f.file, f.body.line) in seen_pub:
            continue
        sp = [p for p in f.params if re.search(r"(std::)?(basic_)?string", p.get("t") or "") and "&" in (p.get("t") or "") and (p.get("t") or "").lstrip().startswith("const")]
        if not sp:
            continue
        seen_pub.add((f.file, f.body.line))
        for p in sp:
            pk = "v%d" % p["d"]
            raw = []
            for m in f.walk():
                if m.k in ("BinaryOperator", "CXXOperatorCallExpr") and m.op in ("==", "!=") and len(m.c) >= 2:
                    ks = [key(x.strip()) for x in m.c[-2:]]
                    if pk in ks and any(".first" in k_ or "kmap" in k_ for k_ in ks):
                        raw.append(m)
                if m.is_call() and (m.callee or "").endswith("::find_in_keymap") and m.call_args() and key(m.call_args()[0].strip()) == pk:
                    raw.append(m)
            uses_keymap = any(".first" in key(m) or (m.is_call() and (m.callee or "").endswith("::find_in_keymap")) for m in f.walk() if m.k in ("BinaryOperator", "CXXOperatorCallExpr", "CXXMemberCallExpr"))
            if not uses_keymap:
                continue
            ctx.ob("C17.e-keyword-normalisation", f.qn, "public-lookup-standardised:" + (p.get("n") or "?"), not raw, (raw[0] if raw else f).where(), "the keyword argument is standardised before it is compared with the keymap" if not raw else "the keyword argument `%s` is compared with the keymap's standardised entries as given: a keyword spelt with capitals or extra blanks is not found" % p.get("n"))
    for f in byname.get("read_and_parse_line", [])[:1]:
        if not f.cfg_raw:
            continue
        cfg = CFG(f)
        std = calls_std(f)
        ali = [c for c in f.calls() if (c.callee or "").endswith("::resolve_alias")]
        pvl = [c for c in f.calls() if (c.callee or "").endswith("::parse_value_in_line")]
        ok = bool(std) and bool(ali) and bool(pvl)
        if ok:
            sid, aid = {c.i for c in std}, {c.i for c in ali}
            ok = cfg.must_pass_from_entry(pvl, lambda x: x.i in sid) is None and cfg.must_pass_from_entry(pvl, lambda x: x.i in aid) is None
            # alias after standardisation
            ok = ok and cfg.must_pass_from_entry(ali, lambda x: x.i in sid) is None
        ctx.ob("C17.e-keyword-normalisation", f.qn, "standardise-then-alias-then-lookup", ok, f.where(), "every line's keyword is standardised, alias-resolved, then mapped" if ok else "a path maps the keyword without standardisation/alias resolution first")


def rule_f_lists_length_checked(ctx, hfns):
    """The length of a list-valued key ({a,b,c}) is whatever the header text says.  When a header class hands several such vectors to
    a helper that indexes them in lock step (the helper takes its bound from ONE of them), the caller must have tested the size of
    EACH of them against one expected count, with an exit on mismatch, on every path to the call.  Otherwise a short list is read
    past its end and a long one is silently truncated."""
    from engine.cfg import CFG

    bodies = {}
    for f in hfns:
        if f.body is not None:
            bodies.setdefault(f.qn, f)
    n = 0
    seen = set()
    for f in hfns:
        if f.body is None or not f.cfg_raw or f.cls is None or (f.file, f.line) in seen:
            continue
        for c in f.calls():
            callee = bodies.get(c.callee or "")
            if callee is None or callee is f or len(callee.params) != len(c.call_args()):
                continue
            # vector-typed members handed over, which the helper subscripts without (re)sizing them itself
            lock = []
            for a, pp in zip(c.call_args(), callee.params):
                a = a.strip()
                if not (a.k == "MemberExpr" and a.get("mk") == "field" and a.c and a.c[0].strip().k == "CXXThisExpr" and re.search(r"\bvector<", a.type or "")):
                    continue
                pk = "v%d" % pp["d"]
                subs = [m for m in callee.walk() if m.k == "CXXOperatorCallExpr" and m.op == "[]" and m.c and key(m.c[0].strip()) == pk]
                resized = [m for m in callee.walk() if m.k == "CXXMemberCallExpr" and re.search(r"::(resize|assign|push_back)$", m.callee or "") and m.c and key(m.c[0].strip()) == pk]
                if subs and not resized:
                    lock.append(a)
            if len(lock) < 2:
                continue
            seen.add((f.file, f.line))
            cfg = CFG(f)
            from engine.algebra import LocalDefs

            defs = LocalDefs(f)
            sub = {d: defs.single_def(d) for d in defs.decl}
            expected = {}
            for a in lock:
                fk = key(a)
                tests = []
                for g in f.walk():
                    if g.k != "IfStmt" or len(g.c) < 2:
                        continue
                    cnd = g.c[0].strip()
                    if cnd.k == "UnaryOperator" and cnd.op == "!" and cnd.c and cnd.c[0].strip().k == "BinaryOperator" and cnd.c[0].strip().op == "==":
                        cnd = cnd.c[0].strip()
                    elif not (cnd.k == "BinaryOperator" and cnd.op == "!=" and len(cnd.c) == 2):
                        continue
                    sides = [key(x.strip(), False, sub) for x in cnd.c]
                    if fk + ".size()" not in sides:
                        continue
                    other = sides[1] if sides[0] == fk + ".size()" else sides[0]
                    exits = any(x.k == "ReturnStmt" for x in g.c[1].walk()) or any(x.is_call() and (x.callee or "").endswith("::error") for x in g.c[1].walk())
                    els = [m for m in cnd.walk() if m.i in cfg.pos]
                    if exits and els and any(cfg.dominates(e, c) for e in els):
                        tests.append(re.sub(r"static_cast<[^>]*>\((.*)\)$", r"\1", other))
                ok = bool(tests)
                if ok:
                    expected[fk] = tests[0]
                ctx.ob("C17.f-lists-length-checked", f.qn, "%s:%s" % ((c.callee or "").split("::")[-1], fk.replace("this.", "")), ok, c.where(), "size tested against %s (exit on mismatch) before the helper indexes it" % tests[0] if ok else "`%s` is handed to %s, which indexes it in lock step with %s, without a dominating test of its size: a list of another length in the header is read past its end or silently truncated" % (fk.replace("this.", ""), (c.callee or "").split("::")[-1], ", ".join(key(x).replace("this.", "") for x in lock if x is not a)))
                n += 1
            if len(set(expected.values())) > 1:
                ctx.ob("C17.f-lists-length-checked", f.qn, "%s:one-count" % (c.callee or "").split("::")[-1], False, c.where(), "the lists are tested against different counts: %s" % expected)
                n += 1
    return n


def _lit(node):
    l = [m.get("v") for m in node.walk() if m.k == "StringLiteral"]
    return l[0] if l else None


def rule_g_element_keys_survive_resizes(ctx, hfns, records):
    """A key registered with the ADDRESS OF AN ELEMENT of a member vector (`add_key(k, &v[0])`) writes through a dangling pointer once
    the vector has been reallocated.  For every such registration in a header class C and every function R of C or one of its bases
    that resizes v when a header line is read (a keyword processor - constructors run before parsing): R registers the element key again
    after the resize (itself or through a function that does), or C (or a base between) has taken R out of the parser:
    `remove_key(K)` for the key K whose processor R is, followed by a registration of K without that processor."""
    RULE = "C17.g-element-keys-survive-resizes"
    from engine.cfg import CFG

    bases = {}
    for rc in records:
        bases.setdefault(rc.get("qn"), [b.get("qn") if isinstance(b, dict) else b for b in rc.get("bases", [])])

    def ancestors(c):
        out, todo = [], [c]
        while todo:
            x = todo.pop()
            for b in bases.get(x, []):
                if b not in out:
                    out.append(b)
                    todo.append(b)
        return out

    fns = [f for f in hfns if f.body is not None and f.cls]
    regs = []  # (function, call, vector member)
    procs = {}  # processor qualified name -> [(key, registering function)]
    for f in fns:
        for c in f.calls():
            if (c.callee or "").split("::")[-1] != "add_key":
                continue
            args = c.call_args()
            for a in args[1:]:
                a = a.strip()
                if a.k == "UnaryOperator" and a.op == "&" and a.c:
                    t = a.c[0].strip()
                    if (t.k == "CXXOperatorCallExpr" and t.op == "[]" or t.k == "ArraySubscriptExpr") and t.c and t.c[0].strip().k == "MemberExpr" and t.c[0].strip().c and t.c[0].strip().c[0].strip().k == "CXXThisExpr" and "vector<" in (t.c[0].strip().type or ""):
                        regs.append((f, c, t.c[0].strip().get("n")))
            if len(args) >= 4:
                for m in args[2].walk():
                    if m.k == "DeclRefExpr" and m.get("dk") == "function":
                        procs.setdefault(m.d["fn"]["qn"], []).append((_lit(args[0]), f))
    n = 0
    for f, c, v in regs:
        fam = [f.cls] + ancestors(f.cls)
        resizers = [g for g in fns if g.cls in fam and not g.is_ctor and any(x.k == "CXXMemberCallExpr" and (x.callee or "").split("::")[-1] in ("resize", "assign", "push_back", "clear") and x.c and key(x.c[0].strip()) == "this." + v for x in g.walk())]
        if not resizers:
            ctx.ob(RULE, f.qn, "&%s[..]" % v, True, c.where(), "no function that runs while a header is parsed resizes %s" % v)
            n += 1
            continue
        for g in resizers:
            ok, det = False, ""
            # A. re-registration after the resize
            rereg = {x.i for x in g.calls() if (x.callee or "") == f.qn or ((x.callee or "").split("::")[-1] == "add_key" and any(key(a.strip()) == key(c.call_args()[-1].strip()) for a in x.call_args()))}
            rs = [x for x in g.walk() if x.k == "CXXMemberCallExpr" and (x.callee or "").split("::")[-1] in ("resize", "assign", "push_back", "clear") and x.c and key(x.c[0].strip()) == "this." + v]
            if rereg and g.cfg_raw:
                cfg = CFG(g)
                # a re-registration may stand under the condition the original registration stands under (`version_of_keys ==
                # "STIR3.0"`): when that is false there is no element key to go stale.  Anchor = the outermost such test.
                guards = {key(a.c[0].strip()) for a in c.ancestors() if a.k == "IfStmt" and a.c}
                guards |= {key(a.c[0].strip()) for h in fns if h.qn == f.qn for cc in h.calls() if cc.i == c.i for a in cc.ancestors() if a.k == "IfStmt" and a.c}
                anchors = set()
                for x in g.walk():
                    if x.i not in rereg:
                        continue
                    a_ = x
                    for anc in x.ancestors():
                        if anc.k == "IfStmt" and anc.c and key(anc.c[0].strip()) in guards:
                            a_ = anc.c[0]
                        elif anc.k == "IfStmt":
                            break
                    anchors |= {y.i for y in a_.walk()} if a_ is not x else {x.i}
                # calls of the registering function are anchors themselves (its own test is inside it)
                if cfg.must_pass_before_exit([x for x in rs if x.i in cfg.pos], lambda x: x.i in anchors) is None:
                    ok, det = True, "%s registers the key again after resizing %s" % (g.short, v)
            # B. R is no longer reachable from the parser in C
            if not ok:
                keys = [k for k, _rf in procs.get(g.qn, [])]
                chain = [h for h in fns if h.is_ctor and h.cls in [f.cls] + [a for a in ancestors(f.cls)] and h.cls not in ancestors(g.cls) and h.cls != g.cls]
                for k in keys:
                    for h in chain:
                        rem = [x for x in h.calls() if (x.callee or "").split("::")[-1] == "remove_key" and _lit(x) == k]
                        add = [x for x in h.calls() if (x.callee or "").split("::")[-1] == "add_key" and _lit(x.call_args()[0]) == k and len(x.call_args()) < 4]
                        if rem and add:
                            ok, det = True, "%s takes `%s` (whose processor %s resizes %s) out of the parser and registers it as a plain value" % (h.qn.split("::")[-1], k, g.short, v)
                if not keys:
                    det = "%s resizes %s but is not a keyword processor seen here" % (g.short, v)
            ctx.ob(RULE, f.qn, "&%s[..]/%s" % (v, g.short), ok, c.where(), det if ok else "the key is registered with the address of an element of %s, and %s::%s resizes that vector while a header is parsed without the key being registered again: the next such line writes through a dangling pointer" % (v, g.cls.split("::")[-1], g.short))
            n += 1
    return n


def rule_h_bounded_string_copies(ctx, fns):
    """No header text is copied into a fixed-size character buffer without a test of its length: every strcpy/strcat/sprintf in the
    Interfile readers whose source is not a string literal is dominated by a comparison involving the source's size()/strlen with an
    error() or return on the failing side."""
    RULE = "C17.h-bounded-string-copies"
    from engine.cfg import CFG

    n = 0
    for f in fns:
        if f.body is None or not f.cfg_raw:
            continue
        cps = [c for c in f.calls() if (c.callee or "").split("::")[-1] in ("strcpy", "strcat", "sprintf") and len(c.call_args()) >= 2 and c.call_args()[1].strip().k != "StringLiteral"]
        if not cps:
            continue
        cfg = CFG(f)
        for c in cps:
            src = c.call_args()[1].strip()
            # the object whose characters are copied: X in X.c_str() / X
            obj = src.c[0].strip() if src.k == "CXXMemberCallExpr" and (src.callee or "").endswith("::c_str") and src.c else src
            ok_ = False
            for g in f.walk():
                if g.k != "IfStmt" or len(g.c) < 2:
                    continue
                cnd = g.c[0]
                uses = any((m.k == "CXXMemberCallExpr" and (m.callee or "").split("::")[-1] in ("size", "length") and m.c and key(m.c[0].strip()) == key(obj)) or (m.is_call() and (m.callee or "").split("::")[-1] == "strlen" and m.call_args() and key(m.call_args()[0].strip()) == key(src)) for m in cnd.walk())
                exits = any(x.k == "ReturnStmt" for x in g.c[1].walk()) or any(x.is_call() and (x.callee or "").split("::")[-1] == "error" for x in g.c[1].walk())
                els = [m for m in cnd.walk() if m.i in cfg.pos]
                if uses and exits and els and c.i in cfg.pos and any(cfg.dominates(e, c) for e in els):
                    ok_ = True
            ctx.ob(RULE, f.qn, "%s@%d" % (c.callee.split("::")[-1], c.line), ok_, c.where(), "the length of `%s` is tested (with an exit) before it is copied into the buffer" % key(obj, True) if ok_ else "`%s` comes from the header/caller and is copied with %s into a fixed-size buffer without a test of its length" % (key(obj, True), c.callee.split("::")[-1]))
            n += 1
    return n


def rule_i_counts_validated(ctx, hfns):
    """A count read from the header that sizes vectors (`v.resize(count)` in a keyword processor) is range-checked first: the resize is
    dominated by a comparison of that count with an error() exit - a negative count makes resize throw std::length_error past the
    library's error reporting and an absurd one allocates without bound."""
    RULE = "C17.i-counts-validated-before-resize"
    from engine.cfg import CFG

    n = 0
    seen = set()
    for f in hfns:
        if f.body is None or not f.cfg_raw or f.is_ctor or (f.file, f.line) in seen or not f.short.startswith("read_"):
            continue
        rs = [x for x in f.walk() if x.k == "CXXMemberCallExpr" and (x.callee or "").split("::")[-1] == "resize" and x.c and x.c[0].strip().k == "MemberExpr" and x.call_args()]
        counts = {}
        for x in rs:
            a = x.call_args()[0].strip()
            if a.k == "MemberExpr" and a.c and a.c[0].strip().k == "CXXThisExpr" and re.fullmatch(r"(const )?int", (a.type or "").strip()):
                counts.setdefault(a.get("n"), []).append(x)
        if not counts:
            continue
        seen.add((f.file, f.line))
        cfg = CFG(f)
        for cnt, xs in sorted(counts.items()):
            ok_ = False
            for g in f.walk():
                if g.k != "IfStmt" or len(g.c) < 2:
                    continue
                cnd = g.c[0]
                uses = any(m.k == "BinaryOperator" and m.op in ("<", "<=", ">", ">=") and ("this." + cnt) in (key(m.c[0].strip()), key(m.c[1].strip())) for m in cnd.walk())
                exits = any(x.is_call() and (x.callee or "").split("::")[-1] == "error" for x in g.c[1].walk()) or any(x.k == "ReturnStmt" for x in g.c[1].walk())
                els = [m for m in cnd.walk() if m.i in cfg.pos]
                if uses and exits and els and all(x.i in cfg.pos and any(cfg.dominates(e, x) for e in els) for x in xs):
                    ok_ = True
            if not ok_:
                # the check can sit in a function called first (the base class's processor of the same key)
                for c in f.calls():
                    g2 = next((h for h in hfns if h.qn == c.callee and h.body is not None and h is not f), None)
                    if g2 is None or c.i not in cfg.pos or not all(x.i in cfg.pos and cfg.dominates(c, x) for x in xs):
                        continue
                    for g in g2.walk():
                        if g.k == "IfStmt" and len(g.c) >= 2 and any(m.k == "BinaryOperator" and m.op in ("<", "<=", ">", ">=") and ("this." + cnt) in (key(m.c[0].strip()), key(m.c[1].strip())) for m in g.c[0].walk()) and any(x.is_call() and (x.callee or "").split("::")[-1] == "error" for x in g.c[1].walk()):
                            ok_ = True
            ctx.ob(RULE, f.qn, "count:" + cnt, ok_, xs[0].where(), "`%s` is range-checked (with an exit) before %d vector(s) are resized with it" % (cnt, len(xs)) if ok_ else "`%s` comes straight from the header and sizes %d vector(s) without a range check: negative -> std::length_error escapes, huge -> unbounded allocation" % (cnt, len(xs)))
            n += 1
    return n


def rule_j_index_parsed_strictly(ctx, kfns):
    """`vectorised keys are stored at the index given`: the text between the brackets must BE an integer.  The function that extracts
    the index (the one parse_value_in_line assigns current_index from) converts it with a function that reports how much of the text it
    used (stoi/stol/strtol with an end position, from_chars, a stream extraction that is tested) and reaches error() when the text was not
    used up - not with atoi/atol, which accept `2abc`, `1.9` and overflow silently."""
    RULE = "C17.j-index-parsed-strictly"
    from engine.cfg import CFG

    n = 0
    for f in kfns:
        if f.body is None or f.short != "parse_value_in_line":
            continue
        for m in f.walk():
            if m.k == "BinaryOperator" and m.op == "=" and key(m.c[0].strip()) == "this.current_index" and m.c[1].strip().is_call():
                g = next((h for h in kfns if h.qn == m.c[1].strip().callee and h.body is not None), None)
                if g is None:
                    ctx.unrec(f.qn, "function computing current_index not among the analysed functions")
                    continue
                lax = [c for c in g.calls() if (c.callee or "").split("::")[-1] in ("atoi", "atol", "atoll", "atof")]
                strict = [c for c in g.calls() if (c.callee or "").split("::")[-1] in ("stoi", "stol", "stoll", "stoul", "strtol", "strtoul", "from_chars") and len(c.call_args()) >= 2]
                errs = [c for c in g.calls() if (c.callee or "").split("::")[-1] == "error"]
                endvars = {key(c.call_args()[1].strip()).lstrip("(& ").rstrip(")") for c in strict}
                ok = not lax and bool(strict) and bool(errs)
                if ok and g.cfg_raw:
                    # the error exit depends on the end position reported by the conversion
                    ok = any(a.k == "IfStmt" and a.c and any(v and v in key(a.c[0]) for v in endvars) for e in errs for a in e.ancestors())
                deferred = False
                if not lax and strict and not ok:
                    # or: left-over text makes the function return a distinguished constant, and the caller reaches error() when
                    # current_index equals that constant for a keyword it knows (a comment or an unknown key may contain anything
                    # between brackets - F80, the regression of the first form of this repair)
                    rets = [r for r in g.walk() if r.k == "ReturnStmt" and r.c and any(a.k == "IfStmt" and a.c and any(v and v in key(a.c[0]) for v in endvars) for a in r.ancestors())]
                    sent = {key(r.c[0].strip()) for r in rets}
                    if len(sent) == 1:
                        sk = sent.pop()
                        fcfg = CFG(f)
                        tests = [t for t in f.walk() if t.k == "IfStmt" and t.c and sk in key(t.c[0]) and "this.current_index" in key(t.c[0]) and any((c.callee or "").split("::")[-1] == "error" for c in t.c[1].calls())]
                        sw = [x for x in f.walk() if x.k == "SwitchStmt"]
                        if tests and sw and all(fcfg.dominates(tests[0].c[0].strip(), x.c[0].strip()) or tests[0].i < x.i for x in sw[:1]):
                            ok = deferred = True
                ctx.ob(RULE, g.qn, "conversion", ok, (lax[0] if lax else g).where(), ("the index text is converted with a function that reports the characters used, and left-over text ends in error()" if not deferred else "the index text is converted strictly; left-over text is reported to parse_value_in_line, which reaches error() for a keyword it knows before the value is stored") if ok else ("the index text is converted with %s, which accepts trailing garbage, fractions and overflow silently: `key[2abc]` is stored at index 2" % lax[0].callee.split("::")[-1] if lax else "no strict conversion of the index text with an error() exit for left-over characters found"))
                n += 1
    return n


def rule_k_unknown_lines_never_abort(ctx, kfns):
    """Comments and keys that are not in the keymap are skipped (with a warning at most) whatever they contain.  Everything that
    parse_value_in_line evaluates BEFORE it knows whether the keyword is in the keymap (map_keyword) must therefore be free of error()
    exits - F80: the index extraction called error() for `[text]`, so a comment with brackets aborted the whole parse."""
    RULE = "C17.k-lines-with-unknown-keywords-never-abort"
    from engine.cfg import CFG

    n = 0
    byqn = {h.qn: h for h in kfns if h.body is not None}
    for f in kfns:
        if f.body is None or f.short != "parse_value_in_line" or not f.cfg_raw:
            continue
        cfg = CFG(f)
        mk = [c for c in f.calls() if (c.callee or "").split("::")[-1] == "map_keyword" and c.i in cfg.pos]
        if not mk:
            ctx.unrec(f.qn, "C17.k: no map_keyword call")
            continue

        def can_abort(g, depth=0, seen=None):
            seen = seen or set()
            if g.qn in seen or depth > 4:
                return None
            seen.add(g.qn)
            for c in g.calls():
                if (c.callee or "") == "stir::error":
                    return c
                h = byqn.get(c.callee or "")
                if h is not None and h.file == g.file:
                    r = can_abort(h, depth + 1, seen)
                    if r is not None:
                        return r
            return None

        bad = None
        for c in f.calls():
            if c.i not in cfg.pos or c.i == mk[0].i or not cfg.dominates(c, mk[0]):
                continue
            if (c.callee or "") == "stir::error":
                bad = (c, c)
                break
            h = byqn.get(c.callee or "")
            if h is not None and h.short != "map_keyword":
                r = can_abort(h)
                if r is not None:
                    bad = (c, r)
                    break
        ctx.ob(RULE, f.qn, "before-keyword-look-up", bad is None, (bad[0] if bad else mk[0]).where(), "nothing evaluated before map_keyword() can end in error()" if bad is None else "%s is evaluated for every line before the keyword is looked up and can end in error() (%s): a comment or an unknown key that it does not like aborts the whole parse instead of being skipped" % ((bad[0].callee or "").split("::")[-1], bad[1].where()))
        n += 1
    return n


def rule_l_carriage_return_removed_before_continuation_test(ctx, fns):
    """read_line() joins physical lines that end in the continuation character.  Text with DOS line ends has a carriage return after
    that character: the test of the last character of a physical line against the continuation character must come after the removal
    of a trailing '\r' from THAT physical line - the '\r' test dominates the continuation test (seed C17-5: the removal moved behind
    the loop, a continued value - every printed 2D/3D array - is then cut after its first line)."""
    from engine.cfg import CFG

    RULE = "C17.l-carriage-return-removed-before-the-continuation-test"
    n = 0
    for f in fns:
        if f.short != "read_line" or f.body is None or not f.cfg_raw or len(f.params) < 3:
            continue
        cc = "v%d" % f.params[2]["d"]
        cfg = CFG(f)
        cont = [m for m in f.walk() if m.k in ("BinaryOperator", "CXXOperatorCallExpr") and m.op in ("==", "!=") and cc in (key(m.c[0].strip()), key(m.c[-1].strip())) and m.i in cfg.pos]
        cr = [m for m in f.walk() if m.k in ("BinaryOperator", "CXXOperatorCallExpr") and m.op in ("==", "!=") and any(x.k == "CharacterLiteral" and x.get("v") == 13 for x in m.walk()) and m.i in cfg.pos]
        if not cont:
            ctx.unrec(f.qn, "C17.l: no comparison with the continuation character")
            continue
        for k_, t in enumerate(cont):
            loops = [a for a in t.ancestors() if a.k in ("WhileStmt", "DoStmt", "ForStmt")]
            if not loops:
                ctx.unrec(f.qn, "C17.l: the continuation test is not inside a loop over physical lines")
                continue
            L = loops[0]
            # inside the same pass over one physical line, before the continuation test (the test may sit under `if (!thisline.empty())`)
            ok = any(any(a is L for a in c.ancestors()) and c.i < t.i for c in cr)
            ctx.ob(RULE, f.qn, "continuation-test#%d" % k_, ok, t.where(), "a trailing carriage return is looked for in the same pass over the physical line, before the continuation test" if ok else "the last character of a physical line is compared with the continuation character without a carriage return having been looked for first: in text with DOS line ends the last character is '\\r', the continuation is not seen and a value that spans several lines is cut after the first")
            n += 1
    return n


def run(ctx):
    ctx.explanation = (
        "Decides: (a) every key type registrable through the add_key/add_vectorised_key API has a case in parse_value_in_line, in the "
        "scalar resp. vectorised switch of set_variable and in value_to_stream / vectorised_value_to_stream (a registered key can be "
        "parsed, stored and printed back - necessary for parameter_info o parse to be a fixed point); (b) vectorised values are "
        "stored at index-1 only under a dominating size test with error() exit (negative indices are caught by the unsigned "
        "comparison), and index presence must match the registration; (c) the Interfile per-data-set vectors are sized with "
        "get_num_datasets(), the bound of the loops that index them; (d) header parse results and post_processing() results are "
        "tested on the reader chain; (e) keywords are standardised before being stored or compared and alias resolution follows "
        "standardisation and precedes the look-up. NOT decided: absence of out-of-bounds access under arbitrary bytes for the whole "
        "parser, unbounded allocation, value formatting round trips."
    )
    reqs = requests()
    ctx.ex.prefetch(reqs)
    us = [ctx.ex.get(r) for r in reqs]
    if any(u is None for u in us):
        return
    kfns = uniq(us[0].functions)
    if not us[0].enums:
        ctx.fail_broken("enum stir::KeyArgument::type not found")
        return
    rule_a(ctx, kfns, us[0].enums[0])
    rule_b(ctx, kfns)
    hf = uniq(us[1].functions)
    rule_c(ctx, hf)
    rule_d(ctx, uniq(us[2].functions), kfns)
    rule_e(ctx, kfns)
    rule_f_lists_length_checked(ctx, hf)
    ctx.require_count("C17.f-lists-length-checked", 3)
    hall = uniq([f for u in (us[1], us[3], us[4]) for f in u.functions])
    recs = [r for u in (us[3], us[4]) for r in u.records]
    rule_g_element_keys_survive_resizes(ctx, hall, recs)
    ctx.require_count("C17.g-element-keys-survive-resizes", 4)
    rule_h_bounded_string_copies(ctx, uniq(us[5].functions))
    ctx.require_count("C17.h-bounded-string-copies", 1)
    rule_j_index_parsed_strictly(ctx, uniq(us[6].functions) if len(us) > 6 and us[6] is not None else kfns)
    rule_k_unknown_lines_never_abort(ctx, uniq(us[6].functions) if len(us) > 6 and us[6] is not None else kfns)
    lu = ctx.ex.get(Request("src/buildblock/KeyParser.cxx", fn=["stir::read_line"], files=["/repo/src/buildblock/KeyParser\\.cxx"]))
    if lu is not None:
        rule_l_carriage_return_removed_before_continuation_test(ctx, uniq(lu.functions))
        ctx.require_count("C17.l-carriage-return-removed-before-the-continuation-test", 1)
    ctx.require_count("C17.k-lines-with-unknown-keywords-never-abort", 1)
    ctx.require_count("C17.j-index-parsed-strictly", 1)
    mu = ctx.ex.get(Request("src/buildblock/MultipleDataSetHeader.cxx", fn=["stir::MultipleDataSetHeader::.*"], files=["/repo/src/buildblock/MultipleDataSetHeader\\.cxx"]))
    rule_i_counts_validated(ctx, hall + (uniq(mu.functions) if mu is not None else []))
    ctx.require_count("C17.i-counts-validated-before-resize", 9)
    ctx.require_count("C17.a-registrable-types-handled", 5)
    ctx.require_count("C17.b-vectorised-index-validated", 2)
    ctx.require_count("C17.c-per-dataset-vectors", 3)
    ctx.require_count("C17.d-failures-propagate", 3)
    ctx.require_count("C17.e-keyword-normalisation", 5)
