"""C10 - image files round-trip.  Decided clauses:

 a  RF10 every key the Interfile image header writer emits is registered (or explicitly ignored) by the header reader,
         with the same vectorisation, after the repo's own keyword normalisation (mirrored here and tied to the source)
 b  RF2/RF3 a short data file is an error: read_data_1d tests the stream after the raw read and returns Succeeded::no;
         the image readers test read_data's result and return null
 c  RF9  the number-type switches of read_data and write_data handle the same enumerators: every NumericType except BIT and
         UNKNOWN_TYPE
 d  RF11 first-pixel offset <-> origin are inverse affine maps: writer offset = voxel_size*min_index + origin, reader
         origin = offset - voxel_size*min_index'
 e       the scale factor for scaled-integer output pairs each data extreme with the output type's limit of the same sign
         and keeps a safety factor > 1
"""
import re

import sympy

from engine.algebra import Algebra, LocalDefs
from engine.cfg import CFG
from engine.extract import Request
from engine.canon import decl_of, roles_for
from engine.tree import key

IF = "src/IO/interfile.cxx"
IH = "src/IO/InterfileHeader.cxx"
KW = "src/buildblock/interfile_keyword_functions.cxx"
AR = "src/buildblock/Array.cxx"


def requests():
    return [
        Request(IF, fn=["stir::write_basic_interfile_image_header", "stir::write_interfile_.*", "stir::interfile_create_filenames", "stir::read_interfile_.*image.*", "stir::create_image_and_header_from"], files=["/repo/src/IO/interfile.cxx"]),
        Request(IH, fn=["stir::InterfileHeader::.*", "stir::MinimalInterfileHeader::.*", "stir::InterfileImageHeader::.*"], files=["/repo/src/IO/InterfileHeader.cxx"]),
        Request(KW, fn=["stir::standardise_interfile_keyword"]),
        Request(IF, fn=["stir::read_data", "stir::write_data", "stir::detail::read_data_1d", "stir::find_scale_factor", "stir::convert_range"], enum=["stir::NumericType::Type"], files=["/repo/src/include/stir/IO/.*", "/repo/src/include/stir/convert_range.inl"]),
        Request(IF, fn=["stir::(PatientPosition|ImagingModality|TimeFrameDefinitions|ExamInfo|Radionuclide)::.*"], files=["/repo/src/include/stir/.*"]),
        Request("src/buildblock/PatientPosition.cxx", fn=["stir::PatientPosition::.*"]),
        Request("src/buildblock/ExamInfo.cxx", fn=["stir::ExamInfo::.*"]),
        Request(IF, fn=["stir::write_basic_interfile_.*header", "stir::write_interfile_.*"], files=["/repo/src/IO/interfile.cxx"]),
        Request(IF, fn=["stir::write_basic_interfile"], files=["/repo/src/IO/interfile.cxx"]),
    ]


def standardise(kw):
    """Python mirror of stir::standardise_interfile_keyword (tied to the source by rule_a's check of its body)"""
    ws = " \t_!"
    s = kw.strip(ws)
    out = []
    prev = False
    for ch in s:
        if ch.isspace() or ch in "_!":
            if not prev:
                out.append(" ")
                prev = True
        else:
            out.append(ch.lower())
            prev = False
    return "".join(out)


def rule_a(ctx, wfns, hfns, kwfn, rule="C10.a-header-keys-agree", writers=("write_basic_interfile_image_header", "write_interfile_")):
    # tie the mirror to the source: the white-space set literal and the tolower call
    ok_mirror = False
    if kwfn:
        lits = [m.get("v") for m in kwfn[0].walk() if m.k == "StringLiteral"]
        lower = any(c.is_call() and (c.callee or "").split("::")[-1] == "tolower" for c in kwfn[0].walk())
        chars = sorted(m.get("v") for m in kwfn[0].walk() if m.k == "CharacterLiteral")
        ok_mirror = " \t_!" in lits and lower and chars.count(ord("_")) >= 1 and chars.count(ord("!")) >= 1
    ctx.ob(rule, "stir::standardise_interfile_keyword", "mirror-matches-source", ok_mirror, kwfn[0].where() if kwfn else "", "normalisation = trim/collapse {space,tab,_,!} and tolower, as mirrored by the checker" if ok_mirror else "standardise_interfile_keyword no longer matches the checker's mirror")
    if not ok_mirror:
        return
    # registered keys
    reg = {}
    ignored = set()
    cond_reg = {}  # key -> set of `type of data` values under which it is registered (None = unconditionally)
    for f in hfns:
        for c in f.calls():
            short = (c.callee or "").split("::")[-1]
            if short in ("add_key", "add_vectorised_key", "add_parsing_key", "add_start_key", "add_stop_key", "ignore_key", "add_alias_key"):
                args = c.call_args()
                if args and args[0].strip().k in ("StringLiteral", "CXXConstructExpr"):
                    lit = [m.get("v") for m in args[0].walk() if m.k == "StringLiteral"]
                    if lit:
                        k = standardise(lit[0])
                        if short in ("add_key", "add_vectorised_key", "ignore_key"):
                            guard = None
                            for a in c.ancestors():
                                if a.k == "IfStmt" and a.c and any(x is c for x in a.c[1].walk()):
                                    gl = [m.get("v") for m in a.c[0].walk() if m.k == "StringLiteral"]
                                    if gl and "type_of_data" in key(a.c[0], True):
                                        guard = gl[0]
                            cond_reg.setdefault(k, set()).add(guard)
                        if short == "ignore_key":
                            ignored.add(k)
                        else:
                            vect = short == "add_vectorised_key" or any(a.strip().k == "DeclRefExpr" and "vector<" in a.strip().type and "vector<std::vector" not in a.strip().type and short == "add_vectorised_key" for a in args)
                            reg.setdefault(k, set()).add(bool(vect))
                        if short == "add_alias_key" and len(args) > 1:
                            l2 = [m.get("v") for m in args[1].walk() if m.k == "StringLiteral"]
                            if l2:
                                reg.setdefault(standardise(l2[0]), set()).add(False)
    ctx.stats["reader_keys"] = len(reg)
    if len(reg) < 30:
        ctx.fail_broken("only %d keys registered by the Interfile header classes were recognised" % len(reg))
        return
    # written keys
    n = 0
    seen = set()
    for f in wfns:
        if not f.short.startswith(tuple(writers)):
            continue
        # the header proper is written to the first stream declared in the function; later streams (the Analyze-style
        # .ahv copy) are not read back by STIR
        streams = sorted((x.line, x.get("d")) for x in f.walk() if x.k == "VarDecl" and "ofstream" in (x.get("t") or ""))
        main_stream = streams[0][1] if streams else None
        for m in f.walk():
            if m.k != "StringLiteral":
                continue
            if main_stream is not None:
                top = m
                for a in m.ancestors():
                    if a.k == "CXXOperatorCallExpr" and a.op == "<<":
                        top = a
                    else:
                        break
                roots_ = [x.get("d") for x in top.walk() if x.k == "DeclRefExpr" and "ofstream" in x.type]
                if roots_ and roots_[0] != main_stream:
                    continue
            v = m.get("v") or ""
            # a key is what precedes ':=' ; vectorised keys are written as  "key [n] :="  or  "key" << "[" << i << "] := "
            for piece in v.split("\n"):
                mm = re.match(r"\s*([^:=\[\]]+?)\s*(\[[^\]]*\])?\s*:=", piece)
                keytxt = None
                vect = False
                if mm:
                    keytxt, vect = mm.group(1), bool(mm.group(2))
                elif re.fullmatch(r"[A-Za-z!][A-Za-z0-9 ()/_!]*\[?", piece.strip()) and len(piece.strip()) > 3:
                    # a bare key fragment streamed before "[" << i << "] := "   (or  "key[" << i << "] := ")
                    nxt = _next_string_in_stream(m)
                    if nxt is not None and nxt.startswith("]" if piece.strip().endswith("[") else "["):
                        keytxt, vect = piece.strip().rstrip("["), True
                if keytxt is None:
                    continue
                k = standardise(keytxt)
                if not k or (k, vect) in seen:
                    continue
                seen.add((k, vect))
                if k in ignored:
                    ok, det = True, "explicitly ignored by the reader"
                elif k in reg:
                    modes = reg[k] or {False}
                    ok = bool(vect) in modes
                    det = "registered by the reader (%s)" % "/".join("vectorised" if x else "scalar" for x in sorted(modes))
                    if not ok:
                        det = "written %s but registered %s" % ("vectorised" if vect else "scalar", "/".join("vectorised" if x else "scalar" for x in sorted(modes)))
                else:
                    ok, det = False, "the writer emits this key but no Interfile header class registers or ignores it: it is lost (or rejected) on reading"
                # a key the reader registers only for one `type of data` must be written only for that modality
                only_for = cond_reg.get(k)
                all_types = {g for gs in cond_reg.values() for g in gs if g is not None}
                if ok and only_for and None not in only_for and not only_for >= all_types:
                    modality_guard = any(a.k == "IfStmt" and a.c and re.search(r"is_spect|imaging_modality|get_modality", key(a.c[0], True)) for a in m.ancestors())
                    if not modality_guard:
                        ok = False
                        det = "the reader registers this key only when `type of data` is %s, but the writer emits it for every modality: for other data the key is unknown to the reader and ignored" % " / ".join(sorted(only_for))
                ctx.ob(rule, f.qn, "key:" + k + ("[]" if vect else ""), ok, "%s:%d" % (f.file, m.line), det)
                n += 1
    return n


def _next_string_in_stream(m):
    # in  os << "key" << "[" << i ...  the next string literal of the same << chain
    top = m
    for a in m.ancestors():
        if a.k == "CXXOperatorCallExpr" and a.op == "<<":
            top = a
        else:
            break
    lits = [x for x in top.walk() if x.k == "StringLiteral"]
    for i, x in enumerate(lits):
        if x is m and i + 1 < len(lits):
            return lits[i + 1].get("v") or ""
    return None


def rule_b(ctx, ifns, iofns):
    r1 = [f for f in iofns if f.short == "read_data_1d" and f.cfg_raw and "istream" in f.sig and not f.is_dependent] or [f for f in iofns if f.short == "read_data_1d" and f.cfg_raw and "istream" in f.sig]
    if r1:
        f = r1[0]
        cfg = CFG(f)
        reads = [c for c in f.calls() if (c.callee or "").endswith("::read") and "istream" in (c.callee or "")] or [c for c in f.walk() if c.k in ("CXXMemberCallExpr", "CallExpr") and "read" == key(c, True).split("(")[0].split(".")[-1]]
        yes = [r for r in cfg.return_nodes() if r.c and "Succeeded::yes" in key(r.c[0], True)]
        ok = False
        det = "no raw read found"
        if reads and yes:
            # every path from the read to `return yes` passes a test of the stream state
            def stream_test(x):
                sk = "v%d" % f.params[0]["d"]  # the stream is the first parameter
                return x.k in ("CXXOperatorCallExpr", "UnaryOperator") and x.op == "!" and key(x.c[0].strip()) in (sk, "*" + sk)

            p = cfg.pos.get(reads[0].i)
            w = cfg.paths_avoiding([p], stream_test, target_pred=lambda x: x.i in {y.i for y in yes}, to_exit=False) if p else [0]
            ok = w is None
            det = "after s.read(...) the stream state is tested on every path to `return Succeeded::yes`"
        ctx.ob("C10.b-short-file-is-error", f.qnt[:80], "stream-tested-after-read", ok, f.where(), det if ok else "a path returns Succeeded::yes without testing the stream after the raw read")
    else:
        ctx.fail_broken("anchor detail::read_data_1d(std::istream&, ...) not found")
    for f in ifns:
        if f.short.startswith("read_interfile_") and "image" in f.short and f.cfg_raw:
            cfg = CFG(f)
            rds = [c for c in f.calls() if c.callee == "stir::read_data"]
            for i, c in enumerate(rds):
                p = c.parent
                tested = p is not None and p.k in ("CXXOperatorCallExpr", "BinaryOperator") and p.op in ("==", "!=")
                # on the failing branch the function returns null / errors
                ctx.ob("C10.b-short-file-is-error", f.qn + "(" + f.sig[:30] + ")", "read_data-result@%d" % i, tested, c.where(), "result compared with Succeeded::no" if tested else "read_data result dropped: a short file would be returned as an image")


def rule_c(ctx, iofns, enums):
    en = [e for e in enums if e["qn"].endswith("NumericType::Type")]
    if not en:
        ctx.fail_broken("enum NumericType::Type not found")
        return
    names = {e["v"]: e["n"] for e in en[0]["enumerators"]}
    sets = {}
    for nm in ("read_data", "write_data"):
        cands = [f for f in iofns if f.short == nm and f.body is not None and "NumericType" in f.sig]
        for f in cands:
            sw = [m for m in f.walk() if m.k == "SwitchStmt"]
            if sw:
                vals = {m.get("cv") for m in sw[0].walk() if m.k == "CaseStmt" and "cv" in m.d}
                sets[nm] = (vals, f)
                break
    for nm in ("read_data", "write_data"):
        if nm not in sets:
            ctx.fail_broken("no switch over NumericType in %s" % nm)
            return
    want = {v for v, n in names.items() if n not in ("BIT", "UNKNOWN_TYPE")}
    for nm, (vals, f) in sets.items():
        missing = sorted(names[v] for v in want - vals)
        ctx.ob("C10.c-number-types-exhaustive", "stir::" + nm, "switch", not missing, f.where(), "cases for all %d storable number types" % len(want) if not missing else "no case for %s" % missing)
    a, b = sets["read_data"][0], sets["write_data"][0]
    ctx.ob("C10.c-number-types-exhaustive", "stir::read_data<->stir::write_data", "agree", a == b, sets["read_data"][1].where(), "reader and writer handle the same number types" if a == b else "reader and writer differ on %s" % sorted(names[v] for v in a ^ b))


def rule_d(ctx, ifns):
    w = [f for f in ifns if f.short == "write_basic_interfile_image_header" and f.body is not None]
    r = [f for f in ifns if f.short == "create_image_and_header_from" and f.body is not None]
    if not w or not r:
        ctx.fail_broken("anchors write_basic_interfile_image_header / create_image_and_header_from not found")
        return
    # ---- writer: roles from the signature (voxel_size, origin: the two CartesianCoordinate3D<float> parameters in this order) and
    # from the code (min_indices: what get_regular_range fills in first)
    wf = w[0]
    cps = [p for p in wf.params if "CartesianCoordinate3D<float>" in p["t"]]
    grr = [c for c in wf.calls() if (c.callee or "").endswith("::get_regular_range")]
    ok_w = False
    det = "cannot identify voxel_size/origin parameters and the min_indices filled by get_regular_range"
    if len(cps) == 2 and grr and decl_of(grr[0].call_args()[0]) is not None:
        wdefs = LocalDefs(wf)
        anchors = {cps[0]["d"]: "$voxel_size", cps[1]["d"]: "$origin", decl_of(grr[0].call_args()[0]): "$min_indices"}
        wroles = roles_for(wf, anchors, wdefs)
        wsub = {d: (None if d in anchors else wdefs.single_def(d)) for d in wdefs.decl}
        # what is streamed after "first pixel offset (mm) [k] :=" for k = 1,2,3
        streamed = {}
        for m in wf.walk():
            if m.k == "StringLiteral":
                mm = re.search(r"first pixel offset \(mm\) \[(\d)\]", m.get("v") or "")
                if mm:
                    top = m
                    for a in m.ancestors():
                        if a.k == "CXXOperatorCallExpr" and a.op == "<<":
                            top = a
                        else:
                            break
                    vals = [x for x in top.walk() if x.k == "CXXMemberCallExpr" and (x.callee or "").split("::")[-1] in ("x", "y", "z")]
                    if vals:
                        streamed[int(mm.group(1))] = ((vals[0].callee or "").split("::")[-1], key(vals[0].c[0], wroles, wsub))
        axes = [streamed.get(i, ("?", "?"))[0] for i in (1, 2, 3)]
        objs = {streamed.get(i, ("?", "?"))[1] for i in (1, 2, 3)}
        k = objs.pop() if len(objs) == 1 else "?"
        k = k.replace("stir::CartesianCoordinate3D::CartesianCoordinate3D", "").replace("stir::BasicCoordinate::BasicCoordinate", "")
        ok_w = axes == ["x", "y", "z"] and re.sub(r"[()]", "", k) in ("+ * $voxel_size $min_indices $origin", "+ $origin * $voxel_size $min_indices", "+ * $min_indices $voxel_size $origin", "+ $origin * $min_indices $voxel_size")
        det = "first pixel offset [1],[2],[3] = (%s) of %s" % (",".join(axes), k)
    ctx.ob("C10.d-offset-origin-inverse", w[0].qn, "offset=voxel_size*min_index+origin", ok_w, w[0].where(), det)
    # ---- reader: roles from the image it constructs: VoxelsOnCartesianGrid(exam_info, IndexRange<3>(min_indices, max), origin, voxel_size)
    rf = r[0]
    ctor = [c for c in rf.walk() if c.k in ("CXXConstructExpr", "CXXTemporaryObjectExpr", "CXXNewExpr") and "VoxelsOnCartesianGrid" in (c.callee or "") and len(c.call_args()) == 4]
    ok_r = ok_v = False
    det = detv = "cannot identify origin/voxel_size/min_indices from the VoxelsOnCartesianGrid constructed"
    if ctor:
        args = ctor[0].call_args()
        od, vd_ = decl_of(args[2]), decl_of(args[3])
        ir = [c for c in args[1].walk() if c.is_call() and "IndexRange" in (c.callee or "") and len(c.call_args()) == 2]
        md = decl_of(ir[0].call_args()[0]) if ir else None
        hp = [p for p in rf.params if "Header" in p["t"]]
        if None not in (od, vd_, md) and hp:
            rdefs = LocalDefs(rf)
            anchors = {od: "$origin", vd_: "$voxel_size", md: "$min_indices", hp[0]["d"]: "$hdr"}
            rroles = roles_for(rf, anchors, rdefs)
            rsub = {d: (None if d in anchors else rdefs.single_def(d)) for d in rdefs.decl}
            ra = [m for m in rf.walk() if m.k in ("BinaryOperator", "CXXOperatorCallExpr") and m.op == "=" and key(m.c[0], rroles) == "$origin"]
            det = "no origin assignment"
            if ra:
                k = key(ra[0].c[1].strip(), rroles, rsub)
                ok_r = re.fullmatch(r"\(- stir::make_coordinate\(\$hdr\.first_pixel_offsets\[2\],\$hdr\.first_pixel_offsets\[1\],\$hdr\.first_pixel_offsets\[0\]\) \(\* \$voxel_size stir::BasicCoordinate::BasicCoordinate\(\$min_indices\)\)\)", k) is not None
                det = "origin = " + k[:200]
            # the voxel size the reader uses is the written scaling factor, axis by axis (x=[1] -> pixel_sizes[0], ...)
            vs = rdefs.decl.get(vd_)
            ok_v = vs is not None and bool(vs.c) and re.search(r"\$hdr\.pixel_sizes\[2\].*\$hdr\.pixel_sizes\[1\].*\$hdr\.pixel_sizes\[0\]", key(vs.c[0], rroles, rsub)) is not None and not rdefs.writes.get("v%d" % vd_)
            detv = "voxel_size = (z,y,x) = pixel_sizes[2],[1],[0], the order the offsets are read in" if ok_v else "voxel size axes do not match the offset axes"
    ctx.ob("C10.d-offset-origin-inverse", r[0].qn, "origin=offset-voxel_size*min_index", ok_r, r[0].where(), det)
    ctx.ob("C10.d-offset-origin-inverse", r[0].qn, "voxel-size-axes", ok_v, r[0].where(), detv)


def rule_e(ctx, iofns):
    fs = [f for f in iofns if f.short == "find_scale_factor" and f.body is not None]
    if not fs:
        ctx.fail_broken("anchor find_scale_factor not found")
        return
    f = ([x for x in fs if not x.is_dependent] or fs)[0]
    defs = LocalDefs(f)
    sub = defs.binding_map()
    quots = []
    for m in f.walk():
        if m.k == "BinaryOperator" and m.op == "/":
            num, den = key(m.c[0].strip(), False, sub), key(m.c[1].strip(), False, sub)
            if "value()" in den or "max_value" in den or "min_value" in den:
                quots.append((num, den, m))
    ok = True
    det = []
    kinds = set()
    for num, den, m in quots:
        is_max = "max_element" in num or ".second" in num
        is_min = "min_element" in num and "minmax" not in num or ".first" in num
        if "minmax_element" in num:
            is_max = ".second" in num
            is_min = ".first" in num
        dmax, dmin = "max_value()" in den, "min_value()" in den
        if is_max and dmax:
            kinds.add("max")
        elif is_min and dmin:
            kinds.add("min")
        else:
            ok = False
            det.append("ratio %s / %s pairs a data extreme with the output limit of the other sign" % (num[-40:], den[-30:]))
    ok = ok and kinds == {"max", "min"}
    ctx.ob("C10.e-scale-factor-no-overflow", f.qn, "extremes-paired-with-limits", ok, f.where(), "scale >= data_max/out_max and >= data_min/out_min (both tested)" if ok else ("; ".join(det) or "both ratios (max/max_value, min/min_value) are not present: %s" % sorted(kinds)))
    saf = [m for m in f.walk() if m.k == "CompoundAssignOperator" and m.op == "*=" and m.c[1].strip().k == "FloatingLiteral"]
    ok2 = bool(saf) and all(m.c[1].strip().get("v", 0) > 1 for m in saf)
    ctx.ob("C10.e-scale-factor-no-overflow", f.qn, "safety-factor", ok2, f.where(), "the scale is enlarged by a factor > 1 against rounding" if ok2 else "no safety factor > 1 on the scale")


def rule_f_independent_keys(ctx, wfns, accfns):
    """Exam information that is stored under separate keys is written key by key: the condition under which a (non-vectorised) key is
    emitted may depend on the value written under that key, but not on what is stored under ANOTHER key.  Otherwise a known value is
    dropped from the header because a different one is unknown (e.g. a known patient orientation with an unknown rotation).  Field
    dependences of accessors are taken from their bodies (one class level); control dependence of the streamed locals is included."""
    from engine.cfg import CFG as _CFG

    bodies = {}
    for f in accfns:
        if f.body is not None:
            bodies.setdefault(f.qn, f)

    def acc_fields(qn, depth=0):
        f = bodies.get(qn)
        if f is None or depth > 3:
            return {qn + "()"}
        out = set()
        for m in f.walk():
            if m.k == "MemberExpr" and m.get("mk") == "field" and m.c and m.c[0].k == "CXXThisExpr":
                out.add("%s.%s" % (f.cls, m.get("n")))
            elif m.k == "CXXMemberCallExpr" and m.c and m.c[0].k == "CXXThisExpr" and m.callee and m.callee != qn:
                out |= acc_fields(m.callee, depth + 1)
        return out or {qn + "()"}

    n = 0
    for f in wfns:
        ex = [p for p in f.params if "ExamInfo" in p["t"]]
        if not ex or f.body is None or not f.cfg_raw:
            continue
        exk = "v%d" % ex[0]["d"]
        defs = LocalDefs(f)

        def deps(e, seen=None):
            """fields of the exam information an expression depends on (data and control)"""
            seen = seen if seen is not None else set()
            out = set()
            for m in e.walk():
                if m.k == "CXXMemberCallExpr" and m.callee and m.c and exk in key(m.c[0]):
                    out |= acc_fields(m.callee)
                elif m.k == "MemberExpr" and m.get("mk") == "field" and m.c and key(m.c[0]) == exk and not (m.parent is not None and m.parent.k in ("MemberExpr", "CXXMemberCallExpr") and m.parent.c and m.parent.c[0] is m):
                    out.add("stir::ExamInfo." + m.get("n"))
                elif m.k == "DeclRefExpr" and m.get("dk") == "local" and m.get("d") not in seen and "stream" not in (m.type or ""):
                    d = m.get("d")
                    seen.add(d)
                    vd = defs.decl.get(d)
                    if vd is not None and vd.c:
                        out |= deps(vd.c[0], seen)
                    for w in defs.writes.get("v%d" % d, []):
                        out |= deps(w, seen)
                        for a in w.ancestors():
                            if a.k in ("IfStmt", "SwitchStmt") and a.c:
                                out |= deps(a.c[0], seen)
            return out

        cfg = _CFG(f)
        emissions = []
        for m in f.walk():
            if m.k != "StringLiteral" or " := " not in (m.get("v") or "") + " ":
                continue
            txt = m.get("v") or ""
            if not txt.rstrip().endswith(":="):
                continue
            top = m
            for a in m.ancestors():
                if a.k == "CXXOperatorCallExpr" and a.op == "<<":
                    top = a
                else:
                    break
            # operands of the chain after this literal
            ops = []
            node = top
            while node.k == "CXXOperatorCallExpr" and node.op == "<<" and len(node.c) == 2:
                ops.insert(0, node.c[1])
                node = node.c[0].strip()
            after = False
            vals = []
            for o in ops:
                if o.strip() is m or any(x is m for x in o.walk()):
                    after = True
                    continue
                if after:
                    if o.strip().k == "StringLiteral" and " := " in (o.strip().get("v") or "") + " ":
                        break
                    vals.append(o)
            emissions.append((txt.strip(), top, vals))
        keyfields = {}
        for txt, top, vals in emissions:
            vf = set()
            for v in vals:
                vf |= deps(v)
            keyfields[txt] = vf
        for txt, top, vals in emissions:
            if "[" in txt or txt.startswith("]") or not keyfields[txt]:
                continue  # vectorised keys form one record; keys without a value from the exam information
            guards = [a.c[0] for a in top.ancestors() if a.k == "IfStmt" and a.c]
            # early returns that dominate the emission
            for g in f.walk():
                if g.k == "IfStmt" and len(g.c) == 2 and any(x.k == "ReturnStmt" for x in g.c[1].walk()) and g.c[0].i in cfg.pos and top.i in cfg.pos and cfg.dominates(g.c[0].strip(), top):
                    guards.append(g.c[0])
            gf = set()
            for g in guards:
                gf |= deps(g)
            foreign = set()
            for other, of in keyfields.items():
                if other != txt:
                    foreign |= (gf & of) - keyfields[txt]
            ctx.ob("C10.f-independent-keys", f.qn, "key:" + standardise(txt.rstrip(":= ")), not foreign, top.where(), "emitted under conditions on its own value only (%s)" % sorted(x.split("::")[-1] for x in gf) if not foreign else "key `%s` is only written when %s - the value of another key - passes a test: a known value is dropped from the header" % (txt, sorted(x.split("::")[-1] for x in foreign)))
            n += 1
    return n


G_EXEMPT = {
    "quantification units": "redundant analogue of `image scaling factor` for another reader: STIR's reader consults it only when every "
    "image scaling factor it read is 1, and the writer always writes the scaling factors it differs from",
}


def _const_of(n):
    """a literal or a named class constant, as a comparable value (None when n is neither)"""
    n = n.strip()
    while n.k in ("CXXFunctionalCastExpr", "CStyleCastExpr", "CXXStaticCastExpr", "UnaryOperator") and n.c and (n.k != "UnaryOperator" or n.op in ("+",)):
        n = n.c[0].strip()
    if n.k in ("IntegerLiteral", "FloatingLiteral"):
        return float(n.get("v"))
    if n.k == "CXXBoolLiteralExpr":
        return float(bool(n.get("v")))
    if n.k == "StringLiteral":
        return "str:" + (n.get("v") or "")
    if n.k in ("DeclRefExpr", "MemberExpr") and (n.get("dk") in ("staticmember", "global") or n.get("mk") == "staticmember"):
        return "const:" + (n.get("qn") or "").split("::")[-1]
    return None


def _field_root(n):
    """the field of `this` an lvalue expression is rooted in: F, F[i], F.begin(), this->F ..."""
    n = n.strip()
    while True:
        if n.k == "MemberExpr" and n.get("mk") == "field" and n.c and n.c[0].strip().k == "CXXThisExpr":
            return n.get("n")
        if n.k in ("CXXOperatorCallExpr", "ArraySubscriptExpr") and (n.k == "ArraySubscriptExpr" or n.op == "[]") and n.c:
            n = n.c[0].strip()
        elif n.k == "CXXMemberCallExpr" and n.c:
            n = n.c[0].strip()
        elif n.k == "MemberExpr" and n.c:
            n = n.c[0].strip()
        else:
            return None


def reader_defaults(hfns):
    """standardised key -> set of values the reader classes give the key's storage before parsing (what a MISSING key means)"""
    field_of = {}
    for f in hfns:
        for c in f.calls():
            short = (c.callee or "").split("::")[-1]
            if short not in ("add_key", "add_vectorised_key"):
                continue
            args = c.call_args()
            lit = [m.get("v") for m in args[0].walk() if m.k == "StringLiteral"] if args else []
            if not lit:
                continue
            for a in args[1:]:
                a = a.strip()
                if a.k == "UnaryOperator" and a.op == "&":
                    fr = _field_root(a.c[0])
                    if fr:
                        field_of.setdefault(standardise(lit[0]), set()).add(fr)
    defaults = {}
    for f in hfns:
        for m in f.walk():
            fld, val = None, None
            if m.k == "CXXMemberCallExpr" and (m.callee or "").endswith("::resize") and len(m.call_args()) == 2:
                fld, val = _field_root(m.c[0]), _const_of(m.call_args()[1])
            elif m.is_call() and (m.callee or "") == "std::fill" and len(m.call_args()) == 3:
                fld, val = _field_root(m.call_args()[0]), _const_of(m.call_args()[2])
            elif m.k == "BinaryOperator" and m.op == "=" and len(m.c) == 2:
                fld, val = _field_root(m.c[0]), _const_of(m.c[1])
            if fld and val is not None:
                defaults.setdefault(fld, set()).add(val)
    out = {}
    for k, flds in field_of.items():
        vals = set()
        for fl_ in flds:
            vals |= defaults.get(fl_, set())
        out[k] = vals
    return out


def rule_g_omitted_only_at_reader_default(ctx, wfns, hfns):
    """A key whose value comes from the image itself (geometry, scale factors, offsets - not the exam information) may be left out of the
    header only when its value is what the reader assumes for a missing key.  Every condition around such an emission must therefore
    hold whenever `value != reader default`: each conjunct is a disjunction with a disjunct `X != D` (or bare `X` for D = 0), X taken
    from the data the value is computed from and D the default the reader classes give the key's storage."""
    rd = reader_defaults(hfns)
    n = 0
    for f in wfns:
        if f.short != "write_basic_interfile_image_header" or f.body is None:
            continue
        defs = LocalDefs(f)
        exparams = {p["d"] for p in f.params if "ExamInfo" in p["t"]}

        def roots(e, seen=None):
            seen = seen if seen is not None else set()
            out = set()
            for m in e.walk():
                if m.k != "DeclRefExpr" or m.get("d") is None or "stream" in (m.type or ""):
                    continue
                d = m.get("d")
                if m.get("dk") == "param":
                    out.add(d)
                elif m.get("dk") == "local" and d not in seen:
                    seen.add(d)
                    vd = defs.decl.get(d)
                    if vd is not None and vd.c:
                        out |= roots(vd.c[0], seen)
                    for w in defs.writes.get("v%d" % d, []):
                        out |= roots(w, seen)
            return out

        for m in f.walk():
            if m.k != "StringLiteral":
                continue
            txt = m.get("v") or ""
            vect = False
            mm = re.match(r"\s*([^:=\[\]]+?)\s*(\[[^\]]*\])?\s*:=\s*$", txt)
            if mm:
                keytxt, vect = mm.group(1), bool(mm.group(2))
            elif re.fullmatch(r"[A-Za-z!][A-Za-z0-9 ()/_!]*\[?", txt.strip()) and len(txt.strip()) > 3 and (_next_string_in_stream(m) or "").startswith("]" if txt.strip().endswith("[") else "["):
                keytxt, vect = txt.strip().rstrip("["), True
            else:
                continue
            top = m
            for a in m.ancestors():
                if a.k == "CXXOperatorCallExpr" and a.op == "<<":
                    top = a
                else:
                    break
            ops = []
            node = top
            while node.k == "CXXOperatorCallExpr" and node.op == "<<" and len(node.c) == 2:
                ops.insert(0, node.c[1])
                node = node.c[0].strip()
            after, vals = False, []
            for o in ops:
                if any(x is m for x in o.walk()):
                    after = True
                    continue
                if after and o.strip().k not in ("StringLiteral", "CharacterLiteral"):
                    # the index of a vectorised key is not its value
                    if vect and not vals and o.strip().k == "DeclRefExpr" and "int" in (o.strip().type or "") and (_next_string_in_stream(m) or "").startswith(("[", "]")):
                        vect = "indexed"
                        continue
                    vals.append(o)
                    break
            if not vals:
                continue
            vroots = roots(vals[0])
            if not vroots or vroots & exparams:
                continue  # constant, or exam information (clause f)
            conds = []
            node = top
            for a in top.ancestors():
                if a.k == "IfStmt" and a.c:
                    in_else = len(a.c) > 2 and any(x is node for x in a.c[2].walk()) if False else (len(a.c) > 2 and _contains(a.c[2], top))
                    conds.append((a.c[0].strip(), in_else))
            if not conds:
                continue
            k = standardise(keytxt)
            if k in G_EXEMPT:
                ctx.stats.setdefault("g_exempt", []).append(k)
                continue
            dflt = rd.get(k)
            if not dflt:
                ctx.unrec(f.qn, "key `%s` is written conditionally but no default of its storage in the reader classes was recognised" % k)
                continue

            def implied(c, neg=False):
                """does c (neg: its negation) hold whenever value != default ?"""
                c = c.strip()
                if c.k == "UnaryOperator" and c.op == "!" and c.c:
                    return implied(c.c[0], not neg)
                if c.k == "CXXOperatorCallExpr" and c.op == "!" and c.c:
                    return implied(c.c[-1], not neg)
                if c.k == "BinaryOperator" and c.op in ("&&", "||"):
                    conj = (c.op == "&&") != neg
                    a, b = implied(c.c[0], neg), implied(c.c[1], neg)
                    return (a and b) if conj else (a or b)
                if c.k == "DeclRefExpr" and c.get("dk") == "local":
                    vd = defs.decl.get(c.get("d"))
                    if vd is not None and vd.c and not defs.writes.get("v%d" % c.get("d")):
                        return implied(vd.c[0], neg)
                    return False
                x, d = None, None
                ne, eq = ("!=", "==") if not neg else ("==", "!=")
                if c.k in ("BinaryOperator", "CXXOperatorCallExpr") and c.op == ne and len(c.c) >= 2:
                    a, b = c.c[-2], c.c[-1]
                    if _const_of(b) is not None:
                        x, d = a, _const_of(b)
                    elif _const_of(a) is not None:
                        x, d = b, _const_of(a)
                elif not neg and c.k == "BinaryOperator" and c.op == ">" and _const_of(c.c[1]) == 0.0 and "unsigned" in (c.c[0].strip().type or ""):
                    x, d = c.c[0], 0.0
                elif not neg and _const_of(c) is None and not (c.k in ("BinaryOperator", "UnaryOperator") or (c.k == "CXXOperatorCallExpr" and c.op in ("==", "!=", "<", ">", "<=", ">=", "!", "&&", "||"))):
                    x, d = c, 0.0  # truth value of X
                if x is None:
                    return False
                return dflt == {d} and bool(roots(x) & vroots)

            if len(dflt) != 1:
                ctx.ob("C10.g-omitted-only-at-reader-default", f.qn, "key:" + k + ("[]" if vect else ""), False, top.where(), "the reader classes give the storage of key `%s` different defaults (%s): what a missing key means depends on the path through the reader" % (k, ", ".join(str(x) for x in sorted(dflt, key=str))))
                n += 1
                continue
            bad = [(c, e) for c, e in conds if not implied(c, e)]
            ok = not bad
            ctx.ob(
                "C10.g-omitted-only-at-reader-default",
                f.qn,
                "key:" + k + ("[]" if vect else ""),
                ok,
                top.where(),
                "left out only when its value is the reader's default for a missing key (%s)" % ", ".join(str(x) for x in sorted(dflt, key=str))
                if ok
                else "key `%s` is also left out when `%s` fails, but a reader that does not find the key assumes %s - not that value: the image read back differs from the one written" % (k, key(bad[0][0], True)[:160], ", ".join(str(x) for x in sorted(dflt, key=str))),
            )
            n += 1
    return n


def _contains(tree, node):
    return any(x is node for x in tree.walk())


STICKY_CALLS = ("setprecision", "setiosflags", "resetiosflags", "setbase", "setfill")
STICKY_FLAGS = ("fixed", "scientific", "hexfloat", "defaultfloat", "hex", "oct", "dec", "showpoint", "noshowpoint", "showpos", "uppercase", "boolalpha", "left", "right", "internal")
STICKY_MEMBERS = ("precision", "setf", "unsetf", "flags", "fill", "imbue", "copyfmt")


def sticky_format_changes(f):
    """nodes in f that change the persistent formatting state of an output stream"""
    out = []
    for m in f.walk():
        if m.k == "CXXOperatorCallExpr" and m.op == "<<" and len(m.c) >= 2:
            r = m.c[-1].strip()
            if r.is_call() and (r.callee or "").split("::")[-1] in STICKY_CALLS and (r.callee or "").startswith("std::"):
                out.append((m, "std::" + r.callee.split("::")[-1]))
            elif r.k == "DeclRefExpr" and (r.get("qn") or r.get("n") or "").split("::")[-1] in STICKY_FLAGS and "ios_base" in (r.type or ""):
                out.append((m, "std::" + (r.get("qn") or r.get("n")).split("::")[-1]))
        elif m.k == "CXXMemberCallExpr" and (m.callee or "").split("::")[-1] in STICKY_MEMBERS and re.search(r"std::(basic_)?(ios|ostream|ofstream|fstream|ios_base)", m.callee or "") and m.call_args():
            out.append((m, (m.callee or "").split("::")[-1] + "()"))
    return out


def rule_h_header_stream_format_unchanged(ctx, wfns, control_fns, rule="C10.h-header-stream-format-unchanged"):
    """All numbers of a header are written with at least the stream's default formatting (6 significant digits, general notation) - the
    reader and the quantisation clauses above count on that.  A helper that switches the shared header stream to fixed notation or a lower
    precision changes how EVERYTHING written afterwards looks (scale factors of 3e-05 become 0.000).  Hence: a formatting change that can
    LOSE information for later numbers (fixed/hexfloat notation, hex/oct/another base, boolalpha, a precision below 6 or one that is not
    a constant, setf()/flags()/fill()/imbue() with anything) is put back (flags()/precision()/copyfmt() of a saved value) on every path
    to the return.  Changes that only add digits or change nothing a reader notices (precision >= 6 by a constant, scientific,
    defaultfloat, dec, showpoint, showpos, uppercase, adjustment) may stay - leaving them on is behaviour-preserving."""
    from engine.cfg import CFG as _CFG

    n = 0
    seen = set()
    for f in wfns:
        if f.body is None or (f.file, f.line) in seen or not f.short.startswith(("write_basic_interfile", "write_interfile_")):
            continue
        seen.add((f.file, f.line))
        ch = sticky_format_changes(f)
        # changes on a stream that is local to the function and not the header (an ostringstream used to format one value) are harmless
        shared = []
        for m, what in ch:
            root = m
            while root.k == "CXXOperatorCallExpr" and root.op == "<<" and root.c:
                root = root.c[0].strip() if len(root.c) == 2 else root.c[-2].strip()
            if root.k == "CXXMemberCallExpr" and root.c:
                root = root.c[0].strip()
            t = root.type or ""
            if "stringstream" in t:
                continue
            shared.append((m, what))
        ok = True
        det = "no persistent formatting change on the header stream"
        if shared:
            cfg = _CFG(f)
            defs = LocalDefs(f)

            def in_graph(x):
                while x is not None and x.i not in cfg.pos:
                    x = x.parent
                return x

            def saved_by(m):
                """m = s.precision(v) / s.flags(v) / s.copyfmt(v): the member whose earlier result v holds (a restore), else None"""
                a = m.call_args()
                a = a[0].strip() if a else None
                if a is None or a.k != "DeclRefExpr" or a.get("dk") != "local":
                    return None
                d = a.get("d")
                srcs = ([defs.decl[d].c[0]] if defs.decl.get(d) is not None and defs.decl[d].c else []) + list(defs.writes.get("v%d" % d, []))
                if len(srcs) != 1:
                    return None
                src = srcs[0].strip()
                if src.k == "CXXMemberCallExpr" and (src.callee or "").split("::")[-1] in ("precision", "flags"):
                    return (src.callee or "").split("::")[-1]
                if "basic_ios" in (a.type or "") or "ios_base" in (a.type or ""):
                    return "copyfmt"
                return None

            KIND = {"precision()": "precision", "std::setprecision": "precision", "fill()": "fill", "std::setfill": "fill", "imbue()": "locale"}
            HARMLESS = ("std::scientific", "std::defaultfloat", "std::dec", "std::showpoint", "std::noshowpoint", "std::showpos", "std::uppercase", "std::left", "std::right", "std::internal")

            def harmless(m, what):
                if what in HARMLESS:
                    return True
                if what in ("precision()", "std::setprecision"):
                    a = m.call_args() if m.k == "CXXMemberCallExpr" else m.c[-1].strip().call_args()
                    a = a[0].strip() if a else None
                    if a is None:
                        return True  # precision() without argument only reads
                    v = a.get("cv") if "cv" in a.d else _const_of(a)
                    return isinstance(v, (int, float)) and v >= 6
                return False

            restores, changes = {}, []
            for m, what in shared:
                sv = saved_by(m) if what in ("flags()", "precision()", "copyfmt()") else None
                if sv is not None and sv == what[:-2] or (what == "copyfmt()" and sv == "copyfmt"):
                    restores[m.i] = "all" if what == "copyfmt()" else what[:-2]
                elif not harmless(m, what):
                    changes.append((m, KIND.get(what, "flags")))
            bad = []
            for m, kind in changes:
                g = in_graph(m)
                acc = {i for i, r in restores.items() if r in (kind, "all")}
                if g is None or not acc or cfg.must_pass_before_exit([g], lambda x: x.i in acc and x.i != g.i) is not None:
                    bad.append(m)
            ok = not bad
            det = ("formatting is changed and the saved state is put back on every path to the return" if changes else "only changes that add digits (or that a reader does not notice) are made to the header stream") if ok else "the header stream is switched to `%s` and left that way: every number written to the header afterwards (scale factors, offsets, sizes) is formatted differently from what the reader and the quantisation bound assume" % ", ".join(sorted({w for m_, w in shared if any(m_ is b for b in bad)}))
        ctx.ob(rule, f.qn + "(" + f.sig[:30] + ")", "formatting-state", ok, (shared[0][0] if shared else f).where(), det)
        n += 1
    # positive control: the matcher must see the manipulators ExamInfo::parameter_info streams into its own string stream
    ctrl = [c for g in control_fns if g.body is not None and g.short == "parameter_info" for c in sticky_format_changes(g)]
    if not ctrl:
        ctx.fail_broken("control for C10.h failed: no sticky manipulator recognised in ExamInfo::parameter_info (the matcher is blind)")
    ctx.stats["sticky_manipulator_control_hits"] = len(ctrl)
    return n


def _emissions(f):
    """(standardised key, vectorised?, key literal node, whole << statement, operand nodes streamed after the key literal) for
    every `key := value` emission of a header writer"""
    out = []
    for m in f.walk():
        if m.k != "StringLiteral":
            continue
        txt = m.get("v") or ""
        vect = False
        mm = re.match(r"\s*([^:=\[\]\n]+?)\s*(\[[^\]]*\])?\s*:=\s*([^\n]*)\n?$", txt)
        inline = None
        if mm:
            keytxt, vect, inline = mm.group(1), bool(mm.group(2)), mm.group(3).strip()
        elif re.fullmatch(r"[A-Za-z!][A-Za-z0-9 ()/_!]*\[?", txt.strip()) and len(txt.strip()) > 3 and (_next_string_in_stream(m) or "").startswith("]" if txt.strip().endswith("[") else "["):
            keytxt, vect = txt.strip().rstrip("["), True
        else:
            continue
        top = m
        for a in m.ancestors():
            if a.k == "CXXOperatorCallExpr" and a.op == "<<":
                top = a
            else:
                break
        ops = []
        node = top
        while node.k == "CXXOperatorCallExpr" and node.op == "<<" and len(node.c) == 2:
            ops.insert(0, node.c[1])
            node = node.c[0].strip()
        after, vals = False, []
        for o in ops:
            if any(x is m for x in o.walk()):
                after = True
                continue
            if after:
                vals.append(o)
        out.append((standardise(keytxt), vect, m, top, vals, inline))
    return out


def reader_value_lists(hfns):
    """key -> (index field, list field, [values in index order]) for keys registered with a list of admissible values"""
    lists = {}
    for f in hfns:
        for c in f.calls():
            if (c.callee or "").split("::")[-1] == "push_back" and c.k == "CXXMemberCallExpr" and c.c:
                fld = _field_root(c.c[0])
                lit = [m.get("v") for a in c.call_args() for m in a.walk() if m.k == "StringLiteral"]
                if fld and lit and fld.endswith("_values"):
                    lists.setdefault(fld, []).append((c.line, lit[0]))
    out = {}
    for f in hfns:
        for c in f.calls():
            if (c.callee or "").split("::")[-1] != "add_key":
                continue
            args = c.call_args()
            lit = [m.get("v") for m in args[0].walk() if m.k == "StringLiteral"] if args else []
            flds = [_field_root(a.strip().c[0]) for a in args[1:] if a.strip().k == "UnaryOperator" and a.strip().op == "&" and a.strip().c]
            flds = [x for x in flds if x]
            if lit and len(flds) >= 2 and flds[-1] in lists:
                out[standardise(lit[0])] = (flds[-2], flds[-1], [v for _l, v in lists[flds[-1]]])
    return out


def rule_i_enumerated_values_agree(ctx, wfns, hfns, rule="C10.i-enumerated-values-agree", writers=("write_basic_interfile_image_header", "write_interfile_")):
    """Keys whose value is one of a list: the reader stores the INDEX of the value in its list and (for patient orientation/rotation)
    casts that index to the enumeration.  (1) every literal value the writer can emit for such a key is in the reader's list;
    (2) where the writer maps enumerators to strings by a switch, the string for enumerator e is the list entry at index e, distinct
    enumerators are written distinctly, and every list entry except the reader's default has a case."""
    RULE = rule
    vl = reader_value_lists(hfns)
    ctx.stats["reader_value_lists"] = len(vl)
    if len(vl) < 6:
        ctx.fail_broken("only %d keys with a value list recognised in the header classes" % len(vl))
        return 0
    # reader: index field -> enumeration it is cast to, and its default
    cast_of, dflt = {}, {}
    for f in hfns:
        for m in f.walk():
            if m.k == "Cast" and m.get("ck") == "CXXStaticCastExpr" and m.c:
                fr = _field_root(m.c[0])
                if fr and fr.endswith("_index"):
                    cast_of[fr] = (m.type or "").split("::")[-1]
            if m.k == "BinaryOperator" and m.op == "=" and len(m.c) == 2:
                fr = _field_root(m.c[0])
                cv = _const_of(m.c[1])
                if fr and fr.endswith("_index") and isinstance(cv, float) and f.short in ("InterfileHeader", "MinimalInterfileHeader", "InterfileImageHeader"):
                    dflt.setdefault(fr, set()).add(int(cv))
    n = 0
    for f in wfns:
        if f.body is None or not f.short.startswith(tuple(writers)):
            continue
        defs = LocalDefs(f)
        streams = sorted((x.line, x.get("d")) for x in f.walk() if x.k == "VarDecl" and "ofstream" in (x.get("t") or ""))
        main_stream = streams[0][1] if streams else None
        for k, vect, m, top, vals, inline in _emissions(f):
            if k not in vl:
                continue
            roots_ = [x.get("d") for x in top.walk() if x.k == "DeclRefExpr" and "ofstream" in (x.type or "")]
            if main_stream is not None and roots_ and roots_[0] != main_stream:
                continue  # the Analyze-style .ahv copy is not read back by STIR
            idxf, lstf, values = vl[k]
            svalues = [standardise(v) for v in values]
            emitted = []  # (literal text, node)
            sw_var = None
            if inline:
                emitted.append((inline, m))
            for o in vals:
                for x in o.walk():
                    if x.k == "StringLiteral" and (x.get("v") or "").strip():
                        emitted.append(((x.get("v") or "").strip(), x))
                os_ = o.strip()
                if os_.k == "DeclRefExpr" and os_.get("dk") == "local" and "string" in (os_.type or ""):
                    sw_var = os_.get("d")
            if not inline and not vals:
                # `os << "key := ";` followed by statements that stream the value
                st = top
                while st.parent is not None and st.parent.k not in ("CompoundStmt",):
                    st = st.parent
                sibs = st.parent.c if st.parent is not None else []
                idx = next((i for i, x in enumerate(sibs) if x is st), None)
                if idx is not None and idx + 1 < len(sibs):
                    for x in sibs[idx + 1].walk():
                        if x.k == "StringLiteral" and (x.get("v") or "").strip():
                            emitted.append(((x.get("v") or "").strip(), x))
            if sw_var is not None:
                # values of a local string: every literal assigned to it, except those excluded by a guard `var != "lit"` around the emission
                excluded = set()
                for a in top.ancestors():
                    if a.k == "IfStmt" and a.c:
                        kk = key(a.c[0])
                        mm = re.fullmatch(r'\(!= v%d "([^"]*)"\)' % sw_var, kk)
                        if mm:
                            excluded.add(mm.group(1))
                for w in ([defs.decl[sw_var].c[0]] if defs.decl.get(sw_var) is not None and defs.decl[sw_var].c else []) + list(defs.writes.get("v%d" % sw_var, [])):
                    for x in w.walk():
                        if x.k == "StringLiteral" and (x.get("v") or "") not in excluded and (x.get("v") or "").strip():
                            emitted.append(((x.get("v") or "").strip(), x))
            if not emitted:
                continue
            bad = [(t, x) for t, x in emitted if standardise(t) not in svalues]
            ok = not bad
            ctx.ob(RULE, f.qn, "values-of:" + k, ok, (bad[0][1] if bad else m).where(), "every value written for `%s` (%s) is in the reader's list" % (k, ", ".join(sorted({t for t, _x in emitted}))) if ok else "`%s := %s` is written but the reader's list for this key (%s) does not contain it: the value is lost (index -1) on reading" % (k, bad[0][0], ", ".join(values)))
            n += 1
            # (2) switch over the enumeration the reader casts the index to
            if sw_var is None or idxf not in cast_of:
                continue
            en = cast_of[idxf]
            sws = [x for x in f.walk() if x.k == "SwitchStmt" and any(c.k == "CaseStmt" and c.c and (c.c[0].strip().type or "").split("::")[-1] == en for c in x.walk())]
            if len(sws) != 1:
                ctx.unrec(f.qn, "no single switch over %s found for key `%s`" % (en, k))
                continue
            cases = {}
            for c in sws[0].walk():
                if c.k != "CaseStmt" or "cv" not in c.d:
                    continue
                lit = None
                for x in c.walk():
                    if x.k == "CXXOperatorCallExpr" and x.op == "=" and x.c and x.c[0].strip().k == "DeclRefExpr" and x.c[0].strip().get("d") == sw_var:
                        ll = [y.get("v") for y in x.walk() if y.k == "StringLiteral"]
                        if ll:
                            lit = ll[0]
                            break
                cases[int(c.get("cv"))] = (lit, c)
            wrong = []
            for v, (lit, c) in sorted(cases.items()):
                if lit is None:
                    wrong.append((c, "the case for enumerator %d assigns no value" % v))
                elif v >= len(values) or standardise(lit) != svalues[v]:
                    wrong.append((c, "enumerator %s (= %d) is written as `%s`, which the reader turns into index %s, not %d" % ((c.c[0].strip().get("n") or "?"), v, lit, svalues.index(standardise(lit)) if standardise(lit) in svalues else "-1", v)))
            d0 = dflt.get(idxf, set())
            missing = [i for i in range(len(values)) if i not in cases and i not in d0]
            if missing:
                wrong.append((sws[0], "no case for the enumerator(s) with value %s (%s): they are written as the default and read back as something else" % (missing, ", ".join(values[i] for i in missing))))
            ok = not wrong
            ctx.ob(RULE, f.qn, "switch:" + k, ok, (wrong[0][0] if wrong else sws[0]).where(), "each of the %d enumerators of %s is written as the reader's list entry of the same index; the remaining entry is the reader's default" % (len(cases), en) if ok else wrong[0][1])
            n += 1
    return n


def _conjuncts(c):
    c = c.strip()
    if c.k == "BinaryOperator" and c.op == "&&":
        return _conjuncts(c.c[0]) + _conjuncts(c.c[1])
    return [c]


def _implies(op_w, c_w, op_r, c_r):
    """x op_w c_w  =>  x op_r c_r  (op in >, >=)"""
    if op_r == ">":
        return c_w > c_r or (c_w == c_r and op_w == ">")
    return c_w >= c_r


def rule_j_guards_agree(ctx, wfns, hfns):
    """Exam information with a `not set` value (thresholds of -1): the writer emits it under a condition on the getters, the reader
    hands what it parsed to the setters under a condition on the parsed values.  Whatever the writer's condition lets through must
    pass the reader's: per attribute X, the writer's bound on get_X() implies the reader's bound on the argument of set_X()."""
    RULE = "C10.j-writer-reader-guards-agree"
    rcond = {}  # X -> (op, const, node)
    for f in hfns:
        if f.body is None or f.short != "post_processing":
            continue
        for m in f.walk():
            if m.k != "IfStmt" or len(m.c) < 2:
                continue
            arg_of = {}
            for c in m.c[1].walk():
                sh = (c.callee or "").split("::")[-1] if c.is_call() else ""
                if sh.startswith("set_") and c.call_args() and "ExamInfo" in (c.callee or ""):
                    arg_of[key(c.call_args()[0])] = sh[4:]
            for cj in _conjuncts(m.c[0]):
                if cj.k == "BinaryOperator" and cj.op in (">", ">=") and key(cj.c[0]) in arg_of and isinstance(_const_of(cj.c[1]), float):
                    rcond.setdefault(arg_of[key(cj.c[0])], []).append((cj.op, _const_of(cj.c[1]), cj))
    n = 0
    for f in wfns:
        if f.body is None or not f.short.startswith(("write_basic_interfile_image_header", "write_interfile_")):
            continue
        for m in f.walk():
            if m.k != "IfStmt" or len(m.c) < 2:
                continue
            for cj in _conjuncts(m.c[0]):
                if not (cj.k == "BinaryOperator" and cj.op in (">", ">=") and isinstance(_const_of(cj.c[1]), float)):
                    continue
                g = cj.c[0].strip()
                sh = (g.callee or "").split("::")[-1] if g.is_call() else ""
                if not sh.startswith("get_") or "ExamInfo" not in (g.callee or "") or sh[4:] not in rcond:
                    continue
                x = sh[4:]
                cw = _const_of(cj.c[1])
                bad = [(o, c, nd) for o, c, nd in rcond[x] if not _implies(cj.op, cw, o, c)]
                ok = not bad
                ctx.ob(RULE, f.qn, "attribute:" + x, ok, cj.where(), "written when %s %s %g; the reader keeps it when %s" % (x, cj.op, cw, " and ".join("%s %g" % (o, c) for o, c, _n in rcond[x])) if ok else "the writer stores %s when it is %s %g, but the reader (%s) keeps the parsed value only when it is %s %g: a value in between is written and then dropped" % (x, cj.op, cw, bad[0][2].where(), bad[0][0], bad[0][1]))
                n += 1
    return n


# keys whose number must come back as the SAME binary value (one line of reason each)
FULL_PRECISION_KEYS = {
    "image scaling factor": "multiplies every stored number: an error in the 7th digit is thousands of quantisation steps for 4-byte integers",
    "quantification units": "the same scale factor, for the LLN reader",
    "calibration factor": "multiplies the image; stored by the format as exam information",
    "image duration (sec)": "double: 6 digits lose fractions of a second of a frame late in the study",
    "image relative start time (sec)": "double: idem",
    "energy window lower level": "exam information stored by the format: 425.1234 keV came back as 425.123 (F90)",
    "energy window upper level": "idem",
    "radionuclide halflife (sec)": "exam information (a radionuclide that is not in the database is rebuilt from the header): 1223.4567 s came back as 1223.46 (F90)",
    "radionuclide branching factor": "idem",
}


def rule_k_full_precision(ctx, wfns, rule="C10.k-quantities-written-with-full-precision", writers=("write_basic_interfile_image_header", "write_interfile_"), keys=None):
    """The numbers above are written with at least max_digits10 digits of their type: the emission is dominated by a precision()
    change of the header stream to >= 9 (float) / 17 (double) digits with no other precision change in between."""
    RULE = rule
    from engine.cfg import CFG as _CFG

    keys = keys or FULL_PRECISION_KEYS
    n = 0
    for f in wfns:
        if f.body is None or not f.short.startswith(tuple(writers)):
            continue
        ems = [e for e in _emissions(f) if e[0] in keys]
        if not ems:
            continue
        cfg = _CFG(f)

        def in_graph(x):
            while x is not None and x.i not in cfg.pos:
                x = x.parent
            return x

        pcalls = []
        for m, what in sticky_format_changes(f):
            if what in ("precision()", "std::setprecision"):
                a = (m.call_args() if m.k == "CXXMemberCallExpr" else m.c[-1].strip().call_args())
                a = a[0].strip() if a else None
                digits = None
                if a is not None:
                    if "cv" in a.d:
                        digits = int(a.get("cv"))
                    elif isinstance(_const_of(a), float):
                        digits = int(_const_of(a))
                pcalls.append((m, digits))
        seen_streams = sorted((x.line, x.get("d")) for x in f.walk() if x.k == "VarDecl" and "ofstream" in (x.get("t") or ""))
        main_stream = seen_streams[0][1] if seen_streams else None
        for k, vect, m, top, vals, inline in ems:
            roots_ = [x.get("d") for x in top.walk() if x.k == "DeclRefExpr" and "ofstream" in (x.type or "")]
            if main_stream is not None and roots_ and roots_[0] != main_stream:
                continue  # the Analyze-style copy, not read back by STIR
            val = [o for o in vals if o.strip().k not in ("StringLiteral", "CharacterLiteral") and not ("int" in (o.strip().type or "") and "unsigned" not in (o.strip().type or "") and o.strip().k == "DeclRefExpr")]
            val = [o for o in val if re.search(r"\b(float|double)\b", o.strip().type or "")]
            if not val:
                ctx.unrec(f.qn, "no floating-point value recognised in the emission of `%s`" % k)
                continue
            need = 17 if "double" in (val[0].strip().type or "") else 9
            e = in_graph(top)
            ok, det = False, "`%s` is written with the stream's default precision (6 digits) - %s" % (k, keys[k])
            for pc, digits in pcalls:
                g = in_graph(pc)
                if g is None or e is None or g.i == e.i or not cfg.dominates(g, e):
                    continue
                between = [q for q, _d in pcalls if q is not pc and in_graph(q) is not None and in_graph(q).i != g.i and cfg.dominates(g, in_graph(q)) and cfg.dominates(in_graph(q), e) and in_graph(q).i != e.i]
                if between:
                    continue
                if digits is not None and digits >= need:
                    ok, det = True, "written with precision %d >= max_digits10 of its type (%d)" % (digits, need)
                else:
                    det = "`%s` is written with precision %s, fewer than the %d digits needed to read the same %s back - %s" % (k, digits, need, "double" if need == 17 else "float", keys[k])
            ctx.ob(RULE, f.qn, "key:" + k, ok, top.where(), det)
            n += 1
    return n


def rule_l_quantification_units_only_for_identical_factors(ctx, wfns):
    """`quantification units` is written next to the per-data-set `image scaling factor[i]`; the reader accepts it only if EVERY image
    scaling factor is exactly that number (InterfileHeader::post_processing).  The writer's decision to emit it must therefore rest on
    exact (in)equality of the scale factors - a tolerance lets it write a header that the reader rejects: a dynamic image with almost
    equal frame maxima cannot be read back (seed C10-6)."""
    RULE = "C10.l-quantification-units-only-for-identical-scale-factors"
    n = 0
    for f in wfns:
        if f.body is None or f.short != "write_basic_interfile_image_header":
            continue
        ems = [e for e in _emissions(f) if e[0] == "quantification units"]
        if not ems:
            continue
        from engine.algebra import LocalDefs, data_slice

        defs = LocalDefs(f)
        for e in ems:
            top = e[3]
            guards = [a.c[0] for a in top.ancestors() if a.k == "IfStmt" and a.c]
            gvars = {m.get("d") for g in guards for m in g.walk() if m.k == "DeclRefExpr" and m.get("dk") == "local"}
            # every condition under which a guard variable is assigned
            conds = []
            for d in gvars:
                for w in defs.writes.get("v%d" % d, []):
                    conds += [a.c[0] for a in w.ancestors() if a.k == "IfStmt" and a.c]
            rel = [m for c in conds for m in c.walk() if (m.k == "BinaryOperator" and m.op in ("<", "<=", ">", ">=")) or (m.is_call() and (m.callee or "").split("::")[-1] in ("abs", "fabs"))]
            def element(m):
                """does the expression read a scale factor (an element of the vector, or a local holding one)?"""
                for x in m.walk():
                    if (x.k in ("ArraySubscriptExpr",) or (x.is_call() and (x.callee or "").split("::")[-1] in ("operator[]", "at"))) and "scaling_factors" in key(x, True):
                        return True
                    if x.k == "DeclRefExpr" and x.get("dk") == "local":
                        for ini in defs.all_defs(x.get("d")):
                          if any((y.k == "ArraySubscriptExpr" or (y.is_call() and (y.callee or "").split("::")[-1] in ("operator[]", "at"))) and "scaling_factors" in key(y, True) for y in ini.walk()):
                              return True
                return False

            rel = [m for m in rel if element(m)]
            exact = [m for c in conds for m in c.walk() if m.k == "BinaryOperator" and m.op in ("!=", "==") and element(m)]
            if not exact and not rel:
                ctx.unrec(f.qn, "C10.l: how the scale factors are compared before `quantification units` is written was not recognised")
                continue
            ok = not rel
            ctx.ob(RULE, f.qn, "key:quantification units", ok, e[2].where(), "written only when the scale factors are compared equal exactly" if ok else "`quantification units` is written when the scale factors agree within a tolerance (%s); the reader rejects the header unless every `image scaling factor` equals it exactly: the image the library just wrote cannot be read back" % rel[0].where())
            n += 1
    return n


_TRANSPARENT = ("ExprWithCleanups", "ImplicitCastExpr", "ParenExpr", "MaterializeTemporaryExpr", "CXXBindTemporaryExpr", "CXXFunctionalCastExpr", "CXXConstructExpr")


def _value_discarded(c):
    """is the value of expression c thrown away (an expression statement, or cast to void)?"""
    x, p = c, c.parent
    while p is not None and p.k in _TRANSPARENT:
        x, p = p, p.parent
    if p is None:
        return False
    if p.k in ("CStyleCastExpr", "CXXStaticCastExpr") and "void" == (p.type or "").strip():
        return True
    if p.k == "CompoundStmt":
        return True
    if p.k in ("ForStmt", "WhileStmt", "DoStmt", "CXXForRangeStmt"):
        return p.c and p.c[-1] is x or (p.k == "ForStmt" and x is not None and any(x is y for y in p.c[:1] + p.c[2:]))
    if p.k == "IfStmt":
        return any(x is y for y in p.c[1:])
    return False


def rule_n_write_failure_reported(ctx, wfns):
    """`writing an image and reading it back preserves ...`: the writer that returns Succeeded::yes has written the data.  Every
    write_data() call of the image writers has its result used (tested / returned / stored) - a dropped result lets the function write
    the header for an empty or partial data file and report success (F89)."""
    RULE = "C10.n-write-failure-reported"
    n = 0
    seen = set()
    for f in wfns:
        if f.body is None or f.short != "write_basic_interfile":
            continue
        calls = [c for c in f.walk() if c.is_call() and ((c.callee or "") == "stir::write_data" or key(c, True).split("(")[0] == "write_data")]
        for c in calls:
            w = c.where()
            if w in seen:
                continue
            seen.add(w)
            bad = _value_discarded(c)
            ctx.ob(RULE, f.qn + "(" + f.sig[:40] + ")", "write_data@%s" % w.rsplit(":", 1)[-1], not bad, w, "the result of write_data is used" if not bad else "the result of write_data is thrown away: when the data cannot be written (refused scale factor, full disk) the header is written all the same and the function returns Succeeded::yes for a file that cannot be read back")
            n += 1
    return n


def _sign_of(n, env, unknown):
    """tiny sign domain for find_scale_factor: 'nonneg' | 'any' ; nodes that are not modelled are collected in `unknown`"""
    n = n.strip()
    if n.k in ("FloatingLiteral", "IntegerLiteral"):
        return "nonneg" if (n.get("v", 0) or 0) >= 0 else "any"
    if n.k == "DeclRefExpr":
        return env.get(n.get("d"), "any")
    if n.k in ("CXXFunctionalCastExpr", "CStyleCastExpr", "CXXStaticCastExpr", "ImplicitCastExpr", "ParenExpr", "MaterializeTemporaryExpr", "CXXConstructExpr", "ExprWithCleanups") and n.c:
        return _sign_of(n.c[-1], env, unknown)
    if n.is_call():
        cal = (n.callee or key(n, True).split("(")[0]).split("::")[-1]
        args = n.call_args()
        if cal == "max" and len(args) == 2:
            return "nonneg" if "nonneg" in (_sign_of(args[0], env, unknown), _sign_of(args[1], env, unknown)) else "any"
        if cal == "min" and len(args) == 2:
            return "nonneg" if {_sign_of(args[0], env, unknown), _sign_of(args[1], env, unknown)} == {"nonneg"} else "any"
        if cal in ("abs", "fabs"):
            return "nonneg"
        if cal in ("max_value", "max_element", "min_element", "min_value", "operator*"):
            return "any"
        unknown.append(n)
        return "any"
    if n.k == "BinaryOperator" and n.op in ("*", "/", "+"):
        a, b = _sign_of(n.c[0], env, unknown), _sign_of(n.c[1], env, unknown)
        return "nonneg" if a == b == "nonneg" else "any"
    if n.k == "UnaryOperator" and n.op == "*":
        return "any"
    if n.k == "ConditionalOperator":
        a, b = _sign_of(n.c[1], env, unknown), _sign_of(n.c[2], env, unknown)
        return "nonneg" if a == b == "nonneg" else "any"
    unknown.append(n)
    return "any"


def _sign_walk(stmt, env, stores, target, unknown):
    """abstract execution of structured statements; `stores` collects (node, sign) for every assignment to `target` (the in/out scale factor).
    returns False when the statement always returns"""
    k = stmt.k
    if k == "CompoundStmt":
        for c in stmt.c:
            if not _sign_walk(c, env, stores, target, unknown):
                return False
        return True
    if k == "DeclStmt":
        for v in stmt.c:
            if v.k == "VarDecl":
                arithmetic = re.search(r"\b(float|double|int|long|short|unsigned|scaleT)\b", v.get("t") or "") is not None
                env[v.get("d")] = _sign_of(v.c[0], env, unknown) if v.c and arithmetic else "any"
        return True
    if k == "ReturnStmt":
        return False
    if k == "IfStmt":
        cond = stmt.c[0].strip()
        e1, e2 = dict(env), dict(env)
        # refinement: `v < 0` / `v <= 0`-> else-branch nonneg ; `v >= 0` / `v > 0` -> then-branch nonneg
        if cond.k == "BinaryOperator" and cond.op in ("<", "<=", ">", ">=") and cond.c[0].strip().k == "DeclRefExpr" and cond.c[1].strip().k in ("IntegerLiteral", "FloatingLiteral") and (cond.c[1].strip().get("v", 0) or 0) == 0:
            d = cond.c[0].strip().get("d")
            (e2 if cond.op in ("<",) else e1 if cond.op in (">", ">=") else {})[d] = "nonneg"
        l1 = _sign_walk(stmt.c[1], e1, stores, target, unknown)
        l2 = _sign_walk(stmt.c[2], e2, stores, target, unknown) if len(stmt.c) > 2 else True
        live = [e for e, l in ((e1, l1), (e2, l2)) if l]
        if not live:
            return False
        for d in set().union(*[set(e) for e in live]):
            env[d] = "nonneg" if all(e.get(d, "any") == "nonneg" for e in live) else "any"
        return True
    n = stmt.strip()
    if n.k in ("BinaryOperator", "CompoundAssignOperator", "CXXOperatorCallExpr") and n.op in ("=", "*=", "/=", "+="):
        lhs = n.c[0].strip() if n.k != "CXXOperatorCallExpr" else n.c[-2].strip()
        rhs = n.c[-1]
        sg = _sign_of(rhs, env, unknown)
        if n.op != "=":
            sg = "nonneg" if sg == "nonneg" and (env.get(lhs.get("d"), "any") == "nonneg") else "any"
        if lhs.k == "DeclRefExpr":
            env[lhs.get("d")] = sg
            if lhs.get("d") == target:
                stores.append((n, sg))
        else:
            unknown.append(n)
        return True
    if n.k in ("NullStmt",):
        return True
    unknown.append(n)
    return True


def rule_e2_scale_factor_sign_and_floating_output(ctx, iofns):
    """(F88) the factor find_scale_factor stores is never negative: data without positive values going to an unsigned type gave
    max/max_value < 0, every row was then refused by the fixed-scale writer and no data were written;
    (F86) for a floating-point output type the factor is not the quotient with the type's maximum: it underflows the float factor to 0
    (float -> double), which the converter reads as `all data are zero`."""
    RULE = "C10.e-scale-factor-no-overflow"
    fs = [f for f in iofns if f.short == "find_scale_factor" and f.body is not None and len(f.params) == 4]
    if not fs:
        ctx.fail_broken("anchor find_scale_factor(scale, begin, end, info) not found")
        return
    f = ([x for x in fs if not x.is_dependent] or fs)[0]
    target = f.params[0]["d"]
    env, stores, unknown = {target: "nonneg"}, [], []
    _sign_walk(f.body, env, stores, target, unknown)
    if not stores:
        ctx.fail_broken("no store to the scale factor found in find_scale_factor")
        return
    bad = [s for s, sg in stores if sg != "nonneg"]
    if bad and unknown:
        ctx.unrec(f.qn, "C10.e: sign of the stored scale factor not decidable: %s is not modelled" % unknown[0].where())
    else:
        ok = not bad
        ctx.ob(RULE, f.qn, "stored-factor-not-negative", ok, (bad[0] if bad else stores[0][0]).where(), "every value stored in the scale factor is a quotient clamped at 0 / a maximum with a non-negative value (%d stores)" % len(stores) if ok else "the stored factor can be negative (data maximum below 0 divided by the positive limit of an unsigned output type): the fixed-scale writer refuses every row, no data are written and the header is: the image cannot be read back")
    # floating point output
    ifs = [m for m in f.walk() if m.k == "IfStmt" and any(("integer_type" in key(x, True).split("(")[0] or "is_integer" in key(x, True)) for x in m.c[0].walk())]
    if not ifs:
        ctx.ob(RULE, f.qn, "floating-output-not-full-range", False, f.where(), "the factor is max/max_value of the output type also when that type is float or double: for float data written as double the quotient underflows the float factor to 0, the converter takes that for `all data are zero` and the image is written as zeros")
        return
    m = ifs[0]
    cond = key(m.c[0], True)
    neg = cond.lstrip("(").startswith("!")
    branch = m.c[1] if neg else (m.c[2] if len(m.c) > 2 else None)
    if branch is None:
        ctx.unrec(f.qn, "C10.e: the branch for floating-point output was not recognised (%s)" % m.where())
        return
    st = [x for x in branch.walk() if x.k in ("BinaryOperator", "CXXOperatorCallExpr") and x.op == "=" and x.c[0].strip().k == "DeclRefExpr" and x.c[0].strip().get("d") == target]
    one = [x for x in st if any(y.k in ("FloatingLiteral", "IntegerLiteral") and (y.get("v", 0) or 0) == 1 for y in x.c[-1].walk())]
    returns = any(x.k == "ReturnStmt" for x in branch.walk())
    if not st:
        ctx.unrec(f.qn, "C10.e: the floating-point branch does not store the factor (%s)" % m.where())
        return
    ok = bool(one) and returns
    ctx.ob(RULE, f.qn, "floating-output-not-full-range", ok, m.where(), "floating-point output: the automatic factor is 1 (larger only against overflow) and the full-range quotient is not reached" if ok else "floating-point output still reaches the full-range quotient (no factor 1 / no return in the floating-point branch)")


def rule_m_rounded_in_output_type(ctx, iofns):
    """`scaled integer output ... never overflows the chosen type`: the factor is chosen for the full range of the OUTPUT type, so the
    quotient value/factor reaches that type's limits; it has to be rounded into that type.  A rounding function with a fixed result
    type (stir::round returns int) overflows for the 4-byte unsigned and the 8-byte types (F87)."""
    RULE = "C10.m-rounded-into-output-type"
    fs = [f for f in iofns if f.short == "convert_range" and f.body is not None and len(f.params) == 4 and len({p["t"] for p in f.params if "Iter" in p["t"]}) >= 2]
    if not fs:
        ctx.fail_broken("anchor convert_range(out_begin, scale, in_begin, in_end) not found")
        return
    # an instantiation: there the rounding function is resolved and has its result type
    inst = [f for f in fs if not f.is_dependent]
    if not inst:
        ctx.unrec(fs[0].qn, "C10.m: no instantiation of convert_range in the analysed unit")
        return
    f = inst[0]
    quot = [m for m in f.walk() if m.k == "BinaryOperator" and m.op == "/" and any(x.k == "DeclRefExpr" and x.get("d") == f.params[1]["d"] for x in m.c[1].walk())]
    n = 0
    # the quotient may reach the rounding through a local
    defs = LocalDefs(f)
    flows = []
    for q in quot:
        holder = next((a for a in q.ancestors() if a.k == "VarDecl"), None)
        if holder is not None and defs.single_def(holder.get("d")) is not None:
            flows += [(u, q) for u in f.walk() if u.k == "DeclRefExpr" and u.get("d") == holder.get("d")]
        else:
            flows.append((q, q))
    for q0, q in flows:
        fixed = None
        via_round_to = False
        for a in q0.ancestors():
            if a.is_call():
                cal = (a.callee or key(a, True).split("(")[0]).split("::")[-1]
                t = (a.type or "")
                if cal == "round_to":
                    via_round_to = True
                    break
                if cal in ("round", "lround", "lrint", "llround", "llrint", "rint_to_int") and re.fullmatch(r"(int|long|long long|short)", t.strip()):
                    fixed = (cal, t.strip(), a)
                    break
            if a.k in ("CompoundStmt", "IfStmt", "ForStmt"):
                break
        inner = [a for a in q.ancestors() if a.k == "IfStmt"]
        # only the quotient on the integer branch is of interest: the one under `is_integer` else-branch / with rounding
        if not via_round_to and fixed is None and not any(a.is_call() and "round" in (a.callee or key(a, True)) for a in q0.ancestors()):
            continue
        ok = fixed is None
        ctx.ob(RULE, f.qn, "quotient@%d" % q.line, ok, q.where(), "value/factor is rounded by a function whose result has the output type" if ok else "value/factor is rounded by %s(), which returns `%s`: with the automatic factor the quotient reaches the limits of the output type, beyond that type for UINT, LONG and ULONG output (244 read back as 123.22)" % (fixed[0], fixed[1]))
        n += 1
    if n == 0:
        ctx.unrec(f.qn, "C10.m: no rounded quotient value/scale_factor recognised in convert_range")


def run(ctx):
    ctx.explanation = (
        "Decides: (a) every key that the Interfile image header writer (and its helpers for exam information) emits is registered or "
        "explicitly ignored by InterfileHeader/InterfileImageHeader with the same vectorisation, after the repo's keyword normalisation "
        "(the checker's mirror of it is tied to the source); (b) read_data_1d tests the stream after the raw read on every path to "
        "success and the image readers test read_data's result, so a short file is reported; (c) read_data and write_data handle the "
        "same NumericType enumerators, all but BIT/UNKNOWN_TYPE; (d) the writer's first-pixel offset is voxel_size*min_index+origin and "
        "the reader recomputes origin = offset - voxel_size*min_index' with the axes in the same order, so the physical position of the "
        "first voxel is preserved; (e) the scale factor for scaled-integer output pairs the data maximum with the type's max_value and "
        "the data minimum with its min_value and is enlarged by a safety factor > 1 (no overflow). NOT decided: value preservation "
        "and quantisation bounds numerically, exam-info values surviving formatting/parsing, dynamic/parametric container bookkeeping."
    )
    reqs = requests()
    ctx.ex.prefetch(reqs)
    us = [ctx.ex.get(r) for r in reqs]
    if any(u is None for u in us):
        return

    def fl(u):
        seen, out = set(), []
        for f in u.functions:
            k = (f.file, f.body.line if f.body is not None else f.line, f.qnt, f.sig)
            if k not in seen and f.body is not None:
                seen.add(k)
                out.append(f)
        return out

    ifns, hfns, kwf, iof = fl(us[0]), fl(us[1]), fl(us[2]), fl(us[3])
    accf = fl(us[4]) + fl(us[5]) + fl(us[6])
    rule_a(ctx, ifns, hfns, kwf)
    rule_b(ctx, ifns, iof)
    rule_c(ctx, iof, us[3].enums)
    rule_d(ctx, ifns)
    rule_e(ctx, iof)
    rule_f_independent_keys(ctx, ifns, accf)
    ctx.require_count("C10.f-independent-keys", 4)
    rule_g_omitted_only_at_reader_default(ctx, ifns, hfns)
    ctx.require_count("C10.g-omitted-only-at-reader-default", 3)
    if us[7] is not None:
        rule_h_header_stream_format_unchanged(ctx, fl(us[7]), fl(us[6]))
        ctx.require_count("C10.h-header-stream-format-unchanged", 8)
    rule_i_enumerated_values_agree(ctx, ifns, hfns)
    ctx.require_count("C10.i-enumerated-values-agree", 7)
    rule_j_guards_agree(ctx, ifns, hfns)
    ctx.require_count("C10.j-writer-reader-guards-agree", 2)
    image_keys = dict(FULL_PRECISION_KEYS)
    # the position of every voxel: size and first pixel offset are floats and have to come back as written (F75)
    image_keys["scaling factor (mm/pixel)"] = "voxel size: with 6 digits the position of the last voxel of a long axis moves by micrometres to millimetres"
    image_keys["first pixel offset (mm)"] = "position of the first voxel (index offset and origin)"
    rule_k_full_precision(ctx, ifns, keys=image_keys)
    rule_l_quantification_units_only_for_identical_factors(ctx, ifns)
    ctx.require_count("C10.l-quantification-units-only-for-identical-scale-factors", 1)
    rule_e2_scale_factor_sign_and_floating_output(ctx, iof)
    rule_m_rounded_in_output_type(ctx, iof)
    ctx.require_count("C10.m-rounded-into-output-type", 1)
    if len(us) > 8 and us[8] is not None:
        rule_n_write_failure_reported(ctx, fl(us[8]))
        ctx.require_count("C10.n-write-failure-reported", 3)
    ctx.require_count("C10.k-quantities-written-with-full-precision", 15)
    ctx.require_count("C10.a-header-keys-agree", 25)
    ctx.require_count("C10.b-short-file-is-error", 2)
    ctx.require_count("C10.c-number-types-exhaustive", 3)
    ctx.require_count("C10.d-offset-origin-inverse", 3)
    ctx.require_count("C10.e-scale-factor-no-overflow", 4)
