"""C01 - detector pairs and sinogram bins.  Decided clauses (structural necessary conditions only):

 a  RF7  swap duality: get_bin_for_det_pair has exactly two outcomes selected by the swap flag of the det-pair table -
         (+timing, rings in order) and (-timing, rings exchanged); the inverse get_det_pos_pair_for_bin exchanges the two
         positions exactly when the TOF index is negative and stores |t| * mash
 b  RF2  every read of a lazily built geometry table is preceded by its initialise_..._if_not_done_yet() on every path
         (directly, or through a callee that initialises on every path on which it reports success)
 c  RF5  every function that changes an input of the ring-difference tables resets ring_diff_arrays_computed
 d       tables that copies of the object share (shared_ptr elements) are never modified in place: an element is
         replaced by a freshly allocated object before it is filled
"""
import re

from engine.algebra import Algebra, LocalDefs, data_slice
from engine.cfg import CFG
from engine.extract import Request
from engine.tree import key, root_of_lvalue, written_lvalues

UNITS = [
    "src/buildblock/ProjDataInfoCylindricalNoArcCorr.cxx",
    "src/buildblock/ProjDataInfoGenericNoArcCorr.cxx",
    "src/buildblock/ProjDataInfoCylindrical.cxx",
    "src/buildblock/ProjDataInfoGeneric.cxx",
]
CLASSES = ["stir::ProjDataInfoCylindricalNoArcCorr", "stir::ProjDataInfoGenericNoArcCorr", "stir::ProjDataInfoCylindrical", "stir::ProjDataInfoGeneric"]
FILES = ["/repo/src/buildblock/ProjDataInfo.*", "/repo/src/include/stir/ProjDataInfo.*"]

# inputs of initialise_ring_diff_arrays: own fields, and the base-class setters that change what it reads
RING_TABLE_INPUT_FIELDS = {"min_ring_diff", "max_ring_diff", "ring_spacing"}
RING_TABLE_INPUT_BASE_SETTERS = {"set_num_axial_poss_per_segment", "set_min_axial_pos_num", "set_max_axial_pos_num", "reduce_segment_range"}


def requests():
    return [Request(u, fn=[c + "::.*" for c in CLASSES] + ["stir::ProjDataInfo::.*"], files=FILES) for u in UNITS] + [Request("src/buildblock/ProjDataInfo.cxx", fn=["stir::ProjDataInfo::.*"], files=FILES)]


def uniq(fns):
    seen, out = set(), []
    for f in fns:
        k = (f.file, f.body.line if f.body is not None else f.line, f.qn, f.sig)
        if k not in seen:
            seen.add(k)
            out.append(f)
    return out


def rule_a(ctx, fns):
    n = 0
    for f in fns:
        if f.short == "get_bin_for_det_pair" and f.body is not None and len(f.params) in (5, 6):
            binp, d1, r1, d2, r2 = (p["n"] for p in f.params[:5])
            t = f.params[5]["n"] if len(f.params) == 6 else None  # the generic geometry has no TOF index
            allifs = [m for m in f.body.c if m.k == "IfStmt"]

            def _flag_call(m):
                c0 = m.c[0].strip()
                return c0.is_call() and (c0.callee or "").endswith("get_view_tangential_pos_num_for_det_num_pair")

            def _refusal(m):
                # `if (cond) return Succeeded::no;` - a pair that is refused outright is not one of the two outcomes
                if len(m.c) != 2:
                    return False
                th = m.c[1]
                th = th.c[0] if th.k == "CompoundStmt" and len(th.c) == 1 else th
                return th.k == "ReturnStmt" and bool(th.c) and key(th.c[0].strip()).endswith("Succeeded::no)") or (th.k == "ReturnStmt" and bool(th.c) and "Succeeded::no" in key(th.c[0].strip()))

            ifs = [m for m in allifs if _flag_call(m)]
            others = [m for m in allifs if not _flag_call(m)]
            ok = False
            det = "no if on the swap flag"
            if others and not all(_refusal(m) for m in others):
                ifs = []
                det = "a top-level branch other than the swap-flag test does more than refuse the pair (return Succeeded::no)"
            if len(ifs) == 1 and len(ifs[0].c) == 3:
                cond = ifs[0].c[0].strip()
                is_flag = cond.is_call() and (cond.callee or "").endswith("get_view_tangential_pos_num_for_det_num_pair") and [key(a, True) for a in cond.call_args()][2:] == [d1, d2]
                outs = []
                for br in ifs[0].c[1:3]:
                    tas = [m for m in br.walk() if m.k == "BinaryOperator" and m.op == "=" and key(m.c[0], True) == "%s.timing_pos_num()" % binp]
                    rets = [m for m in br.walk() if m.k == "ReturnStmt" and m.c and m.c[0].strip().is_call() and (m.c[0].strip().callee or "").endswith("get_segment_axial_pos_num_for_ring_pair")]
                    if br.k == "ReturnStmt":
                        rets = [br] if br.c and br.c[0].strip().is_call() and (br.c[0].strip().callee or "").endswith("get_segment_axial_pos_num_for_ring_pair") else []
                    if (t is not None and len(tas) != 1) or len(rets) != 1:
                        outs.append(None)
                        continue
                    if t is None:
                        sign = "0"
                    else:
                        tk = key(tas[0].c[1].strip(), True)
                        sign = "+" if tk == t else ("-" if tk == "(- %s)" % t else "?")
                    rings = tuple(key(a, True) for a in rets[0].c[0].strip().call_args()[2:4])
                    outs.append((sign, rings))
                want = {("+", (r1, r2)), ("-", (r2, r1))} if t is not None else {("0", (r1, r2)), ("0", (r2, r1))}
                ok = is_flag and None not in outs and {outs[0], outs[1]} == want and outs[0][1] == (r1, r2)
                det = "swap flag from the det-pair table selects %s" % (outs,)
            ctx.ob("C01.a-swap-duality", f.qn, "two-dual-outcomes", ok, f.where(), det if ok else "the two outcomes are not (+timing, rings in order) / (-timing, rings exchanged): " + det)
            n += 1
        if f.short == "get_det_pos_pair_for_bin" and f.body is not None and len(f.params) == 2 and any("timing_pos" in key(m, True) for m in f.walk() if m.k == "CXXMemberCallExpr"):
            dp, binp = f.params[0]["n"], f.params[1]["n"]
            ifs = [m for m in f.body.c if m.k == "IfStmt"]
            ok = False
            det = "no if on the sign of the TOF index"
            if len(ifs) == 1 and len(ifs[0].c) == 3:
                ck = key(ifs[0].c[0].strip(), True)
                maps = []
                for br in ifs[0].c[1:3]:
                    mp = {}
                    for m in br.walk():
                        if m.k == "BinaryOperator" and m.op == "=":
                            mp[key(m.c[0], True)] = key(m.c[1].strip(), True)
                    maps.append(mp)
                lhs = ["%s.pos1().tangential_coord()" % dp, "%s.pos1().axial_coord()" % dp, "%s.pos2().tangential_coord()" % dp, "%s.pos2().axial_coord()" % dp]
                if all(set(mp) == set(lhs) for mp in maps):
                    a, b = ([mp[x] for x in lhs] for mp in maps)
                    exchanged = b == [a[2], a[3], a[0], a[1]] and len(set(a)) == 4
                    ok = exchanged and ck == "(>= %s.timing_pos_num() 0)" % binp
                    det = "positions %s for t>=0, %s otherwise" % (a, b)
            tas = [m for m in f.walk() if m.k == "BinaryOperator" and m.op == "=" and key(m.c[0], True) == "%s.timing_pos()" % dp]
            tk = key(tas[0].c[1].strip(), True) if tas else "?"
            ok_t = re.fullmatch(r"\(\* (std::)?abs\(%s\.timing_pos_num\(\)\) this\.get_tof_mash_factor\(\)\)" % re.escape(binp), tk) is not None
            ctx.ob("C01.a-swap-duality", f.qn, "inverse-exchanges-on-negative-tof", ok and ok_t, f.where(), det + "; timing = " + tk)
            n += 1
    return n


def rule_b(ctx, fns):
    bycls = {}
    for f in fns:
        bycls.setdefault(f.cls, []).append(f)
    n = 0
    for cls, fs in sorted(bycls.items()):
        byqn = {}
        for f in fs:
            byqn.setdefault(f.qn, []).append(f)
        # table -> its lazy initialiser: X_if_not_done_yet calls builder B; tables = fields B writes (except the flag)
        table_init = {}
        builders = set()
        for f in fs:
            if f.short.endswith("_if_not_done_yet") and f.body is not None:
                for c in f.calls():
                    if c.k == "CXXMemberCallExpr" and c.c and c.c[0].k == "CXXThisExpr" and (c.callee or "").split("::")[-1].startswith("initialise"):
                        builders.add(c.callee)
                        for b in byqn.get(c.callee, []):
                            todo = [b]
                            seen = set()
                            while todo:
                                g = todo.pop()
                                if g.qn in seen or g.body is None:
                                    continue
                                seen.add(g.qn)
                                builders.add(g.qn)
                                for m in g.walk():
                                    if not (m.k in ("BinaryOperator", "CXXOperatorCallExpr") and m.op == "="):
                                        continue  # a table is what the builder assigns (whole or element-wise)
                                    for e in written_lvalues(m):
                                        r = root_of_lvalue(e)
                                        if r.startswith("this.") and r != "this()" and not r.endswith("_initialised") and not r.endswith("_computed"):
                                            table_init.setdefault(r[5:], f.qn)
                                for c2 in g.calls():
                                    if c2.k == "CXXMemberCallExpr" and c2.c and c2.c[0].k == "CXXThisExpr" and c2.callee in byqn:
                                        todo.extend(byqn[c2.callee])
        if not table_init:
            continue
        ctx.stats.setdefault("lazy_tables", {})[cls] = sorted(table_init)
        # callees that initialise on every path on which they report success
        ensures = {}
        for f in fs:
            if f.body is None or not f.cfg_raw or "Succeeded" not in f.d.get("ret", ""):
                continue
            cfg = CFG(f)
            yes = [r for r in cfg.return_nodes() if r.c and "Succeeded::yes" in key(r.c[0], True)]
            for init in set(table_init.values()):
                if yes and cfg.must_pass_from_entry(yes, lambda x, init=init: x.is_call() and x.callee == init) is None:
                    ensures.setdefault(f.qn, set()).add(init)
        for f in fs:
            if f.body is None or not f.cfg_raw or f.is_ctor or f.qn in builders or f.short.endswith("_if_not_done_yet") or f.short.startswith(("allocate_", "compute_", "initialise")):
                continue
            reads = [m for m in f.walk() if m.k == "MemberExpr" and m.get("mk") == "field" and m.get("n") in table_init and m.c and m.c[0].k == "CXXThisExpr"]
            if not reads:
                continue
            cfg = CFG(f)
            for tbl in sorted({m.get("n") for m in reads}):
                rs = [m for m in reads if m.get("n") == tbl and m.i in cfg.pos]
                init = table_init[tbl]
                ok = cfg.must_pass_from_entry(rs, lambda x: x.is_call() and x.callee == init) is None
                how = "dominated by %s()" % init.split("::")[-1]
                if not ok:
                    # through a callee that initialises whenever it reports success, on a path where it did
                    ok = True
                    for r in rs:
                        facts = cfg.facts_at(r)
                        good = False
                        for k, tv, _r in facts:
                            if tv is False and k.startswith("(== ") and "Succeeded::no" in k:
                                for callee, inits in ensures.items():
                                    if init in inits and ("." + callee.split("::")[-1] + "(") in k:
                                        good = True
                                        how = "guarded by `%s(...) == Succeeded::no -> return`, which initialises on success" % callee.split("::")[-1]
                        # or a direct call (dominating) of such a callee whose failure aborts
                        if not good and cfg.must_pass_from_entry([r], lambda x: x.is_call() and x.callee == init) is not None:
                            ok = False
                ctx.ob("C01.b-initialise-before-read", f.qn + "(" + f.sig[:30] + ")", "table:" + tbl, ok, f.where(), how if ok else "%s is read on a path that did not call %s()" % (tbl, init.split("::")[-1]))
                n += 1
    return n


def rule_c(ctx, fns):
    n = 0
    for f in fns:
        if f.cls not in ("stir::ProjDataInfoCylindrical", "stir::ProjDataInfoGeneric") or f.body is None or not f.cfg_raw or f.is_const or f.is_ctor or f.d.get("dtor"):
            continue
        hits = set()
        for m in f.walk():
            for e in written_lvalues(m):
                r = root_of_lvalue(e)
                if r.startswith("this.") and r[5:] in RING_TABLE_INPUT_FIELDS:
                    hits.add(r[5:])
            if m.k == "CXXMemberCallExpr" and m.get("qualified") and (m.callee or "").split("::")[-1] in RING_TABLE_INPUT_BASE_SETTERS and m.c and m.c[0].k == "CXXThisExpr":
                hits.add((m.callee or "").split("::")[-1] + "()")
        if not hits:
            continue
        cfg = CFG(f)

        def inv(x):
            return (x.k == "BinaryOperator" and x.op == "=" and key(x.c[0]) == "this.ring_diff_arrays_computed" and x.c[1].strip().get("v") is False) or (
                x.k == "CXXMemberCallExpr" and x.get("qualified") and x.c and x.c[0].k == "CXXThisExpr" and (x.callee or "").startswith("stir::ProjDataInfoCylindrical::set_") and f.cls != "stir::ProjDataInfoCylindrical"
            )

        w = cfg.paths_avoiding([(cfg.entry, -1)], inv)
        ctx.ob("C01.c-tables-invalidated", f.qn + "(" + f.sig[:30] + ")", "resets-flag-after:" + ",".join(sorted(hits)), w is None, f.where(), "every path resets ring_diff_arrays_computed" if w is None else "changes %s but a path keeps ring_diff_arrays_computed: stale ring-difference tables" % sorted(hits))
        n += 1
    return n


IMMUTABLE_GETTERS = {"get_scanner_ptr", "get_scanner_sptr"}  # the scanner of a ProjDataInfo is fixed at construction


def rule_e_tables_from_fixed_inputs(ctx, fns, rule="C01.e-tables-from-fixed-inputs"):
    """What a lazily built detector table STORES may only be computed from inputs that cannot change afterwards (the scanner) or whose
    every setter resets the table's flag.  A value that depends on, say, the current number of views goes stale when set_num_views()
    is called on the object or on a clone (which copies table and flag).  Sanity checks that end in error() may read anything."""
    byqn = {}
    for f in fns:
        if f.body is not None:
            byqn.setdefault(f.qn, f)

    def getter_fields(qn, depth=0):
        f = byqn.get(qn)
        if f is None or depth > 4:
            return None
        out = set()
        for m in f.walk():
            if m.k == "MemberExpr" and m.get("mk") == "field" and m.c and m.c[0].k == "CXXThisExpr":
                out.add(m.get("n"))
            elif m.k == "CXXMemberCallExpr" and m.c and m.c[0].k == "CXXThisExpr" and m.callee and m.callee != qn and (m.callee or "").split("::")[-1] not in IMMUTABLE_GETTERS:
                sub = getter_fields(m.callee, depth + 1)
                if sub is None:
                    return None
                out |= sub
        return out

    n = 0
    seen = set()
    for f in fns:
        if f.body is None or not f.short.startswith("initialise_") or f.short.endswith("_if_not_done_yet") or "det1det2" not in f.short or (f.file, f.line) in seen:
            continue
        seen.add((f.file, f.line))
        defs = LocalDefs(f)
        flags = {m.get("n") for m in f.walk() if m.k == "MemberExpr" and m.get("mk") == "field" and m.c and m.c[0].k == "CXXThisExpr" and (m.get("n") or "").endswith(("_initialised", "_computed"))}
        tables = set()
        stores = []
        for m in f.walk():
            for e in written_lvalues(m):
                r = root_of_lvalue(e)
                if r.startswith("this.") and r[5:] not in flags:
                    tables.add(r[5:])
                    stores.append(m)
        # everything the stored values / sizes are computed from (data slice through locals, plus the loops that drive the indices)
        srcs = []
        for m in stores:
            srcs += [c for c in m.c]
            for a in m.ancestors():
                if a.k == "ForStmt":
                    srcs += [a.c[0], a.c[1]]
        sl = data_slice(f, srcs, defs)
        bad = []
        for x in sl:
            if x.k == "CXXMemberCallExpr" and x.c and x.c[0].k == "CXXThisExpr" and x.callee:
                short = x.callee.split("::")[-1]
                if short in IMMUTABLE_GETTERS:
                    continue
                flds = getter_fields(x.callee)
                bad.append((short, x, flds))
            elif x.k == "MemberExpr" and x.get("mk") == "field" and x.c and x.c[0].k == "CXXThisExpr" and x.get("n") not in tables and x.get("n") not in flags:
                if x.parent is not None and x.parent.k == "CXXMemberCallExpr" and x.parent.c and x.parent.c[0] is x:
                    continue
                bad.append((x.get("n"), x, {x.get("n")}))
        # a dependency is fine if every function that assigns one of its fields (outside constructors) also resets this table's flag
        problems = []
        for short, x, flds in bad:
            if flds is None:
                problems.append("%s() (body not available)" % short)
                continue
            for fld in sorted(flds):
                writers = [g for g in fns if g.body is not None and not g.is_ctor and any(root_of_lvalue(e) == "this." + fld for m2 in g.walk() for e in written_lvalues(m2))]
                for g in writers:
                    resets = any(m2.k == "BinaryOperator" and m2.op == "=" and key(m2.c[0]).replace("this.", "") in flags and m2.c[1].strip().get("v") is False for m2 in g.walk())
                    overridden = any(h.short == g.short and h.cls == f.cls and h is not g and any(m2.k == "BinaryOperator" and m2.op == "=" and key(m2.c[0]).replace("this.", "") in flags and m2.c[1].strip().get("v") is False for m2 in h.walk()) for h in fns if h.body is not None)
                    if not resets and not overridden:
                        problems.append("%s -> field %s, which %s changes without resetting %s" % (short, fld, g.qn.split("::")[-1], sorted(flags)))
        problems = sorted(set(problems))
        ctx.ob(rule, f.qn, "stored-values", not problems, f.where(), "what is stored in %s is computed from the scanner only" % sorted(tables) if not problems else "stored table values depend on state that can change after the table was built: " + "; ".join(problems[:3]))
        n += 1
    return n


def rule_d(ctx, fns):
    n = 0
    for f in fns:
        if f.body is None or not f.cfg_raw:
            continue
        defs = LocalDefs(f)
        cfg = None
        for m in f.walk():
            # dereference of a shared_ptr element of a member table
            if not (m.k == "CXXOperatorCallExpr" and m.op == "*" and len(m.c) == 1):
                continue
            el = m.c[0].strip()
            # a reference local always denotes what it was bound to, whatever is done through it
            sub = {d: (vd.c[0] if (vd.get("t") or "").rstrip().endswith("&") and vd.c else defs.single_def(d)) for d, vd in defs.decl.items()}
            ek = key(el, False, sub)  # local references to the element are looked through
            if not (ek.startswith("this.") and "[" in ek and "shared_ptr" in el.type):
                continue
            # is the pointee modified through this dereference?  bound to a non-const reference, or used as object of a non-const call
            p = m.parent
            mutable_use = False
            if p is not None and p.k == "VarDecl" and p.get("t", "").rstrip().endswith("&") and not p.get("t", "").startswith("const"):
                mutable_use = True
            if p is not None and p.k == "CXXMemberCallExpr" and p.c and p.c[0] is m and not p.callee_info.get("const"):
                mutable_use = True
            if not mutable_use:
                continue
            cfg = cfg or CFG(f)
            fresh = []
            for a in f.walk():
                if a.k in ("BinaryOperator", "CXXOperatorCallExpr") and a.op == "=" and len(a.c) == 2 and key(a.c[0].strip(), False, sub) == ek:
                    sl = data_slice(f, [a.c[1]], defs)
                    if any(x.k == "CXXNewExpr" or (x.is_call() and (x.callee or "").endswith("make_shared")) for x in sl):
                        fresh.append(a)
                elif a.k == "CXXMemberCallExpr" and (a.callee or "").split("::")[-1] == "reset" and a.c and key(a.c[0].strip(), False, sub) == ek and a.call_args():
                    if any(x.k == "CXXNewExpr" for x in data_slice(f, [a.call_args()[0]], defs)):
                        fresh.append(a)
            ids = {a.i for a in fresh}
            ok = bool(fresh) and m.i in cfg.pos and cfg.must_pass_from_entry([m], lambda x: x.i in ids) is None
            ctx.ob(
                "C01.d-shared-tables-not-modified-in-place",
                f.qn,
                "element:" + key(el, True)[:60],
                ok,
                m.where(),
                "the element is replaced by a freshly allocated object on every path before it is filled (copies of the object keep their own table)" if ok else "the pointee of %s is modified without first replacing the element by a fresh object: objects copied from this one share it" % key(el, True)[:60],
            )
            n += 1
    return n


def rule_f_forward_map_division_exact(ctx, fns):
    """Ring pairs are partitioned over (segment, axial position) only if the forward map (ring pair -> axial position) and the table built
    for the inverse direction agree.  The forward map is  ax = (ring1 + ring2 - offset[segment]) * inc / 2  in INTEGER arithmetic, the
    table puts ring1 + ring2 = 2 * ax / inc + offset.  For inc == 2 the division is exact; for inc == 1 (a segment with a single
    ring difference) it is exact only if ring1 + ring2 - offset is even, i.e. (ring difference - offset) even.  The code that computes
    the offsets must therefore REJECT a segment for which that parity fails (error()), not merely warn: otherwise every ring pair of the
    segment is mapped to an axial position whose list does not contain it."""
    n = 0
    fwd = [f for f in fns if f.short == "get_segment_axial_pos_num_for_ring_pair" and f.body is not None]
    ini = [f for f in fns if f.short == "initialise_ring_diff_arrays" and f.body is not None and f.cfg_raw]
    if not fwd or not ini:
        ctx.fail_broken("anchor get_segment_axial_pos_num_for_ring_pair / initialise_ring_diff_arrays not found")
        return 0
    f = fwd[0]
    divs = [m for m in f.walk() if m.k == "BinaryOperator" and m.op == "/" and m.type == "int" and key(m.c[1].strip()) == "2" and "ax_pos_num_offset" in key(m.c[0])]
    if len(divs) != 1:
        ctx.unrec(f.qn, "expected one integer division by 2 of (ring1 + ring2 - offset) * inc")
        return 0
    g = ini[0]
    cfg = CFG(g)
    checks = [m for m in g.walk() if m.k == "IfStmt" and m.c and re.search(r"\(!= \(% \(- .*ring_difference\(.*\) this\.ax_pos_num_offset\[.*\]\) 2\) 0\)", key(m.c[0].strip()))]
    if not checks:
        ctx.ob("C01.f-forward-map-division-exact", g.qn, "parity-of-single-ring-difference-segments", False, g.where(), "no test of the parity of (ring difference - axial position offset) for segments with one ring difference: the integer division in the forward ring-pair map can truncate")
        return 1
    for i, c in enumerate(checks):
        then = c.c[1]
        aborts = any(x.is_call() and (x.callee or "").endswith("::error") or (x.is_call() and (x.callee or "") == "stir::error") for x in then.walk())
        only_warns = any(x.is_call() and (x.callee or "").split("::")[-1] == "warning" for x in then.walk())
        guarded_inc1 = any(a.k == "IfStmt" and "get_num_axial_poss_per_ring_inc" in key(a.c[0]) for a in c.ancestors())
        ok = aborts and guarded_inc1
        ctx.ob("C01.f-forward-map-division-exact", g.qn, "parity-of-single-ring-difference-segments@%d" % i, ok, c.where(), "a segment with one ring difference whose (ring difference - offset) is odd is rejected" if ok else "a segment with one ring difference whose (ring difference - offset) is odd is accepted%s: get_segment_axial_pos_num_for_ring_pair then truncates (ring1 + ring2 - offset) / 2 and maps every ring pair of the segment to an axial position whose ring-pair list does not contain it" % (" with a warning only" if only_warns else ""))
        n += 1
    return n


def rule_g_no_entry_pairs_refused(ctx, fns):
    """The detector-pair table has entries for pairs of DIFFERENT detector numbers only (the initialisation walks over the (view,
    tangential position) of the sinograms; the look-up asserts det1 != det2, which a Release build drops).  A pair with the same detector
    number in two rings is on no LOR of the sinograms: the pair -> bin map must refuse it before the table is read - must-fact
    `det_num1 != det_num2` at the look-up (F71: such pairs were assigned to view 0, tangential position 0)."""
    from engine.cfg import relations

    RULE = "C01.g-pairs-without-table-entry-refused"
    n = 0
    for f in fns:
        if f.short != "get_bin_for_det_pair" or f.body is None or len(f.params) not in (5, 6) or not f.cfg_raw:
            continue
        d1, d2 = "v%d" % f.params[1]["d"], "v%d" % f.params[3]["d"]
        cfg = CFG(f)
        looks = [c for c in f.calls() if (c.callee or "").endswith("get_view_tangential_pos_num_for_det_num_pair")]
        if not looks:
            ctx.unrec(f.qn, "C01.g: no look-up of the detector-pair table")
            continue
        bad = []
        for c in looks:
            at = c
            while at is not None and at.i not in cfg.pos:
                at = at.parent
            rels = relations(cfg.facts_at(at)) if at is not None else set()
            if not ((d1, "!=", d2) in rels or (d2, "!=", d1) in rels):
                bad.append(c)
        ctx.ob(RULE, f.qn, "same-detector-number", not bad, (bad or looks)[0].where(), "the detector-pair table is read only where det_num1 != det_num2 is known" if not bad else "the detector-pair table is read for det_num1 == det_num2 as well: it has no entry for such pairs (same position in the ring, different rings - on no LOR of the sinograms), so they are assigned to whatever the uninitialised entry says, a bin that does not list them")
        n += 1
    return n


def rule_h_tof_mashing_preimage(ctx):
    """`each detector pair with its TOF index is assigned to at most one bin, and the set a bin reports is exactly the set assigned to
    it` under TOF mashing: get_bin_for_det_pos_pair assigns unmashed index u to round(u / m); the pre-image of mashed index k under
    that map is the window centred on k*m, [k*m - m/2, k*m + m/2] (integer m/2).  get_all_det_pos_pairs_for_bin must list that
    window: lower + upper == 2*k*m and upper - lower == 2*(m/2), symbolically (seed C01-6: consecutive groups counted from the lowest
    timing position agree with it only when m divides the number of timing positions)."""
    import sympy

    RULE = "C01.h-tof-mashing-window-is-the-preimage"
    u = ctx.ex.get(Request("src/buildblock/ProjDataInfoCylindricalNoArcCorr.cxx", fn=["stir::ProjDataInfoCylindricalNoArcCorr::get_all_det_pos_pairs_for_bin", "stir::ProjDataInfoCylindricalNoArcCorr::get_bin_for_det_pos_pair"], files=["/repo/src/buildblock/ProjDataInfoCylindricalNoArcCorr.cxx", "/repo/src/include/stir/ProjDataInfoCylindricalNoArcCorr.inl"]))
    if u is None:
        return
    lst = [f for f in u.functions if f.short == "get_all_det_pos_pairs_for_bin" and f.body is not None]
    fwd = [f for f in u.functions if f.short == "get_bin_for_det_pos_pair" and f.body is not None]
    if not lst or not fwd:
        ctx.fail_broken("anchors get_all_det_pos_pairs_for_bin / get_bin_for_det_pos_pair not found")
        return
    # forward map: round(timing_pos / mash factor)
    rounded = [m for m in fwd[0].walk() if m.is_call() and (m.callee or "").split("::")[-1] == "round" and "get_tof_mash_factor" in key(m, True) and "timing_pos" in key(m, True)]
    if not rounded:
        ctx.unrec(fwd[0].qn, "C01.h: the assignment of an unmashed TOF index to a TOF bin is not round(timing_pos / tof_mash_factor)")
        return
    f = lst[0]
    alg = Algebra(f, names=False)
    binp = [p for p in f.params if re.search(r"\bBin\b", p["t"])]
    if not binp:
        ctx.unrec(f.qn, "C01.h: no Bin parameter")
        return
    k = alg.sym("v%d.timing_pos_num()" % binp[0]["d"])
    m_ = alg.sym("this.get_tof_mash_factor()")
    # the window: the two locals assigned under the test of the `ignore non-spatial dimensions` flag, from expressions of k and m
    flagp = [p for p in f.params if p["t"].strip() in ("const bool", "bool")]
    cand = []
    for g in f.walk():
        if g.k == "IfStmt" and flagp and any(x.k == "DeclRefExpr" and x.get("d") == flagp[0]["d"] for x in g.c[0].walk()):
            for a in g.c[1].walk():
                if a.k == "BinaryOperator" and a.op == "=" and a.c[0].strip().k == "DeclRefExpr" and a.c[0].strip().get("dk") == "local":
                    e = alg.expr(a.c[1])
                    if e is not None and e.has(m_):
                        cand.append((a, e))
    if len(cand) != 2:
        ctx.unrec(f.qn, "C01.h: the window of unmashed TOF indices of a bin was not recognised (%d assignments)" % len(cand))
        return
    (a1, e1), (a2, e2) = cand
    half = sympy.Function("intdiv")(m_, 2)
    centred = sympy.simplify(sympy.expand(e1 + e2 - 2 * k * m_)) == 0
    width = sympy.simplify(sympy.expand(sympy.Abs(e2 - e1) - 2 * half)) == 0 or sympy.simplify(sympy.expand((e2 - e1) ** 2 - (2 * half) ** 2)) == 0
    ok = bool(centred and width)
    ctx.ob(RULE, f.qn, "window", ok, a1.where(), "the unmashed TOF indices listed for TOF bin k are [k*m - m/2, k*m + m/2], the pre-image of k under round(u/m)" if ok else "the unmashed TOF indices listed for TOF bin k are [%s, %s], not the window centred on k*m that round(u/m) assigns to k: a pair with its TOF index is then reported by no bin or by two, and the reported count differs from the assigned set" % (e1, e2))


def run(ctx):
    ctx.explanation = (
        "Decides: (a) get_bin_for_det_pair (cylindrical and generic/blocks geometries) has exactly the two dual outcomes selected by the "
        "swap flag - (+timing, rings in order) / (-timing, rings exchanged) - and get_det_pos_pair_for_bin exchanges the positions "
        "exactly for negative TOF index and stores |t|*mash; (b) every read of a lazily built geometry table is preceded on every path "
        "by its ..._if_not_done_yet(), directly or through a callee that initialises on every path on which it reports success; (c) "
        "every function changing an input of the ring-difference tables resets ring_diff_arrays_computed; (d) table elements shared "
        "between copies (shared_ptr) are replaced by fresh objects before being filled. NOT decided: that the interleaving formula and "
        "its hand inversion are mutual inverses, that the Michelogram formulas partition ring pairs, the reported counts (modular "
        "arithmetic over runtime scanner parameters)."
    )
    reqs = requests()
    ctx.ex.prefetch(reqs)
    rule_h_tof_mashing_preimage(ctx)
    ctx.require_count("C01.h-tof-mashing-window-is-the-preimage", 1)
    us = [ctx.ex.get(r) for r in reqs]
    if any(u is None for u in us):
        return
    fns = uniq([f for u in us for f in u.functions])
    na = rule_a(ctx, fns)
    nb = rule_b(ctx, fns)
    nc = rule_c(ctx, fns)
    nd = rule_d(ctx, fns)
    rule_e_tables_from_fixed_inputs(ctx, fns)
    ctx.require_count("C01.e-tables-from-fixed-inputs", 2)
    rule_f_forward_map_division_exact(ctx, fns)
    ctx.require_count("C01.f-forward-map-division-exact", 1)
    rule_g_no_entry_pairs_refused(ctx, fns)
    ctx.require_count("C01.g-pairs-without-table-entry-refused", 2)
    ctx.require_count("C01.a-swap-duality", 3)
    ctx.require_count("C01.b-initialise-before-read", 8)
    ctx.require_count("C01.c-tables-invalidated", 7)
    ctx.require_count("C01.d-shared-tables-not-modified-in-place", 1)
