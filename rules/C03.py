"""C03 - system-matrix rows do not depend on caching or request history.  Decided clauses:

 a  RF8  the cache key is an injective packing of (axial, tangential, TOF) with sign bits: disjoint bit fields whose widths
         are the constants that set_up() checks the data against; together with the two subscripts (view, segment) of the
         cache every coordinate that distinguishes two bins is part of the key
 b  RF2  what is stored under a key is the finished row of that bin: the TOF kernel step lies between computing and caching;
         in basic-bin mode rows are cached before, in full mode after the symmetry transformation
 c  RF5  set_up() empties the cache on every path; configuration setters of the ray-tracing matrix clear already_setup
 d  RF7  for each symmetry operation the bin-level and the view/segment-level transformation agree on (view, segment),
         branch by branch (affine summaries)
 e  RF12 find_basic_bin delegates view/segment to the one find_basic_view_segment_numbers
"""
import re

from engine import rf5
from engine.cfg import CFG
from engine.extract import Request
from engine.sympath import Unrecognised, project, summarise
from engine.tree import key, root_of_lvalue, written_lvalues

PM = "src/recon_buildblock/ProjMatrixByBin.cxx"
RT = "src/recon_buildblock/ProjMatrixByBinUsingRayTracing.cxx"
SO = "src/recon_buildblock/SymmetryOperations_PET_CartesianGrid.cxx"
DS = "src/recon_buildblock/DataSymmetriesForBins_PET_CartesianGrid.cxx"

COORD_OF_ACCESSOR = {"axial_pos_num": "axial", "tangential_pos_num": "tangential", "timing_pos_num": "timing", "tof_pos_num": "timing"}


def requests():
    return [
        Request(PM, fn=["stir::ProjMatrixByBin::.*"], files=["/repo/src/recon_buildblock/ProjMatrixByBin.cxx", "/repo/src/include/stir/recon_buildblock/ProjMatrixByBin.inl"]),
        Request(RT, fn=["stir::ProjMatrixByBinUsingRayTracing::.*"], files=["/repo/src/recon_buildblock/ProjMatrixByBinUsingRayTracing.cxx"]),
        Request(SO, fn=["stir::SymmetryOperation_PET_CartesianGrid_.*::transform_(bin_coordinates|view_segment_indices)"]),
        Request(DS, fn=["stir::DataSymmetriesForBins_PET_CartesianGrid::find_basic_bin", "stir::DataSymmetriesForBins_PET_CartesianGrid::find_basic_view_segment_numbers", "stir::DataSymmetriesForBins_PET_CartesianGrid::find_symmetry_operation_from_basic_bin"]),
        Request(PM, fn=["stir::Bin::operator=="]),
        Request(DS, fn=["stir::DataSymmetriesForBins_PET_CartesianGrid::DataSymmetriesForBins_PET_CartesianGrid"]),
        Request("src/recon_buildblock/ProjMatrixByBinUsingInterpolation.cxx", fn=["stir::ProjMatrixByBinUsingInterpolation::.*"], files=["/repo/src/recon_buildblock/ProjMatrixByBinUsingInterpolation.cxx"]),
        Request("src/recon_buildblock/ProjMatrixByBinUsingInterpolation.cxx", fn=["stir::.*"], files=["/repo/src/recon_buildblock/ProjMatrixByBinUsingInterpolation.cxx"]),
        Request(RT, fn=["stir::.*"], files=["/repo/src/recon_buildblock/ProjMatrixByBinUsingRayTracing.cxx", "/repo/src/recon_buildblock/RayTraceVoxelsOnCartesianGrid.cxx"]),
        Request("src/buildblock/date_time_functions.cxx", fn=["stir::.*"], files=["/repo/src/buildblock/date_time_functions.cxx"]),
        Request("src/buildblock/ProjDataInfoCylindricalNoArcCorr.cxx", fn=["stir::ProjDataInfoCylindrical.*::(blindly_equals|operator==)", "stir::ProjDataInfoCylindrical.*::get_(phi|m|t|s|tantheta|costheta|ring_radius|average_ring_difference|axial_sampling)"], files=["/repo/src/buildblock/ProjDataInfoCylindricalNoArcCorr.cxx", "/repo/src/include/stir/ProjDataInfoCylindrical.*\\.inl"]),
        Request("src/buildblock/ProjDataInfoCylindricalArcCorr.cxx", fn=["stir::ProjDataInfoCylindrical.*::(blindly_equals|operator==)", "stir::ProjDataInfoCylindricalArcCorr::get_s"], files=["/repo/src/buildblock/ProjDataInfoCylindricalArcCorr.cxx", "/repo/src/include/stir/ProjDataInfoCylindricalArcCorr.inl"]),
        Request("src/buildblock/ProjDataInfoCylindrical.cxx", fn=["stir::ProjDataInfoCylindrical::blindly_equals"], files=["/repo/src/buildblock/ProjDataInfoCylindrical.cxx"]),
        Request("src/buildblock/ProjDataInfo.cxx", fn=["stir::ProjDataInfo::blindly_equals"], files=["/repo/src/buildblock/ProjDataInfo.cxx"]),
        Request("src/buildblock/Scanner.cxx", fn=["stir::Scanner::operator=="], files=["/repo/src/buildblock/Scanner.cxx"]),
        Request(DS, fn=["stir::DataSymmetriesForBins_PET_CartesianGrid::find_sym_op_.*"], files=["/repo/src/include/stir/recon_buildblock/DataSymmetriesForBins_PET_CartesianGrid.inl"]),
    ]


def const_int(n):
    """evaluate an integer expression built from literals, recorded constants and + - *"""
    n = n.strip()
    if n.k == "IntegerLiteral":
        return n.get("v")
    if "cv" in n.d:
        return n.get("cv")
    if n.k == "BinaryOperator" and n.op in ("+", "-", "*"):
        a, b = const_int(n.c[0]), const_int(n.c[1])
        if a is None or b is None:
            return None
        return {"+": a + b, "-": a - b, "*": a * b}[n.op]
    if n.k == "CXXConstructExpr" and len(n.c) == 1:
        return const_int(n.c[0])
    return None


def coord_in(n):
    for m in n.walk():
        if m.k == "CXXMemberCallExpr" and m.callee:
            s = m.callee.split("::")[-1]
            for acc, c in COORD_OF_ACCESSOR.items():
                if acc in s:
                    return c
    return None


def rule_a(ctx, fns, bin_eq):
    ck = [f for f in fns if f.qn == "stir::ProjMatrixByBin::cache_key" and f.body is not None]
    su = [f for f in fns if f.qn == "stir::ProjMatrixByBin::set_up" and f.body is not None]
    if not ck or not su:
        ctx.fail_broken("anchors ProjMatrixByBin::cache_key / set_up not found")
        return
    ck, su = ck[0], su[0]
    rets = [n for n in ck.walk() if n.k == "ReturnStmt" and n.c]
    if len(rets) != 1:
        ctx.unrec(ck.qn, "expected one return")
        return
    terms = []

    def flat(n):
        n = n.strip()
        if n.k == "BinaryOperator" and n.op == "|":
            flat(n.c[0])
            flat(n.c[1])
        else:
            terms.append(n)

    flat(rets[0].c[0])
    fields = []
    for t in terms:
        shift = 0
        v = t
        if t.k == "BinaryOperator" and t.op == "<<":
            shift = const_int(t.c[1])
            v = t.c[0].strip()
        if shift is None:
            ctx.unrec(ck.qn, "shift of term %s is not a compile-time constant" % key(t, True)[:80])
            return
        c = coord_in(v)
        if v.k == "ConditionalOperator":
            vals = sorted(key(x.strip()) for x in v.c[1:3])
            kind = "sign" if vals == ["0", "1"] else "?"
        elif v.k == "CallExpr" and (v.callee or "").split("::")[-1] in ("abs", "labs"):
            kind = "abs"
        else:
            kind = "?"
        fields.append({"coord": c, "kind": kind, "shift": shift, "key": key(v, True)[:60]})
    # widths of the magnitude fields: the constants set_up checks the data against
    widths = {}
    cfg = CFG(su)
    for n in su.walk():
        if n.k == "BinaryOperator" and n.op == ">=" and n.c[1].strip().k == "BinaryOperator" and n.c[1].strip().op == "<<":
            w = const_int(n.c[1].strip().c[1])
            lhs = n.c[0].strip()
            # the left side is a local max_abs_<coord> whose initialiser names the coordinate's accessors
            c = None
            for m in lhs.walk():
                if m.k == "DeclRefExpr" and m.get("dk") == "local":
                    for d in su.walk():
                        if d.k == "VarDecl" and d.get("d") == m.get("d") and d.c:
                            c = coord_in(d.c[0])
            guarded = any(b.aborts for b in cfg.blocks.values()) and any(x.is_call() and x.callee == "stir::error" for x in su.walk())
            if c and w is not None and guarded:
                widths[c] = w
    ok_kinds = all(f["kind"] in ("abs", "sign") and f["coord"] for f in fields)
    ctx.ob("C03.a-cache-key-injective", ck.qn, "fields-recognised", ok_kinds and len(fields) == 6, ck.where(), "key = %s" % [(f["coord"], f["kind"], f["shift"]) for f in fields])
    if not ok_kinds:
        return
    for c in ("axial", "tangential", "timing"):
        has = {f["kind"] for f in fields if f["coord"] == c}
        ctx.ob("C03.a-cache-key-injective", ck.qn, "coordinate:%s" % c, has == {"abs", "sign"}, ck.where(), "magnitude and sign of %s are both in the key" % c if has == {"abs", "sign"} else "%s contributes %s to the key" % (c, sorted(has)))
        ctx.ob("C03.a-cache-key-injective", su.qn, "bound-checked:%s" % c, c in widths, su.where(), "set_up rejects data whose |%s| needs more than %s bits" % (c, widths.get(c)) if c in widths else "set_up does not check |%s| against the key's field width" % c)
    lay = sorted(fields, key=lambda f: f["shift"])
    for i, f in enumerate(lay):
        w = 1 if f["kind"] == "sign" else widths.get(f["coord"])
        nxt = lay[i + 1]["shift"] if i + 1 < len(lay) else 64
        ok = w is not None and f["shift"] + w <= nxt
        ctx.ob(
            "C03.a-cache-key-injective",
            ck.qn,
            "field-disjoint:%s-%s" % (f["coord"], f["kind"]),
            ok,
            ck.where(),
            "bits [%d,%d) below next field at %d" % (f["shift"], f["shift"] + (w or 0), nxt) if ok else "field %s/%s at bit %d with width %s overlaps the next field at bit %d" % (f["coord"], f["kind"], f["shift"], w, nxt),
        )
    # completeness: key coordinates + cache subscripts = everything Bin::operator== compares
    subs = set()
    for f in fns:
        for m in f.walk():
            if m.k == "CXXOperatorCallExpr" and m.op == "[]" and len(m.c) == 2 and m.c[0].strip().k == "CXXOperatorCallExpr" and key(m.c[0].strip().c[0]) == "this.cache_collection":
                for idx in (m.c[0].strip().c[1], m.c[1]):
                    for x in idx.walk():
                        if x.k == "CXXMemberCallExpr" and x.callee:
                            s = x.callee.split("::")[-1]
                            if s in ("view_num", "segment_num"):
                                subs.add(s.replace("_num", ""))
    keyc = {f["coord"] for f in fields} | subs
    cmp_ = set()
    for f in bin_eq:
        for x in f.walk():
            if x.k == "CXXMemberCallExpr" and x.callee:
                s = x.callee.split("::")[-1]
                for nm, c in (("segment_num", "segment"), ("view_num", "view"), ("axial_pos_num", "axial"), ("tangential_pos_num", "tangential"), ("timing_pos_num", "timing")):
                    if s == nm:
                        cmp_.add(c)
    if not cmp_:
        cmp_ = {"segment", "view", "axial", "tangential", "timing"}
        ctx.note("Bin::operator== not instantiated in the unit; using the five index coordinates")
    ctx.ob("C03.a-cache-key-injective", ck.qn, "complete", cmp_ <= keyc, ck.where(), "key + cache subscripts cover %s" % sorted(keyc) if cmp_ <= keyc else "coordinates %s distinguish bins but are not part of the cache address" % sorted(cmp_ - keyc))


def rule_b(ctx, fns):
    g = [f for f in fns if f.qn == "stir::ProjMatrixByBin::get_proj_matrix_elems_for_one_bin" and f.body is not None and f.cfg_raw]
    if not g:
        ctx.fail_broken("anchor get_proj_matrix_elems_for_one_bin not found")
        return
    f = g[0]
    cfg = CFG(f)
    calc = [c for c in f.calls() if (c.callee or "").endswith("::calculate_proj_matrix_elems_for_one_bin")]
    cache = [c for c in f.calls() if (c.callee or "").endswith("::cache_proj_matrix_elems_for_one_bin")]
    tofk = [c for c in f.calls() if (c.callee or "").endswith("::apply_tof_kernel")]
    trans = [c for c in f.calls() if (c.callee or "").endswith("::transform_proj_matrix_elems_for_one_bin")]
    ctx.stats["get_row"] = dict(calculate=len(calc), cache=len(cache), tof=len(tofk), transform=len(trans))
    # every computed row gets its TOF kernel decision before anything else happens to it
    for i, c in enumerate(calc):
        p = cfg.pos.get(c.i)

        def tof_test(n):
            return n.k == "CXXMemberCallExpr" and (n.callee or "").endswith("::is_tof_data")

        def later(n):
            return n.i in {x.i for x in cache + trans}

        w = cfg.paths_avoiding([p], tof_test, target_pred=later, to_exit=False) if p else [0]
        ok = w is None and all(any(a.k == "IfStmt" and any((m.callee or "").endswith("::is_tof_data") for m in a.c[0].walk() if m.is_call()) for a in t.ancestors()) for t in tofk) and len(tofk) >= len(calc)
        ctx.ob("C03.b-cached-row-is-finished-row", f.qn, "tof-kernel-after-calculate@%d" % i, ok, c.where(), "between computing a row and caching/transforming it the TOF-kernel step is always passed" if ok else "a computed row can be cached or transformed without the TOF-kernel step")
    # the TOF kernel is applied exactly once: only to a row that was just computed, never to one fetched from the cache
    lookups = {c.i for c in f.calls() if (c.callee or "").endswith("::get_cached_proj_matrix_elems_for_one_bin")}
    cids = {c.i for c in calc}
    for i, t in enumerate(tofk):
        fresh = cfg.must_pass_from_entry([t], lambda n: n.i in cids) is None
        # and between the computation and the kernel no further cache lookup refills the row
        stale = False
        for c in calc:
            p = cfg.pos.get(c.i)
            if p and cfg.paths_avoiding([p], lambda n: False, target_pred=lambda n: n.i in lookups, to_exit=False) is not None:
                # a lookup is reachable after the computation: is the kernel reachable after that lookup?
                for l in [x for x in f.calls() if x.i in lookups]:
                    pl = cfg.pos.get(l.i)
                    if pl and cfg.paths_avoiding([p], lambda n: False, target_pred=lambda n, l=l: n.i == l.i, to_exit=False) is not None and cfg.paths_avoiding([pl], lambda n: n.i in cids, target_pred=lambda n, t=t: n.i == t.i, to_exit=False) is not None:
                        stale = True
        ok = fresh and not stale
        ctx.ob("C03.b-cached-row-is-finished-row", f.qn, "tof-kernel-only-on-fresh-row@%d" % i, ok, t.where(), "the TOF kernel is only reached through calculate_proj_matrix_elems_for_one_bin (a cached row already carries it)" if ok else "apply_tof_kernel is reachable for a row that came from the cache: it would get the TOF kernel twice")
    # caching relative to the symmetry transformation
    for i, c in enumerate(cache):
        facts = cfg.facts_at(c)
        basic = [tv for k, tv, _r in facts if k == "this.cache_stores_only_basic_bins"]
        if not basic:
            ctx.ob("C03.b-cached-row-is-finished-row", f.qn, "cache-mode-known@%d" % i, False, c.where(), "row cached on a path where the caching mode was not tested")
            continue
        p = cfg.pos.get(c.i)
        tids = {t.i for t in trans}
        if basic[0]:
            # basic-bin mode: the row must not have been transformed yet
            w = cfg.paths_avoiding([(cfg.entry, -1)], lambda n: False, target_pred=lambda n, c=c: n.i == c.i, to_exit=False)
            before = cfg.must_pass_from_entry([c], lambda n: n.i in tids)  # None <=> every path passes a transform first
            reach = any(cfg.paths_avoiding([cfg.pos[t.i]], lambda n: False, target_pred=lambda n, c=c: n.i == c.i, to_exit=False) is not None for t in trans if t.i in cfg.pos)
            ok = not reach
            det = "basic-bin mode: the row is cached before any symmetry transformation" if ok else "basic-bin mode caches a row that may already be transformed to another bin"
        else:
            ok = cfg.must_pass_from_entry([c], lambda n: n.i in tids) is None
            det = "full mode: the row is transformed to the requested bin before it is cached" if ok else "full mode caches a row on a path without the symmetry transformation"
        ctx.ob("C03.b-cached-row-is-finished-row", f.qn, "cache-vs-transform@%d" % i, ok, c.where(), det)


def rule_c(ctx, pm, rt):
    su = [f for f in pm if f.qn == "stir::ProjMatrixByBin::set_up" and f.cfg_raw]
    if su:
        f = su[0]
        cfg = CFG(f)
        rec = {c.i for c in f.calls() if (c.callee or "").split("::")[-1] in ("recycle", "clear") and "this.cache_collection" in key(c.c[0], True)}
        w = cfg.paths_avoiding([(cfg.entry, -1)], lambda n: n.i in rec)
        ctx.ob("C03.c-setup-drops-cache", f.qn, "cache-emptied", bool(rec) and w is None, f.where(), "every normal path of set_up empties cache_collection" if rec and w is None else "set_up can return with the previous geometry's rows still cached")
    sr = [f for f in rt if f.qn == "stir::ProjMatrixByBinUsingRayTracing::set_up" and f.cfg_raw]
    if sr:
        f = sr[0]
        cfg = CFG(f)
        ids = {c.i for c in f.calls() if (c.callee or "").endswith("::clear_cache") or (c.callee or "") == "stir::ProjMatrixByBin::set_up"}
        # a return that skips the work is only acceptable when everything set_up derives from its arguments is unchanged:
        # slots = the members this set_up computes from its two arguments (read from the function body)
        REQUIRED_EQUAL = ("proj_data_info_sptr", "voxel_size", "origin", "min_index", "max_index")
        bad = None
        for r in cfg.return_nodes() + [None]:
            if r is None:
                continue
            p = cfg.pos.get(r.i)
            if p is None or not cfg.is_reachable(r):
                continue
            if cfg.must_pass_from_entry([r], lambda n: n.i in ids) is None:
                continue  # the cache was dropped on every path to this return
            eq = [k for k, tv, _r in cfg.facts_at(r) if tv is True and k.startswith("(== ")]
            missing = [fld for fld in REQUIRED_EQUAL if not any("this." + fld in k for k in eq)]
            # the member compared must still hold the value of the PREVIOUS set_up: a write to it that can reach this return makes the
            # comparison one of the new value with itself
            for fld in REQUIRED_EQUAL:
                if fld in missing:
                    continue
                ws = [n for n in f.walk() if n.i in cfg.pos and any(root_of_lvalue(e) == "this." + fld for e in written_lvalues(n))]
                if any(cfg.paths_avoiding([cfg.pos[wn.i]], lambda n: False, target_pred=lambda n, r=r: n.i == r.i, to_exit=False) is not None for wn in ws):
                    missing.append(fld + " (overwritten before it is compared)")
            if missing:
                bad = (r, missing)
                break
        # falling off the end without dropping the cache
        fall = cfg.paths_avoiding([(cfg.entry, -1)], lambda n: n.i in ids or n.k == "ReturnStmt")
        ok = bool(ids) and bad is None and fall is None
        ctx.ob(
            "C03.c-setup-drops-cache",
            f.qn,
            "cache-emptied",
            ok,
            f.where(),
            "every path either drops the cache (ProjMatrixByBin::set_up / clear_cache) or returns early under equality of %s" % (REQUIRED_EQUAL,)
            if ok
            else ("set_up returns at line %d keeping the old rows although %s may have changed" % (bad[0].line, bad[1]) if bad else "set_up can finish without dropping the old rows"),
        )
        setv = [n for n in f.walk() if n.k == "BinaryOperator" and n.op == "=" and key(n.c[0]) == "this.already_setup" and n.c[1].strip().get("v") is True]
        ctx.ob("C03.c-setup-drops-cache", f.qn, "marks-set-up", bool(setv), f.where(), "already_setup = true in set_up" if setv else "set_up never sets already_setup")
    rf5.check_setters(ctx, "C03.c-setup-drops-cache", rt, "already_setup")
    calc = [f for f in rt if f.short == "calculate_proj_matrix_elems_for_one_bin" and f.cfg_raw]
    if calc:
        f = calc[0]
        cfg = CFG(f)
        reads = [n for n in f.walk() if n.k == "MemberExpr" and key(n) == "this.already_setup"]
        ok = False
        if reads:
            blk = cfg.blocks[cfg.pos[reads[0].i][0]] if reads[0].i in cfg.pos else None
            ok = blk is not None and any(cfg.blocks[s].aborts for s in blk.succs if s is not None)
        ctx.ob("C03.c-setup-drops-cache", f.qn, "use-requires-set-up", ok, f.where(), "rows are only computed after set_up (error otherwise)" if ok else "calculate_proj_matrix_elems_for_one_bin does not test already_setup")


def rule_g_setup_keeps_settings(ctx, classes):
    """Rows are determined by bin, geometry, image grid and the matrix' SETTINGS - also after set_up() for another geometry.  A setting is a
    member the user controls: registered as a parsing key (parser.add_key(.., &member)) or assigned by a public set_* function from its
    argument.  set_up() may have to deviate from a setting for the data at hand (mashed data, non-standard voxel size), but it must not
    store that decision in the setting itself: the next set_up() for other data would start from the value forced for the previous
    data.  Hence: set_up() (and the member functions it calls) never assigns a setting."""
    n = 0
    for cls, fns in classes:
        settings = {}
        by = {}
        for f in fns:
            if f.body is not None:
                by.setdefault(f.qn, f)
        for f in fns:
            if f.body is None:
                continue
            for c in f.calls():
                if (c.callee or "").split("::")[-1] in ("add_key", "add_parsing_key") and len(c.call_args()) >= 2:
                    for a in c.call_args()[1:]:
                        a = a.strip()
                        if a.k == "UnaryOperator" and a.op == "&" and a.c[0].strip().k == "MemberExpr" and a.c[0].strip().get("mk") == "field":
                            settings.setdefault(a.c[0].strip().get("n"), "parsing key")
            if f.short.startswith("set_") and f.short != "set_up" and len(f.params) == 1 and f.cls == cls:
                pk = "v%d" % f.params[0]["d"]
                for m in f.walk():
                    if m.k in ("BinaryOperator", "CXXOperatorCallExpr") and m.op == "=" and key(m.c[-1].strip()) == pk and root_of_lvalue(m.c[-2].strip()).startswith("this."):
                        settings.setdefault(root_of_lvalue(m.c[-2].strip())[5:], f.short + "()")
        su = [f for f in fns if f.qn == cls + "::set_up" and f.body is not None]
        if not su or not settings:
            ctx.unrec(cls, "no set_up() or no settings recognised")
            continue
        todo, seen = [su[0]], set()
        while todo:
            g = todo.pop()
            if g.qn in seen:
                continue
            seen.add(g.qn)
            for c in g.calls():
                if c.callee in by and c.call_object() is not None and c.call_object().k == "CXXThisExpr" and by[c.callee].cls == cls:
                    todo.append(by[c.callee])
        for name, how in sorted(settings.items()):
            hits = []
            for qn in sorted(seen):
                for m in by[qn].walk() if qn in by else []:
                    if any(root_of_lvalue(e) == "this." + name for e in written_lvalues(m)):
                        hits.append(m)
            ctx.ob("C03.g-setup-keeps-settings", cls, "setting:" + name, not hits, (hits[0] if hits else su[0]).where(), "set_up() reads the setting `%s` (%s) without changing it" % (name, how) if not hits else "set_up() assigns the setting `%s` (%s): what it decides for the current data replaces what the user asked for, so a later set_up() for other data does not start from the setting and its rows differ from those of a fresh matrix" % (name, how))
            n += 1
    return n


def rule_d(ctx, sfns):
    by = {}
    for f in sfns:
        if f.body is not None and not f.is_dependent:
            by[(f.cls, f.short)] = f
    n = 0
    for (cls, short), f in sorted(by.items()):
        if short != "transform_bin_coordinates":
            continue
        g = by.get((cls, "transform_view_segment_indices"))
        if g is None:
            ctx.ob("C03.d-symmetry-levels-agree", cls, "has-both", False, f.where(), "no transform_view_segment_indices sibling")
            continue
        try:
            s1 = project(summarise(f, 0, ["view_num", "segment_num", "axial_pos_num", "tangential_pos_num", "timing_pos_num"]), ["view_num", "segment_num"])
            s2 = project(summarise(g, 0, ["view_num", "segment_num"]), ["view_num", "segment_num"])
        except Unrecognised as ex:
            ctx.unrec(cls, str(ex))
            continue
        ok = s1 == s2
        ctx.ob(
            "C03.d-symmetry-levels-agree",
            cls,
            "view-segment-map",
            ok,
            f.where(),
            "%d branch(es): bin-level and view/segment-level maps agree: %s" % (len(s1), sorted(s1)[0][1]) if ok else "bin-level map %s differs from view/segment-level map %s" % (sorted(s1 - s2)[:2], sorted(s2 - s1)[:2]),
        )
        n += 1
    return n


def rule_e(ctx, dfns):
    fb = [f for f in dfns if f.short == "find_basic_bin" and f.body is not None]
    if not fb:
        ctx.note("find_basic_bin is inline in a header not instantiated in the analysed unit")
        return
    f = fb[0]
    calls = [c for c in f.calls() if (c.callee or "").endswith("::find_basic_view_segment_numbers") or (c.callee or "").endswith("::find_symmetry_operation_from_basic_bin")]
    ctx.ob("C03.e-one-basic-finder", f.qn, "delegates", bool(calls), f.where(), "find_basic_bin obtains view/segment through %s" % (calls[0].callee.split("::")[-1] if calls else "?"))


def rule_f_view_flags(ctx, cfns):
    """The two view-symmetry switches are not independent: the view/segment finder treats `90 degrees` alone as folding every view
    onto [0,45] degrees, while the symmetry-operation lookup maps views beyond 135 degrees back only under `180 degrees` (two beliefs
    in one class; the header documents that with 90 on, the value given for 180 is irrelevant).  Rows are therefore right for every
    combination of switches only if every constructor path ends with  90 on => 180 on.  Decided by abstract interpretation of the
    constructor (member initialisers + body) over both flags for all values of the constructor's switch arguments."""
    import itertools

    from engine.absint import Explorer

    D90, D180 = "this.do_symmetry_90degrees_min_phi", "this.do_symmetry_180degrees_min_phi"
    n = 0
    for f in cfns:
        if not f.is_ctor or f.body is None or not f.cfg_raw or len(f.params) < 4:
            continue
        inits = {it.get("field"): node for it, node in f.inits if it.get("field") and node is not None}
        if "do_symmetry_90degrees_min_phi" not in inits or "do_symmetry_180degrees_min_phi" not in inits:
            continue
        bools = [p for p in f.params if p["t"].replace("const ", "").strip() in ("bool", "_Bool")]
        pk = ["v%d" % p["d"] for p in bools]
        cfg = CFG(f)
        # divisibility tests of the number of views: num_views % 2 != 0 implies num_views % 4 != 0 (only three combinations exist)
        V4 = V2 = None
        for m in f.walk():
            if m.k == "BinaryOperator" and m.op == "!=" and key(m.c[1].strip()) == "0":
                l = m.c[0].strip()
                if l.k == "BinaryOperator" and l.op == "%" and key(l.c[0].strip()) == "this.num_views":
                    if key(l.c[1].strip()) == "4":
                        V4 = key(m)
                    elif key(l.c[1].strip()) == "2":
                        V2 = key(m)
        div = [k for k in (V4, V2) if k is not None]
        divs = [(False, False), (True, False), (True, True)] if len(div) == 2 else [tuple(x) for x in itertools.product((True, False), repeat=len(div))]
        ex = Explorer(cfg, [D90, D180] + pk + div)

        def on_el(m, st, _ex):
            # (re)assignment of num_views: the divisibility facts refer to the new value
            if div and m.k == "BinaryOperator" and m.op == "=" and key(m.c[0]) == "this.num_views":
                return [tuple(st[: 2 + len(pk)]) + d for d in divs]
            return None

        entry = []
        for vals in itertools.product((True, False), repeat=len(pk)):
            st = ("U", "U") + vals
            # member initialisers, in declaration order of the two flags
            for i, fld in enumerate(("do_symmetry_90degrees_min_phi", "do_symmetry_180degrees_min_phi")):
                v = ex._eval(inits[fld], st)
                if v is None:
                    st = None
                    break
                st = st[:i] + (v,) + st[i + 1 :]
            if st is None:
                ctx.unrec(f.qn, "member initialiser of a view-symmetry flag is not a boolean combination of the constructor's switches")
                entry = None
                break
            entry.extend(st + d for d in divs)
        if entry is None:
            continue
        exits = ex.run(entry, on_el)
        bad = [s for s in exits if s[0] is True and s[1] is not True]
        fid = f.qn + "(" + f.sig[:40] + ")"
        ctx.ob("C03.f-view-symmetry-flags-consistent", fid, "90-implies-180", not bad and bool(exits), f.where(), "for all %d settings of the switches every constructor exit has 90-degree symmetry on => 180-degree symmetry on (%d exit states)" % (len(entry), len(exits)) if not bad else "the constructor can finish with the 90-degree view symmetry on and the 180-degree one off (e.g. switches %s): views beyond 135 degrees are folded but not mapped back" % (dict(zip([p["n"] for p in bools], bad[0][2 : 2 + len(pk)])),))
        n += 1
    return n


def uniq(fns):
    seen, out = set(), []
    for f in fns:
        k = (f.file, f.body.line if f.body is not None else f.line, f.qn, f.sig)
        if k not in seen:
            seen.add(k)
            out.append(f)
    return out


def _static_state(f):
    """references in f to local variables with static or thread storage that are not const: state that survives the call"""
    out = []
    for m in f.walk():
        if m.k == "DeclRefExpr" and m.get("dk") == "staticlocal" and not re.match(r"const\b", (m.type or "").strip()):
            out.append(m)
    return out


def rule_h_rows_have_no_hidden_state(ctx, groups, control):
    """A row may depend on the bin, the geometry the matrix was set up for and its settings - not on which rows were computed before.
    Apart from the cache (clauses a-c), nothing the row computation does may survive the call: no function in the files that compute
    rows (members of the matrix classes and their file-local helpers) uses a non-const local with static or thread storage duration
    (a memo keyed on less than everything the value depends on, shared by all objects and never reset by set_up)."""
    RULE = "C03.h-rows-have-no-hidden-state"
    n = 0
    for name, fns in groups:
        seen = set()
        bad = []
        cnt = 0
        for f in fns:
            if f.body is None or (f.file, f.body.line) in seen:
                continue
            seen.add((f.file, f.body.line))
            cnt += 1
            st = _static_state(f)
            if st:
                bad.append((f, st[0]))
        if cnt < 5:
            ctx.unrec(name, "only %d functions found in the row-computing files" % cnt)
            continue
        ok = not bad
        ctx.ob(RULE, name, "static-locals", ok, (bad[0][1] if bad else fns[0]).where(), "none of the %d functions that compute rows keeps state in a static or thread-local variable" % cnt if ok else "%s uses the static/thread-local variable `%s`: what it holds was computed for an earlier row - possibly of another geometry or another matrix object - and is not reset by set_up(); rows then depend on the request history" % (bad[0][0].qn, bad[0][1].get("n")))
        n += 1
    # positive control: the matcher must see the static locals of a function known to have them
    hits = [m for f in control if f.body is not None for m in _static_state(f)]
    if not hits:
        ctx.fail_broken("control for C03.h failed: no static local recognised in date_time_functions.cxx (the matcher is blind)")
    ctx.stats["static_local_control_hits"] = len(hits)
    return n


# members the coordinate getters read that are DERIVED from compared members (one line of reason each)
EQUALITY_DERIVED = {
    "m_offset": "computed lazily from min/max ring difference, ring spacing and the numbers of axial positions, all compared",
    "ax_pos_num_offset": "idem",
    "ring_diff_arrays_computed": "flag of the lazy computation",
}


def rule_i_equality_covers_geometry(ctx, getters, equals, scanner_eq):
    """set_up() of a matrix keeps what it computed when the new projection-data geometry `==` the previous one.  That is only sound if
    equal means equal in everything rows depend on: (1) every member the coordinate getters of the cylindrical geometries read
    (get_phi, get_m, get_t, get_s, get_tantheta and the accessors they call) is compared by blindly_equals/operator== of the class or a
    base (or is derived from compared members); (2) an equality operator uses every comparison it makes: a local that holds comparison
    results is never overwritten without its previous value entering the new one."""
    RULE = "C03.i-equality-covers-geometry"
    n = 0
    compared = set()
    for f in equals:
        if f.body is None:
            continue
        for m in f.walk():
            if m.k == "MemberExpr" and m.get("mk") == "field":
                compared.add(m.get("n"))
    seen = set()
    for f in getters:
        if f.body is None or (f.file, f.body.line) in seen or not f.short.startswith("get_"):
            continue
        seen.add((f.file, f.body.line))
        reads = sorted({m.get("n") for m in f.walk() if m.k == "MemberExpr" and m.get("mk") == "field" and m.c and m.c[0].strip().k == "CXXThisExpr"})
        if not reads:
            continue
        missing = [r for r in reads if r not in compared and r not in EQUALITY_DERIVED]
        ctx.ob(RULE, f.qn, "members-read:" + ",".join(reads), not missing, f.where(), "every member this getter reads is compared by the equality of the class chain%s" % ("" if not set(reads) & set(EQUALITY_DERIVED) else " (or derived from compared members)") if not missing else "%s reads `%s`, which no blindly_equals/operator== of the class chain compares: two geometries that differ in it are `equal`, and a matrix set up for the one keeps serving the rows of the other" % (f.short, ", ".join(missing)))
        n += 1
    # (2) no comparison result is thrown away
    from engine.algebra import LocalDefs

    for f in list(equals) + list(scanner_eq):
        if f.body is None or (f.file, f.body.line, "eq") in seen:
            continue
        seen.add((f.file, f.body.line, "eq"))
        defs = LocalDefs(f)
        for d, vd in defs.decl.items():
            if not re.fullmatch(r"(const )?bool", (vd.get("t") or vd.type or "").strip()):
                continue
            v = "v%d" % d
            ws = defs.writes.get(v, [])
            lost = [w for w in ws if w.k == "BinaryOperator" and w.op == "=" and v not in key(w.c[1])]
            has_init = bool(vd.c)
            bad = [w for w in lost if has_init or any(x is not w and x.line < w.line for x in ws)]
            ctx.ob(RULE, f.qn, "accumulator:" + (vd.get("n") or v), not bad, (bad[0] if bad else vd).where(), "every assignment to the result keeps what was compared before" if not bad else "the result of the comparisons made so far is overwritten (`%s`): whatever differed before this line no longer matters" % key(bad[0], True)[:160])
            n += 1
    return n


def rule_j_shift_arguments_agree(ctx, fns):
    """Every symmetry operation that involves a shift along the axis is given the shift twice: in axial positions (relabels the bin)
    and in image planes (moves the voxels).  They are the same shift: planes = num_planes_per_axial_pos[segment] * axial positions, at
    every construction site, in both branches of a `shift enabled ? .. : 0` choice.  (For blocks the basic bin is not at axial
    position 0: handing over the axial position itself labels the transformed row with another bin - defect F53.)"""
    RULE = "C03.j-shift-arguments-agree"
    import sympy
    from engine.algebra import Algebra, LocalDefs

    n = 0
    seen = set()
    for f in fns:
        if f.body is None or (f.file, f.body.line) in seen:
            continue
        seen.add((f.file, f.body.line))
        alg = Algebra(f, names=True)
        defs = LocalDefs(f)

        def resolve(e):
            e = e.strip()
            if e.k == "DeclRefExpr" and e.get("dk") == "local":
                i1 = defs.single_def(e.get("d"))
                if i1 is not None:
                    return i1.strip()
            return e

        sites = set()
        for c in f.walk():
            if c.k not in ("CXXConstructExpr", "CXXTemporaryObjectExpr") or "SymmetryOperation_PET_CartesianGrid_" not in (c.callee or "") or c.line in sites:
                continue
            args = c.call_args()
            cls = (c.callee or "").split("::")[-1]
            if cls.endswith("_z_shift") and len(args) == 2:
                a, z = args[0], args[1]
            elif len(args) >= 3:
                a, z = args[1], args[2]
            else:
                continue
            sites.add(c.line)
            a, z = resolve(a), resolve(z)
            P = [x for x in alg.expr(z).free_symbols if "num_planes_per_axial_pos" in x.name] if z.k != "ConditionalOperator" else None
            pairs = []
            if a.k == "ConditionalOperator" and z.k == "ConditionalOperator" and key(a.c[0]) == key(z.c[0]):
                pairs = [(a.c[1], z.c[1]), (a.c[2], z.c[2])]
            elif a.k != "ConditionalOperator" and z.k != "ConditionalOperator":
                pairs = [(a, z)]
            if not pairs:
                ctx.unrec(f.qn, "shift arguments of %s at line %d are not both plain or both conditional on the same test" % (cls, c.line))
                continue
            ok = True
            shown = []
            for aa, zz in pairs:
                ea, ez = alg.expr(aa), alg.expr(zz)
                ps = [x for x in ez.free_symbols if "num_planes_per_axial_pos" in x.name]
                if ps:
                    good = sympy.simplify(ez - ps[0] * ea) == 0
                else:
                    good = sympy.simplify(ez) == 0 and sympy.simplify(ea) == 0
                ok = ok and bool(good)
                shown.append("%s / %s" % (ea, ez))
            ctx.ob(RULE, f.qn, "%s@%d" % (cls.replace("SymmetryOperation_PET_CartesianGrid_", ""), c.line), ok, c.where(), "plane shift = planes per axial position * axial shift" if ok else "axial shift and plane shift handed to %s differ: %s - the transformed row is labelled with another bin than the one whose voxels it holds" % (cls, "; ".join(shown)))
            n += 1
    return n


def run(ctx):
    ctx.explanation = (
        "Decides: (a) ProjMatrixByBin::cache_key packs sign and magnitude of axial, tangential and TOF index into pairwise disjoint "
        "bit fields whose widths are exactly the constants set_up() rejects larger data against (error()), and key plus the "
        "(view,segment) subscripts cover every coordinate that distinguishes bins - so two different bins never share a cache entry; "
        "(b) in get_proj_matrix_elems_for_one_bin every computed row passes the TOF-kernel step before being cached or transformed, "
        "basic-bin mode caches before and full mode after the symmetry transformation; (c) set_up empties the cache on every path, the "
        "ray-tracing matrix's setters clear already_setup (idiom order checked) and rows are only computed after set_up; (d) for each "
        "of the 16 symmetry operations the bin-level and view/segment-level transformations agree on (view, segment) branch by branch "
        "(affine summaries); (e) the basic-bin finder delegates to the one view/segment finder. NOT decided: that the chosen operation "
        "maps the basic bin back to the requested bin; geometric agreement with the image transformation; non-negativity, in-image, "
        "no duplicate voxel (ray-tracing numerics)."
    )
    ctx.assumptions += ["CacheKey is a 64-bit unsigned integer", "const members with in-class initialisers (the *_bits constants) are not overridden by a constructor"]
    reqs = requests()
    ctx.ex.prefetch(reqs)
    us = [ctx.ex.get(r) for r in reqs]
    if any(u is None for u in us):
        return
    pm, rt, so, ds, be, ctor, ip = (uniq(u.functions) for u in us[:7])
    rule_a(ctx, pm, be)
    rule_b(ctx, pm)
    rule_c(ctx, pm, rt)
    n = rule_d(ctx, so)
    if n < 14:
        ctx.fail_broken("only %d symmetry operation classes analysed (16 confirmed by hand)" % n)
    rule_e(ctx, ds)
    rule_f_view_flags(ctx, ctor)
    ctx.require_count("C03.f-view-symmetry-flags-consistent", 1)
    rule_g_setup_keeps_settings(ctx, [("stir::ProjMatrixByBinUsingRayTracing", rt), ("stir::ProjMatrixByBinUsingInterpolation", ip)])
    ctx.require_count("C03.g-setup-keeps-settings", 14)
    uh = [ctx.ex.get(r) for r in reqs[7:10]]
    if all(u is not None for u in uh):
        rule_h_rows_have_no_hidden_state(ctx, [("interpolation matrix (ProjMatrixByBinUsingInterpolation.cxx)", uh[0].functions), ("ray-tracing matrix (ProjMatrixByBinUsingRayTracing.cxx, RayTraceVoxelsOnCartesianGrid.cxx)", uh[1].functions)], uh[2].functions)
        ctx.require_count("C03.h-rows-have-no-hidden-state", 2)
    ui = [ctx.ex.get(r) for r in reqs[10:15]]
    if all(u is not None for u in ui):
        getters = [f for u in ui[:2] for f in u.functions if f.short.startswith("get_")]
        equals = [f for u in ui[:4] for f in u.functions if f.short in ("blindly_equals", "operator==")]
        rule_i_equality_covers_geometry(ctx, getters, equals, ui[4].functions)
        ctx.require_count("C03.i-equality-covers-geometry", 8)
    uj = ctx.ex.get(reqs[15])
    if uj is not None:
        rule_j_shift_arguments_agree(ctx, uj.functions)
        ctx.require_count("C03.j-shift-arguments-agree", 30)
    ctx.require_count("C03.a-cache-key-injective", 12)
    ctx.require_count("C03.b-cached-row-is-finished-row", 4)
    ctx.require_count("C03.c-setup-drops-cache", 8)
    ctx.require_count("C03.d-symmetry-levels-agree", 14)
